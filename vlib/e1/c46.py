"""C46 Warm starts and start tasks run only what follows the start."""
from __future__ import annotations

from vlib.e1 import runner
from vlib.e1.common import E1_META, E1_NOTE
from vlib.gen import wfgen
from vlib.models import gtmodel

PID = 'C46'
META = dict(E1_META, **{
    'technique': 'online monitor on job-submit commands (start-point bound, '
                 'GT prerequisites with pre-start atoms satisfied) + offline '
                 'comparison with the closure / reach model',
    'level_text': (
        'Generated workflows are started on the real scheduler with '
        '--start-cycle-point after the initial point, or with --start-task '
        'selections. Warm start: no non-manual submission before the start '
        'point; prerequisites on pre-start instances count as satisfied '
        '(online GT evaluation with the start point as cut-off); for '
        'all-complete plans the submitted set equals the closure model cut '
        'at the start point. Start tasks: every submitted instance lies in '
        'the model reach set of the start tasks (start task, later '
        'parentless instance of a task already running in the set, or an '
        'instance triggered from the set); for all-complete plans with '
        'nothing stuck the submitted set equals the reach set.'),
    'level_note': E1_NOTE,
    'design_ref': 'DESIGN.md §5 C46',
})
RULE = ('case = generated workflow x (start point | start-task subset) + '
        'all-complete plan; distinct by event census; non-trivial when >= 2 '
        'instances ran')
ASSUMPTIONS = ['no manual triggering in these runs']
MIN = {'warm_starts': 40, 'start_task_runs': 40, 'model_compared': 50}
NCASES = {'quick': 800, 'thorough': 10000}
MONS = ['c01', 'c26']


def ncases(tier):
    return NCASES[tier]


def run_case(ctx, i, rng):
    # (sometimes more than nine cycles: points of different widths)
    wide = rng.random() < 0.25
    feat = wfgen.Features(min_final=10 if wide else 3,
                          max_final=12 if wide else 6,
                          max_tasks=4 if wide else 5)
    gt = wfgen.gen_workflow(rng, feat)
    case = runner.build_case(rng, gt, 'all-complete', hostile=0.3)
    inst = [(n, p) for n in gt['names'] for p in wfgen.task_points(gt, n)]
    warm = i % 2 == 0
    if warm:
        start = rng.randint(gt['initial'] + 1, gt['final'])
        case['options'] = {'startcp': str(start)}
        case['start_point'] = start
        model = gtmodel.closure(case, start=start)
        ctx.count('warm_starts')
    else:
        k = rng.randint(1, 3)
        seeds = sorted({f'{p}/{n}' for n, p in rng.sample(inst, min(
            k, len(inst)))})
        if wide and k >= 2:
            # start tasks on both sides of the one/two-digit boundary
            lo = [x for x in inst if x[1] < 10]
            hi = [x for x in inst if x[1] >= 10]
            if lo and hi:
                seeds = sorted({'%d/%s' % (p, n) for n, p in (
                    rng.choice(lo), rng.choice(hi))})
        start = min(int(s.split('/')[0]) for s in seeds)
        case['options'] = {'starttask': seeds}
        case['start_point'] = start
        model = gtmodel.closure(case, start=start, start_tasks=seeds)
        ctx.count('start_task_runs')
    results = runner.run_case(ctx, f'c{i}', case, [{'name': 'run'}], MONS,
                              PID)
    if not results:
        ctx.evaluated(('discard', i), nontrivial=False)
        return
    res = results[0]
    end = (res.get('monitors') or {}).get('end') or {}
    sub = set(end.get('submitted') or [])
    detail = {'flow': gt['flow_text'], 'options': case['options'],
              'submitted': sorted(sub),
              'model_run': sorted(f'{p}/{n}' for n, p in model['run']),
              'model_stuck': sorted(f'{p}/{n}' for n, p in model['stuck']),
              'ended': res.get('stop_reason')}
    ctx.evaluated(runner.trace_key(results), nontrivial=len(sub) >= 2)
    ctx.sample(detail)
    early = sorted(t for t in sub if int(t.split('/')[0]) < start)
    if early:
        ctx.violation('C46:ran-before-start-point',
                      f'{early[:4]} ran before the start point {start}',
                      detail)
    want = {f'{p}/{n}' for n, p in model['run']}
    extra = sorted(sub - want)
    if res.get('capped'):
        return
    ctx.count('model_compared')
    if extra:
        ctx.violation(
            'C46:ran-outside-' + ('warm-start-closure' if warm
                                  else 'start-task-reach'),
            f'{extra[:4]} ran but are not in the model set for '
            f'{case["options"]}', detail)
    if not model['stuck'] and not model['incomplete']:
        missing = sorted(want - sub)
        if missing:
            from vlib.e1.c43 import known_c01
            if known_c01(case, set(missing), [res]):
                ctx.count('missing_explained_by_C01_known_finding')
            else:
                ctx.violation(
                    'C46:did-not-run:' + ('warm-start' if warm
                                          else 'start-tasks'),
                    f'{missing[:4]} follow from the start but never ran',
                    detail)
        else:
            ctx.count('exact_match_with_model')
