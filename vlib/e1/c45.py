"""C45 Absolute-trigger outputs satisfy every dependent instance."""
from __future__ import annotations

from vlib.e1 import phases, runner
from vlib.e1.common import E1_META, E1_NOTE
from vlib.gen import wfgen

PID = 'C45'
META = dict(E1_META, **{
    'technique': 'online monitor of prerequisite snapshots at every pool '
                 'addition and main-loop iteration, with the set of completed '
                 'absolute outputs carried across stop/kill restarts',
    'level_text': (
        'Generated graphs with absolute triggers (foo[^], foo[N]) run on the '
        'real scheduler with stop- and kill-restarts at random points. Once '
        'the referenced output has been completed (observed on the message '
        'that completes it), at every main-loop iteration and at every '
        'addition of a dependent instance to the pool (in any incarnation, '
        'including reload from the DB) that prerequisite must be satisfied.'),
    'level_note': E1_NOTE,
    'design_ref': 'DESIGN.md §5 C45',
    'budget': {'quick': 150, 'thorough': 1500},
})
RULE = ('case = generated workflow with absolute triggers x recurrences x '
        'restart points; distinct by event census; non-trivial when an '
        'absolute output completed and a dependent was checked afterwards')
ASSUMPTIONS = []
MIN = {'c45.abs_prereq_checks': 400, 'c45.abs_checks_at-spawn': 60,
       'c45.abs_checks_after-restart': 20}
NCASES = {'quick': 500, 'thorough': 6000}
MONS = ['c45', 'c26']


def ncases(tier):
    return NCASES[tier]


def run_case(ctx, i, rng):
    feat = wfgen.Features(abs_triggers=True, abs_later=True, max_tasks=5,
                          recs=['P1', 'P1', 'R1', 'P2', '2/P2'],
                          runahead=['P0', 'P1', 'P2', 'P4', None],
                          optional_outputs=rng.random() < 0.5)
    gt = wfgen.gen_workflow(rng, feat)
    case = runner.build_case(rng, gt, 'all-complete', hostile=0.3)
    if rng.random() < 0.3 and gt['final'] >= 3:
        # warm start: the first dependant instances lie before the start
        # point and can never be spawned
        case['options'] = {'startcp': str(rng.randint(2, gt['final'] - 1))}
        case['start_point'] = int(case['options']['startcp'])
    nphase = rng.choice([1, 2, 2, 3])
    plist = []
    for ph in range(nphase):
        p = {'name': f'p{ph}'}
        if ph < nphase - 1:
            k = rng.randint(3, 14)
            if rng.random() < 0.2:
                p['kill_at_iter'] = k
            else:
                p['script'] = [{'at': k, 'cmd': 'stop', 'args': {
                    'mode': rng.choice(['clean', 'now'])}}]
        plist.append(p)

    def between(idx, res, home):
        phases.advance_world_offline(case, home, rng.choice([0, 2, 5]))
    results = runner.run_case(ctx, f'c{i}', case, plist, MONS, PID,
                              between=between)
    if not results:
        ctx.evaluated(('discard', i), nontrivial=False)
        return
    n = sum(((r.get('monitors') or {}).get('c45') or {}).get(
        'abs_prereq_checks', 0) for r in results)
    ctx.evaluated(runner.trace_key(results), nontrivial=n > 0)
    ctx.sample({'flow': gt['flow_text'], 'phases': len(plist),
                'abs_checks': n})
