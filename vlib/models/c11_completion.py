"""Reference models for task-output completion (C11) and output
classification / validation consistency (C12).

Written from the property statements, DESIGN Appendix E.2 / E.3 and the user
documentation of `[runtime][<ns>]completion`.  Nothing here imports cylc.

Vocabulary
----------
output     the name used in the graph / `cylc set` ("submit-failed", "x-1")
compvar    the spelling of an output inside a completion expression
           (hyphens become underscores: "submit_failed", "x_1")
mark       how the graph declares an output: REQ (named without "?"),
           OPT (named with "?") or None (not named in the graph)
tree       a boolean expression: ('v', compvar) | ('and', [tree, ...]) |
           ('or', [tree, ...])
"""
from __future__ import annotations

import itertools

REQ, OPT = 'required', 'optional'

EXPIRED, SUBMITTED, SUBMIT_FAILED, STARTED, SUCCEEDED, FAILED = STD = (
    'expired', 'submitted', 'submit-failed', 'started', 'succeeded', 'failed')
FINAL = (SUCCEEDED, FAILED, SUBMIT_FAILED, EXPIRED)


def compvar(output: str) -> str:
    """Documented spelling rule: hyphens are written as underscores."""
    return ''.join('_' if ch == '-' else ch for ch in output)


# -- boolean expression trees -------------------------------------------

def ev(tree, true_vars) -> bool:
    """Truth of a tree when exactly the compvars in `true_vars` are true."""
    kind = tree[0]
    if kind == 'v':
        return tree[1] in true_vars
    if kind == 'and':
        for sub in tree[1]:
            if not ev(sub, true_vars):
                return False
        return True
    if kind == 'or':
        for sub in tree[1]:
            if ev(sub, true_vars):
                return True
        return False
    raise ValueError(kind)


def names(tree) -> set:
    if tree[0] == 'v':
        return {tree[1]}
    out = set()
    for sub in tree[1]:
        out |= names(sub)
    return out


def leaves(tree) -> int:
    return 1 if tree[0] == 'v' else sum(leaves(s) for s in tree[1])


def render(tree, rng=None, full_parens=False, top=True) -> str:
    """Source text.  `and` binds tighter than `or`; a child of the same kind
    as its parent is always parenthesised (keeps the tree shape visible to a
    parser), other parentheses only when needed unless `full_parens`."""
    def sp():
        if rng is None:
            return ' '
        return rng.choice([' ', ' ', ' ', '  ', '   '])

    kind = tree[0]
    if kind == 'v':
        s = tree[1]
        if rng is not None and rng.random() < 0.08:
            s = f'({s})'
        return s
    parts = []
    for sub in tree[1]:
        t = render(sub, rng, full_parens, top=False)
        if sub[0] != 'v' and (
                full_parens or sub[0] == kind
                or (kind == 'and' and sub[0] == 'or')
                or (rng is not None and rng.random() < 0.3)):
            pad = '' if rng is None or rng.random() < 0.8 else ' '
            t = f'({pad}{t}{pad})'
        parts.append(t)
    out = parts[0]
    for p in parts[1:]:
        out = f'{out}{sp()}{kind}{sp()}{p}'
    if full_parens and not top:
        return out
    return out


def binary_trees(n_leaves: int, variables):
    """Every binary and/or tree with exactly n_leaves leaves over variables
    (leaf repetition allowed).  Children lists have length 2."""
    if n_leaves == 1:
        for v in variables:
            yield ('v', v)
        return
    for k in range(1, n_leaves):
        for left in binary_trees(k, variables):
            for right in binary_trees(n_leaves - k, variables):
                yield ('and', [left, right])
                yield ('or', [left, right])


def count_binary_trees(n_leaves: int, nvars: int) -> int:
    cat = [1, 1, 2, 5, 14, 42]
    return cat[n_leaves - 1] * 2 ** (n_leaves - 1) * nvars ** n_leaves


def nth_shape(n_leaves: int, index: int):
    """The index-th (shape, operators) skeleton with n_leaves leaves; leaves
    are numbered 0.. left to right as ('v', i)."""
    sk = _skeletons(n_leaves)
    return sk[index % len(sk)]


_SK = {}


def _skeletons(n):
    if n not in _SK:
        def build(lo, hi):
            if hi - lo == 1:
                return [('v', lo)]
            out = []
            for mid in range(lo + 1, hi):
                for le in build(lo, mid):
                    for ri in build(mid, hi):
                        out.append(('and', [le, ri]))
                        out.append(('or', [le, ri]))
            return out
        _SK[n] = build(0, n)
    return _SK[n]


def fill(skel, assignment):
    if skel[0] == 'v':
        return ('v', assignment[skel[1]])
    return (skel[0], [fill(s, assignment) for s in skel[1]])


def random_tree(rng, variables, max_leaves=6, nary=True):
    n = rng.randint(1, max_leaves)

    def build(k):
        if k == 1:
            return ('v', rng.choice(variables))
        kind = rng.choice(['and', 'or'])
        nparts = rng.randint(2, min(k, 4 if nary else 2))
        # split k leaves over nparts children (each >= 1)
        cuts = sorted(rng.sample(range(1, k), nparts - 1))
        sizes = [b - a for a, b in zip([0] + cuts, cuts + [k])]
        return (kind, [build(s) for s in sizes])
    return build(n)


# -- E.2: default completion rule ----------------------------------------

def effective_required(marks: dict) -> set:
    """Outputs that are required: marked REQ, plus success when neither
    :succeeded nor :failed is marked at all."""
    R = {o for o, m in marks.items() if m == REQ}
    if marks.get(SUCCEEDED) is None and marks.get(FAILED) is None:
        R.add(SUCCEEDED)
    return R


def default_flags(marks: dict):
    succ_opt = marks.get(SUCCEEDED) == OPT or marks.get(FAILED) == OPT
    sub_opt = marks.get(SUBMITTED) == OPT or marks.get(SUBMIT_FAILED) == OPT
    exp_opt = marks.get(EXPIRED) == OPT
    return succ_opt, sub_opt, exp_opt


def default_complete(marks: dict, completed: set) -> bool:
    """Appendix E.2, literally.  `marks` and `completed` use output names."""
    R = effective_required(marks)
    succ_opt, sub_opt, exp_opt = default_flags(marks)
    if succ_opt:
        ran_ok = (R <= completed and SUCCEEDED in completed) or (
            FAILED in completed)
    else:
        ran_ok = R <= completed
    return bool(
        ran_ok
        or (sub_opt and SUBMIT_FAILED in completed)
        or (exp_opt and EXPIRED in completed))


def user_complete(tree, completed: set) -> bool:
    """A user expression over the completed outputs (compvar spelling)."""
    return ev(tree, {compvar(o) for o in completed})


# -- which (succeeded, failed, ...) mark patterns can a graph declare -----

def legal_std_patterns():
    """All mark assignments of the six standard outputs that a graph can
    declare: expired / submit-failed can only be optional; opposite outputs
    (succeeded/failed, submitted/submit-failed) must both be optional when
    both are named."""
    sf = [(None, None), (REQ, None), (OPT, None), (None, REQ), (None, OPT),
          (OPT, OPT)]
    sub = [(None, None), (REQ, None), (OPT, None), (None, OPT), (OPT, OPT)]
    out = []
    for (s, f), (sb, sbf), ex, st in itertools.product(
            sf, sub, (None, OPT), (None, REQ, OPT)):
        out.append({SUCCEEDED: s, FAILED: f, SUBMITTED: sb,
                    SUBMIT_FAILED: sbf, EXPIRED: ex, STARTED: st})
    return out


# -- E.3: classification --------------------------------------------------

def classify(fn, referenced: set, all_compvars: set, also_false=()) -> dict:
    """required / optional / None per compvar.

    fn(true_compvars) -> bool is the completion condition.  required(o) iff
    fn is false under "everything true except o; expired and submit_failed
    (and `also_false`) false"; optional iff referenced and not required;
    None iff unreferenced.
    """
    out = {}
    forced_false = {'expired', 'submit_failed', *also_false}
    for cv in all_compvars:
        if cv not in referenced:
            out[cv] = None
            continue
        true_vars = {v for v in all_compvars
                     if v != cv and v not in forced_false}
        out[cv] = OPT if fn(true_vars) else REQ
    return out


def classify_tree(tree, all_compvars: set, also_false=()) -> dict:
    return classify(lambda tv: ev(tree, tv), names(tree), set(all_compvars),
                    also_false)


def graph_optionality(marks: dict) -> dict:
    """Optionality *declared in the graph* per compvar (E.3): what is not
    named is None, except that failed is implicitly optional when succeeded
    is optional."""
    g = {compvar(o): m for o, m in marks.items()}
    if g.get('succeeded') == OPT and g.get('failed') is None:
        g['failed'] = OPT
    return g


def validation_conflicts(marks: dict, expr_class: dict) -> list:
    """The (compvar, reason) pairs that make a user completion expression
    inconsistent with the graph (E.3).  Empty list = must be accepted."""
    g = graph_optionality(marks)
    bad = []
    for cv in sorted(set(g) | set(expr_class)):
        go = g.get(cv)
        eo = expr_class.get(cv)
        pre = cv in ('submit_failed', 'expired')
        if go == OPT and eo == REQ:
            bad.append((cv, 'graph-optional+expr-required'))
        elif go == REQ and eo is None:
            bad.append((cv, 'graph-required+expr-unreferenced'))
        elif go == REQ and eo == OPT and not pre:
            bad.append((cv, 'graph-required+expr-optional'))
        elif go == OPT and eo is None and pre:
            bad.append((cv, 'graph-optional+expr-unreferenced-pre'))
    return bad
