"""C17 Date-time recurrences agree with brute-force enumeration; caches are
transparent.

Monitor shape: the real ISO8601Sequence is built from a generated Cylc
recurrence expression (all formats, truncated / relative / absolute points,
exclusion points and exclusion sequences, 4 calendars, several time zones);
every query method is asked of three objects (a fresh one, a warm one and a
warm one with a different prior query history) and the answers are compared
with the explicit ordered list (vlib.models.c17_rec for the queries;
iteration of the metomi.isodatetime recurrence plus own exclusion predicates
for the list; own arithmetic for the documented meaning of the expression).
"""
from __future__ import annotations

import itertools

from vlib.models import c17_rec as M
from vlib.models import c18_cal as C

PID = 'C17'
META = {
    'engine': 'E2 funcmon',
    'level': 'exploration',
    'technique': 'differential monitor of the ISO8601Sequence query API '
                 '(cold / warm / differently-warm objects) against an '
                 'explicit ordered point list',
    'level_text': (
        'Random Cylc date-time recurrences (20 forms; absolute, relative, '
        'truncated and min() points; fixed and nominal intervals; exclusion '
        'points and exclusion sequences; Gregorian/360/365/366-day '
        'calendars; 8 time zones; expanded years) are built with the real '
        'ISO8601Sequence inside a context window of at most 45 points. '
        'is_valid, is_on_sequence, get_next_point, '
        'get_next_point_on_sequence, get_prev_point, '
        'get_nearest_prev_point, get_first_point, get_start_point and '
        'get_stop_point are compared with the explicit list; each query is '
        'put to a fresh object, a warm object and a warm object with '
        'another history (including histories long enough to overflow the '
        'per-object caches). Where the documented meaning is clear-cut the '
        'list itself is also compared with own arithmetic. Held = no '
        'disagreement on the recurrences explored.'),
    'level_note': 'metomi.isodatetime (TimeRecurrence iteration) and the own '
                  'calendar arithmetic of vlib/models/c18_cal.py are trusted.',
    'design_ref': 'DESIGN.md §5 C17',
    'budget': {'quick': 240, 'thorough': 2400},
}
RULE = ('case = (calendar, time zone, expanded-year digits, dump format, '
        'initial point, final point, recurrence expression with exclusions); '
        'distinct by that tuple; non-trivial when the explicit list has at '
        'least two points or an exclusion removes a point')
ASSUMPTIONS = [
    'the ordered list is the iteration of the metomi.isodatetime '
    'TimeRecurrence held by a separate, never queried ISO8601Sequence '
    '(unbounded: first 45 points), minus exclusions decided by own '
    'predicates on instants; for expressions with a clear-cut documented '
    'meaning (fixed-length steps, or nominal steps on days 1-28) that list '
    'is additionally compared with own arithmetic from the expression',
    'recurrences that count back from their end without limit (Pd/END, '
    'R/Pd) are compared with the documented set only from the initial '
    'cycle point onwards',
    'unbounded recurrences are queried only below the enumerated horizon; '
    'recurrences whose exclusions swallow the enumerated tail are discarded '
    '(no finite search answers "next point")',
    'get_prev_point and get_next_point_on_sequence are only asked for '
    'members; is_on_sequence only between the first and last member',
    'the module-level lru caches are emptied at the start of each case and '
    'iso8601.init() is called once per case (re-initialising with another '
    'time zone in one process is outside the quantifier)',
    'points are at minute resolution (the default cycle point format)',
    'nominal (month / year) steps are only generated when every point of '
    'the case is spelled in the cycle point time zone, as Cylc does after '
    'standardising (adding a month to the same instant held in another zone '
    'can land on another day; which zone "iterating the recurrence" means '
    'is then not pinned down by the statement); for the same reason queries '
    'spelled in a foreign zone are only put to fixed-step recurrences, and '
    'week-date truncated points (W-DThh) are not combined with month/year '
    'steps (isodatetime steps those in week-date space)',
    'R/START/END with END <= START, and any expression the parser rejects '
    'and the model does not cover, are counted discards',
    'a bounded recurrence whose exclusions remove every point is kept: '
    'start/stop/next must then be None and membership False',
]
MIN = {
    'seqs_checked': 500, 'queries': 15000, 'answers_compared': 45000,
    'with_exclusion_point': 100, 'with_exclusion_seq': 100,
    'exclusion_removed_points': 150, 'model_list_compared': 400,
    'warm_history_over_100': 10, 'nominal_step': 40, 'truncated_point': 100,
    'relative_point': 60, 'unbounded': 100, 'end_anchored': 100,
    'tail_excluded': 30, 'head_excluded': 30,
    'cal:gregorian': 80, 'cal:360day': 80, 'cal:365day': 80,
    'cal:366day': 80,
}
CASE_TIMEOUT = 60

NCASES = {'quick': 800, 'thorough': 12000}
NQPOINTS = 11   # query points per recurrence (each asked ~4 methods x 3)
TZS = ('Z', 'Z', '+0530', '-03', '+1245', '-0930', '+01', '-0330', '+14')
FORMATS = (None, None, None, 'CCYY-MM-DDThh:mmZ')
OFFSETS = (0, 60, -60, 330, -180, 765, -570)

FIXED_STEPS = (
    ('PT1H', 3600), ('PT3H', 10800), ('PT6H', 21600), ('PT12H', 43200),
    ('PT30M', 1800), ('PT90M', 5400), ('PT1H30M', 5400), ('P1D', 86400),
    ('P2D', 172800), ('P3D', 259200), ('P1W', 604800), ('P10D', 864000),
    ('PT36H', 129600), ('P1DT6H', 108000), ('PT24H', 86400),
)
NOMINAL_STEPS = (('P1M', 1), ('P2M', 2), ('P3M', 3), ('P1Y', 12),
                 ('P6M', 6))

_CUR = {}


def ncases(tier):
    return NCASES[tier]


def setup_shard(ctx):
    C.selftest()
    M.selftest()
    import logging
    logging.getLogger('cylc').setLevel(logging.CRITICAL)


def on_timeout(ctx, i):
    cur = dict(_CUR)
    if cur.get('in_query'):
        ctx.violation(
            f'C17:hang:{cur.get("method")}:{cur.get("mechanism")}',
            f'{cur.get("text")} (initial {cur.get("icp")}, final '
            f'{cur.get("fcp")}): {cur.get("method")}({cur.get("query")}) '
            f'did not return within {CASE_TIMEOUT} s', cur)


def clear_iso_caches():
    from cylc.flow.cycling import iso8601 as I
    for cls in (I.ISO8601Point, I.ISO8601Interval):
        for name in dir(cls):
            f = getattr(cls, name, None)
            if hasattr(f, 'cache_clear'):
                f.cache_clear()
    I._interval_parse.cache_clear()
    I._point_parse.cache_clear()


# ---------------------------------------------------------------------------
# generation

def gen_config(i, rng):
    cal = C.CALENDARS[(i + i // 16) % 4]
    xd = rng.choice([0, 0, 0, 0, 2])
    # single zone: every point is spelled in the cycle point time zone (as
    # Cylc itself does after standardising); only then are nominal
    # (month/year) steps generated, see ASSUMPTIONS
    single = rng.random() < 0.4
    fmt = None if single else rng.choice(FORMATS)
    if fmt and xd:
        fmt = '+X' + fmt
    tz = rng.choice(TZS)
    return {'calendar': cal, 'xdigits': xd, 'format': fmt, 'tz': tz,
            'single_zone': single,
            'nominal': single and rng.random() < 0.4,
            'ymin': -(10 ** (4 + xd) - 1) if xd else 0,
            'ymax': 10 ** (4 + xd) - 1 if xd else 9999}


def render_std(cfg, inst):
    """The instant in the configured cycle point format."""
    cal, xd = cfg['calendar'], cfg['xdigits']
    if cfg['format']:
        y, m, d, hh, mm, _ = C.fields_at(inst, 0, cal)
        return f'{C.year_render(y, xd)}-{m:02d}-{d:02d}T{hh:02d}:{mm:02d}Z'
    off = C.tz_minutes(cfg['tz'])
    y, m, d, hh, mm, _ = C.fields_at(inst, off, cal)
    return f'{C.year_render(y, xd)}{m:02d}{d:02d}T{hh:02d}{mm:02d}{cfg["tz"]}'


def render_alt(rng, cfg, inst):
    """Another valid spelling: (text, offset it is held in)."""
    cal, xd = cfg['calendar'], cfg['xdigits']
    wf = C.tz_minutes(cfg['tz'])
    r = rng.random()
    if cfg['single_zone']:
        off, explicit = wf, r < 0.5
    elif r < 0.3:
        off, explicit = wf, False
    elif r < 0.6:
        off, explicit = 0, True
    else:
        off, explicit = rng.choice(OFFSETS), True
    y, m, d, hh, mm, _ = C.fields_at(inst, off, cal)
    if not cfg['ymin'] < y < cfg['ymax']:
        return render_std(cfg, inst), wf
    ext = rng.random() < 0.3
    if ext:
        s = f'{C.year_render(y, xd)}-{m:02d}-{d:02d}T{hh:02d}:{mm:02d}'
    elif mm == 0 and rng.random() < 0.5:
        s = f'{C.year_render(y, xd)}{m:02d}{d:02d}T{hh:02d}'
    else:
        s = f'{C.year_render(y, xd)}{m:02d}{d:02d}T{hh:02d}{mm:02d}'
    if explicit:
        if off == 0 and cfg['tz'] == 'Z':
            s += 'Z'
        elif off == wf and not ext:
            s += cfg['tz']
        elif off == 0:
            s += 'Z'
        else:
            s += C.tz_render(off, 'hh:mm' if ext else 'hhmm')
    return s, off


def gen_icp(rng, cfg):
    cal = cfg['calendar']
    r = rng.random()
    if r < 0.7 or not cfg['xdigits']:
        y = rng.choice([rng.randint(1950, 2060), rng.randint(1950, 2060),
                        1999, 2000, 2023, 2024, 2100, 1900, rng.randint(
                            200, 9000)])
    else:
        y = rng.choice([rng.randint(-3000, -1), rng.randint(10000, 90000),
                        rng.randint(-3, 3)])
    m = rng.choice([1, 2, 2, 3, 12, rng.randint(1, 12), rng.randint(1, 12)])
    ml = C.month_lengths(y, cal)[m - 1]
    d = rng.choice([1, ml, rng.randint(1, ml), rng.randint(1, ml),
                    min(28, ml), rng.randint(1, 28)])
    if cfg['nominal'] and rng.random() < 0.4:
        d = rng.choice([ml, ml, max(1, ml - 1), min(29, ml)])
    hh = rng.choice([0, 0, 6, 12, 18, 23, rng.randint(0, 23)])
    mm = rng.choice([0, 0, 0, 30, 59, rng.randint(0, 59)])
    return C.instant((y, m, d, hh, mm, 0), C.tz_minutes(cfg['tz']), cal)


def gen_step(rng, nominal=False):
    if nominal:
        t, mo = rng.choice(NOMINAL_STEPS)
        return {'text': t, 'months': mo}
    t, s = rng.choice(FIXED_STEPS)
    return {'text': t, 'secs': s}


def step_secs(step):
    return step.get('secs') or step['months'] * 30 * 86400


def gen_tspec(rng, cfg, kinds=('hour', 'hour', 'hour', 'minute', 'dom',
                               'moy', 'dow')):
    kind = rng.choice(kinds)
    if kind == 'dow' and cfg['calendar'] != 'gregorian':
        kind = 'hour'
    if kind in ('dom', 'moy') and not cfg['single_zone']:
        kind = 'hour'   # these imply a nominal step
    if kind == 'dow' and cfg['nominal']:
        kind = 'hour'   # week dates + month/year steps: see ASSUMPTIONS
    hh = rng.choice([0, 0, 6, 12, 18, 23, rng.randint(0, 23)])
    mm = rng.choice([0, 0, 0, 30, rng.randint(0, 59)])
    hm = f'T{hh:02d}' + (f'{mm:02d}' if mm or rng.random() < 0.3 else '')
    if kind == 'hour':
        return {'kind': kind, 'hh': hh, 'mm': mm, 'text': hm}
    if kind == 'minute':
        return {'kind': kind, 'mm': mm, 'text': f'T-{mm:02d}'}
    if kind == 'dom':
        dd = rng.choice([1, 1, 15, 28, rng.randint(1, 28)])
        return {'kind': kind, 'dd': dd, 'hh': hh, 'mm': mm,
                'text': f'{dd:02d}{hm}'}
    if kind == 'moy':
        mo = rng.randint(1, 12)
        dd = rng.choice([1, 15, 28, rng.randint(1, 28)])
        return {'kind': kind, 'mo': mo, 'dd': dd, 'hh': hh, 'mm': mm,
                'text': f'{mo:02d}{dd:02d}{hm}'}
    wd = rng.randint(1, 7)
    return {'kind': 'dow', 'wd': wd, 'hh': hh, 'mm': mm,
            'text': f'W-{wd}{hm}'}


def gen_rel(rng, sign_bias, scale, nominal_ok=False):
    """A relative point: offsets of about `scale` seconds."""
    offs = []
    texts = []
    for _ in range(rng.choice([1, 1, 1, 2])):
        sign = sign_bias if rng.random() < 0.8 else -sign_bias
        if nominal_ok and rng.random() < 0.15:
            step = {'text': 'P1M', 'months': 1}
        else:
            k = rng.choice([0, 1, 1, 2, 3, 5])
            unit, us = rng.choice([('PT%dH', 3600), ('P%dD', 86400),
                                   ('PT%dM', 60)])
            if us == 60:
                k *= 30
            if scale < 86400 and us == 86400:
                unit, us = 'PT%dH', 3600
            step = {'text': unit % k, 'secs': k * us}
        offs.append((sign, step))
        texts.append(('+' if sign > 0 else '-') + step['text'])
    return {'kind': 'rel', 'offsets': offs, 'text': ''.join(texts)}


def gen_abs(rng, cfg, inst):
    if rng.random() < 0.5:
        return {'kind': 'abs', 'inst': inst,
                'off': C.tz_minutes(cfg['tz']) if not cfg['format'] else 0,
                'text': render_std(cfg, inst)}
    text, off = render_alt(rng, cfg, inst)
    return {'kind': 'abs', 'inst': inst, 'off': off, 'text': text}


def gen_spec(rng, cfg, icp):
    """-> (spec, fcp or None)"""
    r = rng.random()
    if r < 0.5:
        form = rng.choice(M.START_FORMS)
    elif r < 0.85:
        form = rng.choice(M.END_FORMS)
    else:
        form = rng.choice(M.SPAN_FORMS)
    spec = {'form': form}
    sz = cfg['single_zone']
    step = gen_step(rng, nominal=cfg['nominal'])
    ss = step_secs(step)
    npts = rng.choice([1, 2, 3, 4, 5, 8, 12, 20, rng.randint(2, 30)])
    jitter = rng.choice([0, 0, 60, ss // 2, rng.randint(0, ss) // 60 * 60])
    fcp = icp + ss * npts + jitter
    if form in M.START_FORMS and rng.random() < 0.3:
        fcp = None
    if 'Rn' in form:
        spec['n'] = rng.choice([1, 2, 2, 3, 4, 5, 7, 10, 25])
    if 'Pd' in form:
        spec['step'] = step

    def start_point(allow_trunc=True):
        r = rng.random()
        if r < 0.35:
            k = rng.choice([0, 0, 1, -1, 2, -3, 5, rng.randint(-6, 12)])
            inst = icp + k * ss + rng.choice([0, 0, 0, 60, 3600, -1800])
            return gen_abs(rng, cfg, inst)
        if r < 0.6:
            return gen_rel(rng, 1, ss, sz)
        if r < 0.92 and allow_trunc:
            return {'kind': 'trunc', 't': gen_tspec(rng, cfg)}
        if allow_trunc:
            ts = [gen_tspec(rng, cfg, ('hour',)) for _ in range(2)]
            return {'kind': 'min', 'ts': ts,
                    'text': 'min(' + ','.join(t['text'] for t in ts) + ')'}
        return gen_rel(rng, 1, ss, sz)

    def end_point():
        base = fcp
        r = rng.random()
        if r < 0.4:
            k = rng.choice([0, 0, 1, -1, 2, -2])
            inst = base + k * ss + rng.choice([0, 0, 0, 60, -3600])
            return gen_abs(rng, cfg, inst)
        if r < 0.7:
            return gen_rel(rng, -1, ss, sz)
        return {'kind': 'trunc', 't': gen_tspec(rng, cfg, ('hour', 'hour',
                                                           'minute', 'dom'))}

    if form in ('START/Pd', 'Rn/START/Pd', 'R/START/Pd', 'R1/START'):
        spec['start'] = start_point()
    elif form in ('TRUNC', 'Rn/TRUNC', 'R/TRUNC'):
        spec['start'] = {'kind': 'trunc', 't': gen_tspec(rng, cfg)}
    elif form in ('Rn/Pd/END', 'R1//END', 'Pd/END', 'R/Pd/END'):
        spec['end'] = end_point()
    elif form in M.SPAN_FORMS:
        spec['start'] = start_point()
        spec['end'] = end_point()
    for k in ('start', 'end'):
        p = spec.get(k)
        if p and p['kind'] == 'trunc':
            p['text'] = p['t']['text']
    return spec, fcp


def gen_exclusions(rng, cfg, base, bounded):
    """Exclusion items chosen with knowledge of the base list."""
    items = []
    r = rng.random()
    if r < 0.4:
        return items
    n = len(base)
    step = (base[1] - base[0]) if n > 1 else 3600

    def pt(inst):
        if rng.random() < 0.6:
            text = render_std(cfg, inst)
        else:
            text = render_alt(rng, cfg, inst)[0]
        return {'kind': 'pt', 'inst': inst, 'text': text}

    mode = rng.choice(['pts', 'pts', 'seq', 'seq', 'both', 'tail', 'head',
                       'run'])
    if mode in ('pts', 'both'):
        for _ in range(rng.choice([1, 1, 2, 3])):
            if rng.random() < 0.8:
                items.append(pt(rng.choice(base[:40])))
            else:
                items.append(pt(rng.choice(base[:40]) + rng.choice(
                    [60, step // 2 // 60 * 60 or 60])))
    if mode == 'tail' and bounded:
        for t in base[-rng.choice([1, 2, 2, 3]):]:
            items.append(pt(t))
    if mode == 'head':
        for t in base[:rng.choice([1, 2, 2, 3])]:
            items.append(pt(t))
    if mode == 'run' and n > 4:
        a = rng.randint(0, min(n, 40) - 3)
        for t in base[a:a + rng.choice([2, 3, 4])]:
            items.append(pt(t))
    if mode in ('seq', 'both') or not items:
        wf = C.tz_minutes(cfg['tz'])
        for _ in range(rng.choice([1, 1, 2])):
            k = rng.choice(['hour', 'hour', 'step', 'step', 'minute',
                            'relstep', 'dom', 'dow', 'R1'])
            if k == 'dow' and cfg['calendar'] != 'gregorian':
                k = 'hour'
            if k in ('hour', 'minute', 'dom', 'dow'):
                # aim at a member's local time so that something is removed
                t = rng.choice(base[:40])
                y, m, d, hh, mm, _ = C.fields_at(t, wf, cfg['calendar'])
                if rng.random() < 0.2:
                    hh = (hh + 1) % 24
                hm = f'T{hh:02d}' + (f'{mm:02d}' if mm else '')
                if k == 'hour':
                    items.append({'kind': k, 'hh': hh, 'mm': mm,
                                  'text': hm})
                elif k == 'minute':
                    items.append({'kind': k, 'mm': mm,
                                  'text': f'T-{mm:02d}'})
                elif k == 'dom':
                    if d > 28:
                        continue
                    items.append({'kind': k, 'dd': d, 'hh': hh, 'mm': mm,
                                  'text': f'{d:02d}{hm}'})
                else:
                    wd = M.weekday((t + wf * 60) // 86400)
                    items.append({'kind': k, 'wd': wd, 'hh': hh, 'mm': mm,
                                  'text': f'W-{wd}{hm}'})
            elif k == 'step':
                mult = rng.choice([2, 2, 3, 4])
                if n > 1 and step > 0 and step * mult % 60 == 0:
                    secs = step * mult
                else:
                    secs = rng.choice([43200, 86400, 172800])
                items.append({'kind': 'step', 'secs': secs,
                              'text': dur_text(secs)})
            elif k == 'relstep':
                secs = (step * 2) if n > 1 and step > 0 else 86400
                off = step if n > 1 and step > 0 else 3600
                items.append({'kind': 'relstep', 'off_secs': off,
                              'secs': secs,
                              'text': f'+{dur_text(off)}/{dur_text(secs)}'})
            else:
                items.append({'kind': 'R1', 'text': 'R1'})
    return items


def dur_text(secs):
    """A fixed-length duration text for a whole number of minutes."""
    assert secs % 60 == 0 and secs > 0
    d, rem = divmod(secs, 86400)
    h, rem = divmod(rem, 3600)
    m = rem // 60
    s = 'P' + (f'{d}D' if d else '')
    if h or m:
        s += 'T' + (f'{h}H' if h else '') + (f'{m}M' if m else '')
    return s


def render_full(rng, spec, items):
    s = M.render(spec)
    if not items:
        return s
    texts = [it['text'] for it in items]
    sp = ' ' if rng.random() < 0.3 else ''
    if len(texts) == 1 and rng.random() < 0.7:
        return f'{s}{sp}!{sp}{texts[0]}'
    return f'{s}{sp}!{sp}(' + f',{sp}'.join(texts) + ')'


# ---------------------------------------------------------------------------
# the monitor

def features(spec, base, S, items, bounded):
    head = 0
    for t in base:
        if t in S:
            break
        head += 1
    tail = 0
    for t in reversed(base):
        if t in S:
            break
        tail += 1
    step = spec.get('step') or {}
    return {
        'form': spec['form'],
        'nominal': 'months' in step or (
            spec['form'] in ('TRUNC', 'Rn/TRUNC', 'R/TRUNC')
            and spec['start']['t']['kind'] in ('dom', 'moy')),
        'excl_points': sum(1 for it in items if it['kind'] == 'pt'),
        'excl_seqs': sum(1 for it in items if it['kind'] != 'pt'),
        'head_excluded': head if S else len(base),
        'tail_excluded': (tail if S else len(base)) if bounded else 0,
        'bounded': bounded, 'empty': not S,
    }


def run_case(ctx, i, rng):
    from cylc.flow.cycling import iso8601 as I
    from cylc.flow.exceptions import CylcError
    _CUR.clear()
    cfg = gen_config(i, rng)
    cal, xd = cfg['calendar'], cfg['xdigits']
    wf = C.tz_minutes(cfg['tz'])
    clear_iso_caches()
    I.init(num_expanded_year_digits=xd, custom_dump_format=cfg['format'],
           time_zone=cfg['tz'], cycling_mode=cal)
    icp = gen_icp(rng, cfg)
    spec, fcp = gen_spec(rng, cfg, icp)
    base_text = M.render(spec)
    icp_s = render_std(cfg, icp)
    fcp_s = None if fcp is None else render_std(cfg, fcp)
    as_points = rng.random() < 0.3

    def build(text):
        if as_points:
            return I.ISO8601Sequence(
                text, I.ISO8601Point(icp_s),
                None if fcp_s is None else I.ISO8601Point(fcp_s))
        return I.ISO8601Sequence(text, icp_s, fcp_s)

    desc = {'config': cfg, 'initial': icp_s, 'final': fcp_s,
            'recurrence': base_text}
    model = M.expected(spec, icp, fcp, wf, cal)
    # -- the list: iterate the isodatetime recurrence of an oracle object
    try:
        oracle_obj = build(base_text)
    except Exception as exc:
        if model is not None and model['points']:
            ctx.violation(
                f'C17:construct:{spec["form"]}:{type(exc).__name__}',
                f'{base_text} (initial {icp_s}, final {fcp_s}, {cal}) '
                f'denotes {len(model["points"])} points but construction '
                f'raised {type(exc).__name__}: {exc}',
                {**desc, 'spec': spec})
        else:
            ctx.count('discard_construct_error')
            ctx.count('discard_construct_error:' + type(exc).__name__
                      + ':' + spec['form'])
        return
    rec = oracle_obj.recurrence
    raw = list(itertools.islice(iter(rec), M.HORIZON + 1))
    # bounded by the documented meaning of the form (never read from cylc)
    bounded = not (spec['form'] in (
        'START/Pd', 'Pd', 'R/START/Pd', 'R//Pd', 'TRUNC', 'R/TRUNC',
        'R/START/END'))
    if bounded and len(raw) > M.HORIZON:
        ctx.count('discard_window_too_large')
        return
    if not bounded and len(raw) <= M.HORIZON and model is None:
        ctx.count('discard_degenerate_span')
        return
    if not bounded and len(raw) <= M.HORIZON:
        ctx.violation(
            f'C17:meaning:{spec["form"]}:unbounded-form-is-finite',
            f'{base_text} (initial {icp_s}, final {fcp_s}) has no '
            f'repetition limit but the parsed recurrence {rec} has only '
            f'{len(raw)} points', {**desc, 'parsed': str(rec)})
        return
    raw = raw[:M.HORIZON]
    base = []
    for tp in raw:
        v = C.parse_dump(str(tp), xd, cal)
        if v is None:
            ctx.count('discard_unreadable_list_point')
            return
        base.append(v)
    if base != sorted(set(base)) or not base:
        ctx.count('discard_degenerate_list')
        return
    if not all(cfg['ymin'] < C.fields_at(t, o, cal)[0] < cfg['ymax']
               for t in (base[0] - 86400 * 800, base[-1] + 86400 * 800)
               for o in (0, wf)):
        ctx.count('discard_year_range')
        return
    # -- documented meaning of the expression (own arithmetic)
    if model is not None:
        ctx.count('model_list_compared')
        a, b = base, model['points']
        if model['from_icp']:
            a = [t for t in a if t >= icp]
            b = [t for t in b if t >= icp]
        m = None if bounded else min(len(a), len(b))
        if a[:m] != b[:m] or bounded != model['bounded']:
            kinds = '+'.join(sorted({
                spec[k]['kind'] for k in ('start', 'end') if spec.get(k)})
                or ['context'])
            ctx.violation(
                f'C17:meaning:{spec["form"]}:{kinds}',
                f'{base_text} (initial {icp_s}, final {fcp_s}, {cal}, zone '
                f'{cfg["tz"]}) should denote '
                f'{[render_std(cfg, t) for t in b[:4]]}… '
                f'({"bounded" if model["bounded"] else "unbounded"}) but '
                f'the parsed recurrence {rec} yields '
                f'{[render_std(cfg, t) for t in a[:4]]}…',
                {**desc, 'spec': spec, 'parsed': str(rec),
                 'model_points': b[:12], 'parsed_points': a[:12]})
            return
    else:
        ctx.count('model_not_applicable')
    # -- exclusions
    if len(base) == 1 and rng.random() < 0.7:
        items = []   # a lone point: mostly leave it in
    else:
        items = gen_exclusions(rng, cfg, base, bounded)
    text = render_full(rng, spec, items)
    S = M.apply_exclusions(base, items, wf, cal)
    if not bounded and not any(t in S for t in base[-M.HORIZON // 4:]):
        ctx.count('discard_unbounded_tail_excluded')
        return
    feat = features(spec, base, set(S), items, bounded)
    desc = {'config': cfg, 'initial': icp_s, 'final': fcp_s,
            'recurrence': text, 'features': feat}
    _CUR.update(text=text, icp=icp_s, fcp=fcp_s,
                mechanism=('excl' if items else 'no-excl'))
    nontrivial = len(S) >= 2 or len(S) != len(base)
    ctx.evaluated((cal, cfg['tz'], xd, cfg['format'], icp_s, fcp_s, text),
                  nontrivial=nontrivial)
    try:
        warm1 = build(text)
        warm2 = build(text)
    except Exception as exc:
        ctx.violation(
            f'C17:construct-with-exclusions:{type(exc).__name__}',
            f'{text} (initial {icp_s}, final {fcp_s}) raised '
            f'{type(exc).__name__}: {exc} although {base_text} is accepted',
            {**desc, 'exclusions': items})
        return
    if [str(t) for t in itertools.islice(iter(warm1.recurrence),
                                         len(raw))] != [str(t) for t in raw]:
        ctx.violation(
            'C17:exclusions-change-recurrence',
            f'{text}: the underlying recurrence {warm1.recurrence} differs '
            f'from that of {base_text} ({rec})', desc)
        return
    # counters
    ctx.count('seqs_checked')
    ctx.count('form:' + spec['form'])
    ctx.count('cal:' + cal)
    ctx.count('tz:' + cfg['tz'])
    ctx.count('bounded' if bounded else 'unbounded')
    if spec['form'] in M.END_FORMS:
        ctx.count('end_anchored')
    if feat['nominal']:
        ctx.count('nominal_step')
    if xd:
        ctx.count('expanded_years')
    for k in ('start', 'end'):
        if spec.get(k):
            kind = spec[k]['kind']
            ctx.count({'abs': 'absolute_point', 'rel': 'relative_point',
                       'trunc': 'truncated_point',
                       'min': 'truncated_point'}[kind])
    if feat['excl_points']:
        ctx.count('with_exclusion_point')
    if feat['excl_seqs']:
        ctx.count('with_exclusion_seq')
    if len(S) != len(base):
        ctx.count('exclusion_removed_points')
    if feat['tail_excluded']:
        ctx.count('tail_excluded')
    if feat['head_excluded']:
        ctx.count('head_excluded')
    if not S:
        ctx.count('empty_set_cases')
    ctx.maxc('list_length', len(S))
    if i % 16 < 4:
        ctx.sample({**desc, 'list': [render_std(cfg, t) for t in S[:8]],
                    'list_length': len(S), 'bounded': bounded})

    # -- queries
    Sset, Bset = set(S), set(base)
    limit = None if bounded else (S[-2] if len(S) > 2 else S[0] - 1)
    cands = set()
    pool = list(S[:40])
    rng.shuffle(pool)
    cands.update(pool[:8])
    exc = [t for t in base[:40] if t not in Sset]
    rng.shuffle(exc)
    cands.update(exc[:5])
    for a, b in zip(base[:30], base[1:31]):
        if rng.random() < 0.12:
            cands.add((a + b) // 2 // 60 * 60)
    for t in (base[0], base[-1], S[0] if S else base[0],
              S[-1] if S else base[-1]):
        for dlt in (-60, 60, -86400 * 3, 86400 * 40):
            if rng.random() < 0.25:
                cands.add(t + dlt)
    if rng.random() < 0.5:
        cands.update((icp, icp - 60))
    if fcp is not None and rng.random() < 0.5:
        cands.update((fcp, fcp + 60))
    if limit is not None:
        cands = {t for t in cands if t <= limit}
    cands = sorted(cands)
    rng.shuffle(cands)
    queries = []   # (method, inst or None, spelled, expected, situation)
    span = (S[0], S[-1]) if S else None

    def situation(p):
        if not S:
            return 'empty-sequence'
        if p < S[0]:
            return 'before-first'
        if p > S[-1]:
            return 'after-last'
        if p in Sset:
            return 'on-member'
        if p in Bset:
            return 'on-excluded'
        return 'between'

    def edge(nexcl):
        return ('all-points-excluded' if not S else
                'none-excluded' if not nexcl else
                'one-excluded' if nexcl == 1 else 'two-or-more-excluded')
    queries.append(('get_start_point', None, None, S[0] if S else None,
                    'first-' + edge(feat['head_excluded'])))
    queries.append(('get_stop_point', None, None,
                    (S[-1] if S else None) if bounded else None,
                    'last-' + edge(feat['tail_excluded'])
                    if bounded else 'unbounded'))
    for p in cands[:NQPOINTS]:
        alt = rng.random() < 0.12 and not cfg['single_zone']
        ps = render_alt(rng, cfg, p)[0] if alt else render_std(cfg, p)
        sit = situation(p) + ('+alt-spelling' if alt else '')
        qs = [('is_valid', p in Sset),
              ('get_next_point', M.nxt(S, p)),
              ('get_first_point', M.first(S, p)),
              ('get_nearest_prev_point', M.prev(S, p))]
        if p in Sset:
            qs.append(('get_prev_point', M.prev(S, p)))
            qs.append(('get_next_point_on_sequence', M.nxt(S, p)))
        if span and span[0] <= p <= span[1]:
            qs.append(('is_on_sequence', p in Sset))
        for method, want in qs:
            if rng.random() < 0.75:
                queries.append((method, p, ps, want, sit))

    def base_answer(method, p):
        """The answer if there were no exclusions."""
        return {
            'is_valid': lambda: p in Bset,
            'is_on_sequence': lambda: p in Bset,
            'get_next_point': lambda: M.nxt(base, p),
            'get_next_point_on_sequence': lambda: M.nxt(base, p),
            'get_first_point': lambda: M.first(base, p),
            'get_prev_point': lambda: M.prev(base, p),
            'get_nearest_prev_point': lambda: M.prev(base, p),
        }[method]()

    def ask(obj, q):
        method, p, ps, want, sit = q
        _CUR.update(method=method, query=ps, in_query=True)
        try:
            if p is None:
                got = getattr(obj, method)()
            else:
                got = getattr(obj, method)(I.ISO8601Point(ps))
        except RecursionError:
            return 'raised RecursionError'
        except (CylcError, ValueError, TypeError, AttributeError,
                KeyError, IndexError) as exc:
            return f'raised {type(exc).__name__}'
        finally:
            _CUR['in_query'] = False
        if isinstance(got, bool) or got is None:
            return got
        v = C.parse_dump(str(got), xd, cal)
        return v if v is not None else f'unreadable {got!r}'

    answers = {}   # query index -> {'cold':, 'warm':, 'warm2':}
    for qi, q in enumerate(queries):
        answers[qi] = {'cold': ask(build(text), q)}
    order = list(range(len(queries)))
    rng.shuffle(order)
    for qi in order:
        answers[qi]['warm'] = ask(warm1, queries[qi])
    # a different history first: extra queries whose answers are not judged
    long_history = rng.random() < (0.06 if ctx.tier == 'quick' else 0.1)
    lo, hi = base[0] - 7200, (limit if limit is not None else base[-1] + 7200)
    if limit is not None and (hi - lo) // 60 < 130:
        long_history = False
    # long: > 100 distinct points for each of three cached methods, so that
    # every per-object cache (size 100) overflows and evicts
    nhist = rng.randint(312, 345) if long_history else rng.randint(0, 30)
    hist_methods = ('get_next_point', 'is_valid', 'get_first_point',
                    'get_nearest_prev_point', 'is_on_sequence')
    for h in range(nhist):
        if long_history:
            k = h // 3
            if (hi - lo) // 60 >= 130:
                p = lo + (hi - lo) * k // 115 // 60 * 60
            else:
                p = lo + 60 * k
            method = hist_methods[h % 3]
        else:
            p = rng.choice(cands) if cands else base[0]
            method = rng.choice(hist_methods)
        if limit is not None and p > limit:
            p = limit
        ask(warm2, (method, p, render_std(cfg, p), None, ''))
    if long_history:
        ctx.count('warm_history_over_100')
    order2 = list(range(len(queries)))
    rng.shuffle(order2)
    for qi in order2:
        answers[qi]['warm2'] = ask(warm2, queries[qi])

    ctx.count('queries', len(queries))
    for qi, (method, p, ps, want, sit) in enumerate(queries):
        got = answers[qi]
        ctx.count('answers_compared', 3)
        ctx.count('method:' + method)
        wrong = [k for k in ('cold', 'warm', 'warm2') if got[k] != want]
        if not wrong:
            continue
        temp = ('cold' if 'cold' in wrong else
                'cache-long-history' if wrong == ['warm2'] and long_history
                else 'cache')

        def show(v):
            return render_std(cfg, v) if isinstance(v, int) and not (
                isinstance(v, bool)) else v
        kparts = [method, sit]
        if feat['nominal'] and p is not None:
            kparts.append('nominal-step')
        if items and p is not None and want != base_answer(method, p):
            kparts.append('excl')   # exclusions matter for this answer
        ctx.violation(
            'C17:' + ':'.join(kparts) + ':' + temp,
            f'{text} (initial {icp_s}, final {fcp_s}, {cal}) = '
            f'{[render_std(cfg, t) for t in S[:5]]}'
            f'{"…" if len(S) > 5 else ""}: {method}({ps}) gave '
            f'cold={show(got["cold"])} warm={show(got["warm"])} '
            f'warm2={show(got["warm2"])}, the list says {show(want)}',
            {**desc, 'method': method, 'query': ps,
             'got': {k: show(v) for k, v in got.items()},
             'want': show(want),
             'list': [render_std(cfg, t) for t in S[:20]],
             'excluded': [render_std(cfg, t) for t in base[:40]
                          if t not in Sset][:12],
             'exclusions': items, 'long_history': long_history})
