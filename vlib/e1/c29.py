"""C29 Manually set outputs behave like naturally completed outputs."""
from __future__ import annotations

from vlib.e1 import runner, scripts
from vlib.e1.common import E1_META, E1_NOTE
from vlib.gen import wfgen

PID = 'C29'
META = dict(E1_META, **{
    'technique': 'monitor bracketing the body of every `cylc set` command '
                 '(pool snapshots, forced messages, pool additions, state '
                 'changes) against GT children/implied-output models + '
                 'bounded-latency check after --pre=all',
    'level_text': (
        '`cylc set` commands (--out selections, default outputs, --pre '
        'selections and --pre=all) are issued through the real command path '
        'on active, finished and not-yet-spawned instances of generated '
        'runs. Monitor, between entry and exit of the command body: the '
        'requested outputs and their implied earlier outputs end complete; '
        'with no outputs given, required outputs plus submitted, started, '
        'succeeded; tasks added to the pool are ground-truth children of the '
        'newly completed outputs and carry that prerequisite satisfied; no '
        'state change to submitted/running; --pre only leaves prerequisites '
        'the graph gives the task; after --pre=all a released, unheld task '
        'reaches job preparation within K=8 iterations.'),
    'level_note': E1_NOTE,
    'design_ref': 'DESIGN.md §5 C29',
})
RULE = ('case = generated workflow + plan + 1-4 set commands on instances in '
        'any state; distinct by event census; non-trivial when a set command '
        'completed an output or satisfied a prerequisite')
ASSUMPTIONS = ['the default-outputs clause is not judged for tasks whose '
               'failed output is required',
               'one explicit target per command for the "exactly the '
               'children" clause']
MIN = {'c29.set_commands': 250, 'c29.output_checks_explicit': 80,
       'c29.output_checks_default': 40, 'c29.spawn_checks': 60,
       'c29.child_atom_checks': 40, 'c29.prereq_key_checks': 40}
NCASES = {'quick': 800, 'thorough': 10000}
MONS = ['c29', 'c26']


def ncases(tier):
    return NCASES[tier]


def set_script(rng, case):
    gt = case['gt']
    sc = []
    inst = [(n, p) for n in gt['names'] for p in wfgen.task_points(gt, n)]
    for _ in range(rng.randint(1, 4)):
        n, p = rng.choice(inst)
        at = rng.randint(1, 14)
        args = {'tasks': [f'{p}/{n}'], 'flow': rng.choice(
            [['all'], ['all'], ['1'], ['new']])}
        r = rng.random()
        if r < 0.45:
            outs = ['succeeded', 'started', 'submitted', 'failed'] + list(
                gt['tasks'][n]['outputs'])
            args['outputs'] = rng.sample(outs, rng.choice([1, 1, 2]))
        elif r < 0.65:
            pass      # default outputs
        elif r < 0.85:
            args['prerequisites'] = ['all']
        else:
            atoms = [a for ar in wfgen.arrows_at(gt, n, p)
                     for a in wfgen.atoms(ar)]
            if atoms:
                a = rng.choice(atoms)
                q = wfgen.atom_point(a, p)
                o = a[3] if a[3] != 'finished' else 'succeeded'
                args['prerequisites'] = [f'{q}/{a[1]}:{o}']
            else:
                args['prerequisites'] = ['all']
        sc.append({'at': at, 'cmd': 'set', 'args': args})
    if rng.random() < 0.3:
        sc += scripts.random_script(rng, case, kinds=['hold', 'pause'],
                                    max_cmds=2, horizon=10)
    return sorted(sc, key=lambda a: a['at'])


def run_case(ctx, i, rng):
    feat = wfgen.Features(max_tasks=5, retries=rng.random() < 0.2,
                          runahead=['P1', 'P2', 'P4', None])
    gt = wfgen.gen_workflow(rng, feat)
    case = runner.build_case(rng, gt, rng.choice(['all-complete', 'mixed']),
                             hostile=0.2)
    sc = set_script(rng, case)
    results = runner.run_case(ctx, f'c{i}', case,
                              [{'name': 'run', 'script': sc}], MONS, PID)
    if not results:
        ctx.evaluated(('discard', i), nontrivial=False)
        return
    m = (results[0].get('monitors') or {}).get('c29') or {}
    ctx.evaluated(runner.trace_key(results),
                  nontrivial=bool(m.get('set_outputs') or
                                  m.get('set_prereqs')))
    ctx.sample({'flow': gt['flow_text'], 'script': sc})
