"""Workflow generator: flow.cylc text + structured ground truth (GT).

The GT is what the oracles use; no oracle calls cylc's graph parser,
Prerequisite, TaskOutputs or sequence classes. Independent of cylc.

Expression trees:  ('atom', task, offset, output) | ('and', l, r) | ('or', l, r)
  offset: int (cycle offset, 0 = same cycle) or ('abs', point) absolute
  output: 'succeeded' | 'failed' | 'finished' | 'started' | 'submitted' |
          'submit-failed' | 'expired' | custom output name
"""
from __future__ import annotations

import random
from typing import Dict, List, Optional

from vlib.models import intrec

TASK_NAMES = ['a', 'aa', 'a1', 'a_b', 'foo', 'foo1', 'g-1', 'b', 'ba',
              'x_y', 'c', 'd2']
STD = ('succeeded', 'failed', 'finished', 'started', 'submitted',
       'submit-failed', 'expired')
QUAL = {'succeeded': 'succeed', 'failed': 'fail', 'finished': 'finish',
        'started': 'start', 'submitted': 'submit',
        'submit-failed': 'submit-fail', 'expired': 'expire'}

# recurrences usable as graph section headings (integer cycling); spec is the
# vlib.models.intrec spec used to compute the point set by own arithmetic
RECS = [
    ('P1', {'form': 'Pk', 'k': 1}),
    ('P2', {'form': 'Pk', 'k': 2}),
    ('P3', {'form': 'Pk', 'k': 3}),
    ('R1', {'form': 'R1'}),
    ('R1/$', {'form': 'R1//E', 'E': ('rel', 0)}),
    ('2/P2', {'form': 'S/Pk', 'S': ('abs', 2), 'k': 2}),
    ('+P1/P2', {'form': 'S/Pk', 'S': ('rel', 1), 'k': 2}),
    ('R2/P2', {'form': 'Rn/Pk', 'n': 2, 'k': 2}),
    ('R1/2', {'form': 'R1/S', 'S': ('abs', 2)}),
    ('R2//P2', {'form': 'Rn//Pk', 'n': 2, 'k': 2}),
    # explicit starts before the initial point: the first instance is the
    # first member of start + n*k at or after the initial point
    ('0/P3', {'form': 'S/Pk', 'S': ('abs', 0), 'k': 3}),
    ('-1/P3', {'form': 'S/Pk', 'S': ('abs', -1), 'k': 3}),
    ('-P1/P3', {'form': 'S/Pk', 'S': ('rel', -1), 'k': 3}),
]
REC_BY_TEXT = dict(RECS)


def rec_points(text, initial, final):
    return intrec.point_set(REC_BY_TEXT[text], initial, final) or []


def rec_step(text) -> Optional[int]:
    return REC_BY_TEXT[text].get('k')


class Features(dict):
    """Generator switches; see DEFAULTS."""
    DEFAULTS = dict(
        max_tasks=6, min_tasks=3, max_final=5, min_final=2,
        recs=['P1', 'P1', 'P1', 'R1', 'P2', 'R1/$', '2/P2', 'P3'],
        max_sections=3, custom_outputs=True, optional_outputs=True,
        or_triggers=True, neg_offsets=True, future_offsets=False,
        abs_triggers=False, retries=False, submit_fail=False,
        runahead=['P0', 'P1', 'P2', 'P3', 'P4', None],
        queues=False, sequential=False, families=False, xtriggers=False,
        clock_expire=False, hold_after=False, stop_after=False,
        mixed_parent_sections=False, abs_later=False,
    )

    def __init__(self, **kw):
        super().__init__(self.DEFAULTS)
        unknown = set(kw) - set(self.DEFAULTS)
        assert not unknown, unknown
        self.update(kw)


def gen_workflow(rng: random.Random, feat: Features) -> dict:
    """Return the GT dict (with 'flow_text')."""
    ntasks = rng.randint(feat['min_tasks'], feat['max_tasks'])
    names = rng.sample(TASK_NAMES, ntasks)
    initial = 1
    final = rng.randint(feat['min_final'], feat['max_final'])
    tasks: Dict[str, dict] = {}
    for n in names:
        mode = 'succ_required'
        if feat['optional_outputs']:
            mode = rng.choice(['succ_required'] * 3 + ['both_optional',
                                                       'fail_required'])
        outs = {}
        if feat['custom_outputs'] and rng.random() < 0.5:
            for o in rng.sample(['x', 'y'], rng.choice([1, 1, 2])):
                outs[o] = {
                    'message': rng.choice([
                        f'the {o} msg', f'{o}', f'out {o} done, ok!',
                        f'{n} made {o}']),
                    'required': (not feat['optional_outputs']
                                 or rng.random() < 0.5),
                    'used': False,
                }
        tasks[n] = {
            'mode': mode, 'outputs': outs, 'exec_retries': 0,
            'submit_retries': 0, 'sequential': False, 'queue': 'default',
            'submit_fail_optional': False, 'expire_optional': False,
            'completion': None, 'clock_expire': None, 'xtriggers': [],
            'std_required': set(),   # started/submitted marked required
        }
        if feat['retries'] and rng.random() < 0.5:
            tasks[n]['exec_retries'] = rng.choice([1, 1, 2])
        if feat['retries'] and feat['submit_fail'] and rng.random() < 0.3:
            tasks[n]['submit_retries'] = rng.choice([1, 2])
        if feat['submit_fail'] and feat['optional_outputs'] \
                and rng.random() < 0.3:
            tasks[n]['submit_fail_optional'] = True
        if feat['sequential'] and rng.random() < 0.4:
            tasks[n]['sequential'] = True

    nsec = rng.randint(1, feat['max_sections'])
    rec_texts = []
    pool = list(feat['recs'])
    for _ in range(nsec):
        r = rng.choice(pool)
        if r not in rec_texts:
            rec_texts.append(r)
    if not any(rec_step(r) for r in rec_texts):
        rec_texts.append('P1')
    use_future = feat['future_offsets'] and rng.random() < 0.5

    sections = []
    for rt in rec_texts:
        pts = rec_points(rt, initial, final)
        step = rec_step(rt)
        sec = {'rec': rt, 'points': pts, 'arrows': [], 'lone': []}
        # which tasks live in this section
        k = rng.randint(1, len(names))
        members = sorted(rng.sample(names, k), key=names.index)
        narrows = rng.randint(0, min(4, len(members) + 1))
        used = set()
        for _ in range(narrows):
            rhs = rng.choice(members)
            ri = names.index(rhs)
            abs_pt = initial
            if feat['abs_later'] and pts and rng.random() < 0.5:
                # absolute trigger on a later point of this section
                # (foo[3]): its first dependants lie before it
                abs_pt = rng.choice(pts[:3])
            lhs = _gen_expr(rng, feat, names, tasks, members, ri, step,
                            use_future, depth=0, initial=abs_pt)
            if lhs is None:
                continue
            sec['arrows'].append({'lhs': lhs, 'rhs': [rhs]})
            used.add(rhs)
            for a in atoms(lhs):
                if a[2] == 0:
                    used.add(a[1])
        # every member must actually be on the section: lone node if not
        # mentioned without an offset
        for m in members:
            if m not in used:
                sec['lone'].append(m)
        # tasks used only with offsets must cycle here too (explicit cycling)
        for ar in sec['arrows']:
            for a in atoms(ar['lhs']):
                if a[2] != 0 and a[1] not in used \
                        and a[1] not in sec['lone']:
                    sec['lone'].append(a[1])
        if not feat['mixed_parent_sections']:
            pass
        sections.append(sec)

    if feat['mixed_parent_sections'] and not any(
            s['rec'] == 'R1' for s in sections):
        # a task that is parentless on its own recurrence but has a future
        # trigger at the initial point only (R1 = "x[+P1] => y", P1 = y)
        p1 = [s for s in sections if s['rec'] == 'P1' and len(
            section_tasks(s)) >= 2]
        if p1 and final - initial >= 1:
            mem = sorted(section_tasks(p1[0]), key=names.index)
            y = rng.choice(mem)
            x = rng.choice([m for m in mem if m != y])
            if tasks[x]['mode'] != 'fail_required':
                sections.append({
                    'rec': 'R1', 'points': rec_points('R1', initial, final),
                    'arrows': [{'lhs': ('atom', x, 1, 'succeeded'),
                                'rhs': [y]}], 'lone': []})

    # every task must appear in some section
    on_some = set()
    for sec in sections:
        on_some.update(section_tasks(sec))
    for n in names:
        if n not in on_some:
            sections[0]['lone'].append(n)

    # every task is declared (alone or on the right) at least once so that
    # its success/failure mode marker appears in the text
    decl = set()
    for sec in sections:
        decl.update(sec['lone'])
        for ar in sec['arrows']:
            decl.update(ar['rhs'])
    for n in names:
        if n not in decl:
            for sec in sections:
                if n in section_tasks(sec):
                    sec['lone'].append(n)
                    break

    gt = {
        'cycling': 'integer', 'initial': initial, 'final': final,
        'names': names, 'tasks': tasks, 'sections': sections,
        'runahead': rng.choice(feat['runahead']),
        'queues': {}, 'families': {}, 'hold_after': None,
        'stop_after': None, 'use_future': use_future,
    }
    if feat['queues'] and rng.random() < 0.8:
        nq = rng.randint(1, 2)
        for qi in range(nq):
            mem = rng.sample(names, rng.randint(1, len(names)))
            gt['queues'][f'q{qi}'] = {'limit': rng.choice([1, 1, 2, 3]),
                                      'members': mem}
        if rng.random() < 0.3:
            gt['queues']['default'] = {'limit': rng.choice([1, 2]),
                                       'members': []}
        assign_queues(gt)
    gt['xtriggers'] = {}
    if feat['xtriggers']:
        for xi in range(rng.randint(1, 3)):
            label = f'x{xi}'
            per_cycle = rng.random() < 0.6
            intvl = rng.choice([3, 5, 10, 20])
            users = []
            for sec in rng.sample(sections, rng.randint(1, len(sections))):
                mem = sorted(section_tasks(sec))
                if mem:
                    users.append([sec['rec'], rng.choice(mem)])
            gt['xtriggers'][label] = {
                'per_cycle': per_cycle, 'interval': intvl, 'users': users,
                'need_calls': rng.choice([1, 1, 2, 3]),
            }
        gt['xtrig_module'] = (
            'def vx(name, point=None):\n'
            '    return (True, {"n": 1})\n')
    if feat['stop_after'] and final > 2 and rng.random() < 0.5:
        gt['stop_after'] = rng.randint(1, final - 1)
    if feat['hold_after'] and final > 2 and rng.random() < 0.5:
        gt['hold_after'] = rng.randint(1, final - 1)
    _finalise_optionality(gt)
    gt['flow_text'] = render(gt)
    return gt


def assign_queues(gt):
    """Queue model E.6: last queue listing the name wins, else default."""
    for n in gt['names']:
        gt['tasks'][n]['queue'] = 'default'
    for q, spec in gt['queues'].items():
        if q == 'default':
            continue
        for m in spec['members']:
            for n in expand_family(gt, m):
                gt['tasks'][n]['queue'] = q


def expand_family(gt, name):
    if name in gt.get('families', {}):
        out = []
        for m in gt['families'][name]:
            out.extend(expand_family(gt, m))
        return out
    return [name]


def section_tasks(sec):
    s = set(sec['lone'])
    for ar in sec['arrows']:
        s.update(ar['rhs'])
        for a in atoms(ar['lhs']):
            if a[2] == 0:
                s.add(a[1])
    return s


def atoms(tree):
    if tree[0] == 'atom':
        return [tree]
    return atoms(tree[1]) + atoms(tree[2])


def _gen_atom(rng, feat, names, tasks, members, ri, step, use_future,
              initial):
    """One atom for an arrow whose RHS has index ri in `names`."""
    cands = []
    for m in members:
        mi = names.index(m)
        if mi < ri:
            cands.append((m, 0))
        if feat['neg_offsets'] and step:
            if not use_future or mi <= ri:
                cands.append((m, -step))
                if rng.random() < 0.3:
                    cands.append((m, -2 * step))
        if use_future and step and mi < ri:
            cands.append((m, step))
    abs_cands = []
    if feat['abs_triggers']:
        for m in members:
            if names.index(m) < ri:
                abs_cands.append((m, ('abs', initial)))
    cands += abs_cands
    if not cands:
        return None
    if abs_cands and rng.random() < 0.35:
        t, off = rng.choice(abs_cands)
    else:
        t, off = rng.choice(cands)
    td = tasks[t]
    outs = ['succeeded'] * 4 + ['started', 'submitted']
    if td['mode'] == 'both_optional':
        outs += ['failed', 'finished', 'failed']
    if td['mode'] == 'fail_required':
        outs = ['failed'] * 3 + ['started']
    if td['outputs']:
        outs += list(td['outputs']) * 2
    if td['submit_fail_optional']:
        outs += ['submit-failed']
    o = rng.choice(outs)
    if o in td['outputs']:
        td['outputs'][o]['used'] = True
    return ('atom', t, off, o)


def _gen_expr(rng, feat, names, tasks, members, ri, step, use_future, depth,
              initial):
    r = rng.random()
    if depth >= 2 or r < 0.5:
        return _gen_atom(rng, feat, names, tasks, members, ri, step,
                         use_future, initial)
    op = 'and'
    if feat['or_triggers'] and rng.random() < 0.5:
        op = 'or'
    left = _gen_expr(rng, feat, names, tasks, members, ri, step, use_future,
                     depth + 1, initial)
    right = _gen_expr(rng, feat, names, tasks, members, ri, step, use_future,
                      depth + 1, initial)
    if left is None:
        return right
    if right is None:
        return left
    if left == right:
        return left
    return (op, left, right)


def _finalise_optionality(gt):
    """Derive per-task required/optional facts from what the graph says."""
    for n, td in gt['tasks'].items():
        td['std_required'] = sorted(td['std_required'])


# -- rendering ---------------------------------------------------------------

def render_atom(gt, a):
    _, t, off, o = a
    td = gt['tasks'][t]
    s = t
    if isinstance(off, tuple):
        s += '[^]' if off[1] == gt['initial'] else f'[{off[1]}]'
    elif off:
        s += f'[{"+" if off > 0 else "-"}P{abs(off)}]'
    if o == 'succeeded':
        q = ''
        opt = td['mode'] == 'both_optional'
        if td['mode'] == 'fail_required':
            raise ValueError('succeeded atom on fail_required task')
        return s + ('?' if opt else '')
    if o == 'failed':
        return s + ':fail' + ('?' if td['mode'] == 'both_optional' else '')
    if o == 'finished':
        return s + ':finish'
    if o == 'started':
        return s + ':start'
    if o == 'submitted':
        return s + ':submit' + ('?' if td['submit_fail_optional'] else '')
    if o == 'submit-failed':
        return s + ':submit-fail?'
    if o == 'expired':
        return s + ':expire?'
    spec = td['outputs'][o]
    return s + f':{o}' + ('' if spec['required'] else '?')


def render_node(gt, n):
    """A task on the right of an arrow or alone: declares its mode."""
    mode = gt['tasks'][n]['mode']
    if mode == 'both_optional':
        return n + '?'
    if mode == 'fail_required':
        return n + ':fail'
    return n


def render_expr(gt, tree, top=True):
    if tree[0] == 'atom':
        return render_atom(gt, tree)
    op = ' & ' if tree[0] == 'and' else ' | '
    s = render_expr(gt, tree[1], False) + op + render_expr(gt, tree[2], False)
    return s if top else f'({s})'


def render(gt) -> str:
    L = []
    L.append('[scheduler]')
    L.append('    allow implicit tasks = False')
    L.append('    cycle point format = ' if False else '')
    L.append('    [[events]]')
    L.append('        stall timeout = PT0S')
    L.append('        abort on stall timeout = False')
    L.append('        inactivity timeout = P100Y')
    L.append('[scheduling]')
    L.append('    cycling mode = integer')
    L.append(f'    initial cycle point = {gt["initial"]}')
    L.append(f'    final cycle point = {gt["final"]}')
    if gt.get('runahead'):
        L.append(f'    runahead limit = {gt["runahead"]}')
    if gt.get('stop_after') is not None:
        L.append(f'    stop after cycle point = {gt["stop_after"]}')
    if gt.get('hold_after') is not None:
        L.append(f'    hold after cycle point = {gt["hold_after"]}')
    seq = [n for n, td in gt['tasks'].items() if td['sequential']]
    if seq:
        L.append('    [[special tasks]]')
        L.append(f'        sequential = {", ".join(seq)}')
    if gt['queues']:
        L.append('    [[queues]]')
        for q, spec in gt['queues'].items():
            L.append(f'        [[[{q}]]]')
            L.append(f'            limit = {spec["limit"]}')
            if q != 'default':
                L.append(f'            members = {", ".join(spec["members"])}')
    if gt.get('xtriggers'):
        L.append('    [[xtriggers]]')
        for label, x in gt['xtriggers'].items():
            args = f'name={label}' + (
                ', point=%(point)s' if x['per_cycle'] else '')
            L.append(f'        {label} = vx({args}):PT{x["interval"]}S')
    L.append('    [[graph]]')
    for sec in gt['sections']:
        L.append(f'        {sec["rec"]} = """')
        for label, x in (gt.get('xtriggers') or {}).items():
            for rec, task in x['users']:
                if rec == sec['rec']:
                    L.append(f'            @{label} => '
                             f'{render_node(gt, task)}')
        for ar in sec['arrows']:
            L.append(f'            {render_expr(gt, ar["lhs"])} => '
                     f'{" & ".join(render_node(gt, r) for r in ar["rhs"])}')
        for n in sec['lone']:
            L.append(f'            {render_node(gt, n)}')
        L.append('        """')
    L.append('[runtime]')
    L.append('    [[root]]')
    L.append('        script = true')
    L.append('        platform = localhost')
    for fam, mem in gt.get('families', {}).items():
        L.append(f'    [[{fam}]]')
    for n in gt['names']:
        td = gt['tasks'][n]
        L.append(f'    [[{n}]]')
        for fam, mem in gt.get('families', {}).items():
            if n in mem:
                L.append(f'        inherit = {fam}')
        if td['exec_retries']:
            L.append(f'        execution retry delays = '
                     f'{td["exec_retries"]}*PT1S')
        if td['submit_retries']:
            L.append(f'        submission retry delays = '
                     f'{td["submit_retries"]}*PT1S')
        if td.get('completion'):
            L.append(f'        completion = {td["completion"]}')
        if td['outputs']:
            L.append('        [[[outputs]]]')
            for o, spec in td['outputs'].items():
                L.append(f'            {o} = {spec["message"]}')
    return '\n'.join(x for x in L if x != '') + '\n'


# -- derived GT facts ----------------------------------------------------------

def task_points(gt, name) -> List[int]:
    pts = set()
    for sec in gt['sections']:
        if name in section_tasks(sec):
            pts.update(sec['points'])
    return sorted(pts)


def arrows_at(gt, name, point):
    """Arrows (expression trees) whose RHS is `name`, from sections valid at
    `point`."""
    out = []
    for sec in gt['sections']:
        if point not in sec['points']:
            continue
        for ar in sec['arrows']:
            if name in ar['rhs']:
                out.append(ar['lhs'])
    return out


def atom_point(atom, point):
    off = atom[2]
    if isinstance(off, tuple):
        return off[1]
    return point + off


def referenced_outputs(gt, name):
    """All outputs of `name` referenced by any atom in the graph."""
    s = set()
    for sec in gt['sections']:
        for ar in sec['arrows']:
            for a in atoms(ar['lhs']):
                if a[1] == name:
                    s.add(a[3])
    return s


def effective_mode(gt, name):
    """What the graph text declares about success/failure of `name`.

    Every task appears at least once alone or on the right of an arrow,
    where render_node writes its mode marker (`n`, `n?`, `n:fail`)."""
    return gt['tasks'][name]['mode']


def required_outputs(gt, name):
    """Outputs the graph marks required for `name` (Appendix E.2 'R')."""
    td = gt['tasks'][name]
    ref = referenced_outputs(gt, name)
    R = set()
    mode = effective_mode(gt, name)
    if mode == 'succ_required':
        R.add('succeeded')
    elif mode == 'fail_required':
        R.add('failed')
    for o, spec in td['outputs'].items():
        if o in ref and spec['required']:
            R.add(o)
    if 'started' in ref:
        R.add('started')
    if 'submitted' in ref and not td['submit_fail_optional']:
        R.add('submitted')
    return R


def is_complete(gt, name, completed: set) -> bool:
    """Default completion rule (DESIGN Appendix E.2)."""
    td = gt['tasks'][name]
    R = required_outputs(gt, name)
    ref = referenced_outputs(gt, name)
    mode = effective_mode(gt, name)
    succ_opt = mode == 'both_optional'
    if mode == 'fail_required':
        main = R <= completed
    elif succ_opt:
        # custom required outputs are needed on the success branch only
        main = ((R <= completed and 'succeeded' in completed)
                or 'failed' in completed)
    else:
        main = R <= completed
    if main:
        return True
    sub_opt = td['submit_fail_optional'] and (
        'submit-failed' in ref or 'submitted' in ref)
    if sub_opt and 'submit-failed' in completed:
        return True
    if td['expire_optional'] and 'expired' in completed:
        return True
    return False
