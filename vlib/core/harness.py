"""Parent side of ./check: shards, merging, verdict, evidence."""
from __future__ import annotations

import hashlib
import json
import os
import shutil
import subprocess
import sys
import tempfile
import time

from vlib.core.registry import ROOT, load

PY = '/venv/bin/python'
DEPS = os.path.join(ROOT, '.deps')
WHEELS = '/opt/veriftools/wheels'
KNOWN = os.path.join(ROOT, 'known_findings.json')


def ensure_deps():
    """icontract/deal beside the repo's interpreter (offline wheelhouse)."""
    if os.path.isdir(os.path.join(DEPS, 'icontract')) and os.path.isdir(
            os.path.join(DEPS, 'deal')):
        return
    lock = DEPS + '.lock'
    import fcntl
    with open(lock, 'w') as lf:
        fcntl.flock(lf, fcntl.LOCK_EX)
        if os.path.isdir(os.path.join(DEPS, 'icontract')) and os.path.isdir(
                os.path.join(DEPS, 'deal')):
            return
        subprocess.run(
            [PY, '-m', 'pip', 'install', '-q', '--no-index',
             '--find-links', WHEELS, '--target', DEPS, 'deal', 'icontract'],
            check=True, stdout=subprocess.DEVNULL, stderr=subprocess.DEVNULL,
            env={**os.environ, 'PIP_NO_INDEX': '1'})


def scratch_root():
    for base in ('/dev/shm', os.environ.get('TMPDIR') or '/var/tmp'):
        if os.path.isdir(base) and os.access(base, os.W_OK):
            return tempfile.mkdtemp(prefix='verif-', dir=base)
    return tempfile.mkdtemp(prefix='verif-')


def child_env(workdir):
    env = dict(os.environ)
    env['PYTHONHASHSEED'] = '0'
    pp = [ROOT, DEPS]
    alt = os.environ.get('VERIF_REPO')
    if alt:
        # development aid only (mutation trials on a scratch worktree):
        # registered commands never set it, so they import /repo itself
        pp.insert(0, alt)
    env['PYTHONPATH'] = os.pathsep.join(pp)
    env['HOME'] = os.path.join(workdir, 'home')
    env['CYLC_FLOW_VERIF'] = '1'
    env['PATH'] = '/venv/bin:' + env.get('PATH', '')
    env['TZ'] = 'UTC'
    env.pop('CYLC_CONF_PATH', None)
    env['PYTHONDONTWRITEBYTECODE'] = '1'
    # keep python's tempfile out of /tmp (nothing registered needs /tmp)
    env['TMPDIR'] = os.path.join(workdir, 'tmp')
    os.makedirs(env['HOME'], exist_ok=True)
    os.makedirs(env['TMPDIR'], exist_ok=True)
    return env


def load_known():
    try:
        with open(KNOWN) as f:
            data = json.load(f)
    except FileNotFoundError:
        data = {}
    known = {k['key']: k for k in data.get('known', [])}
    # development aid only: treat extra keys as known while triaging
    for k in filter(None, os.environ.get(
            'VERIF_ASSUME_KNOWN', '').split(',')):
        known.setdefault(k, {'key': k, 'what': '(assumed for triage)'})
    return known


def merge(results):
    m = {
        'evaluations': 0, 'nontrivial': set(), 'counters': {},
        'samples': [], 'violations': [], 'vio_per_key': {}, 'timeouts': 0,
        'errors': [], 'truncated': False, 'shards': len(results),
    }
    for r in results:
        m['evaluations'] += r['evaluations']
        m['nontrivial'].update(r['nontrivial'])
        for k, v in r['counters'].items():
            if k.startswith('max:'):
                m['counters'][k] = max(m['counters'].get(k, v), v)
            else:
                m['counters'][k] = m['counters'].get(k, 0) + v
        for k, v in r['vio_per_key'].items():
            m['vio_per_key'][k] = m['vio_per_key'].get(k, 0) + v
        m['violations'].extend(r['violations'])
        m['timeouts'] += r['timeouts']
        m['errors'].extend(r['errors'])
        m['truncated'] = m['truncated'] or r['truncated']
    # samples: round-robin from shards so they differ
    i = 0
    while len(m['samples']) < 5:
        added = False
        for r in results:
            if i < len(r['samples']) and len(m['samples']) < 5:
                m['samples'].append(r['samples'][i])
                added = True
        if not added:
            break
        i += 1
    return m


def write_replay(pid, v):
    d = os.path.join(ROOT, 'replays', pid)
    os.makedirs(d, exist_ok=True)
    body = json.dumps(v, sort_keys=True, indent=1)
    h = hashlib.sha1(body.encode()).hexdigest()[:10]
    key = ''.join(c if c.isalnum() or c in '-_' else '_' for c in v['key'])
    path = os.path.join(d, f'{key}-{h}.json')
    with open(path, 'w') as f:
        f.write(body)
    return path


def run_check(pid, tier, seed, replay=None):
    t0 = time.time()
    ensure_deps()
    sys.path.insert(0, DEPS)
    mod = load(pid)
    meta = mod.META
    scale = float(os.environ.get('VERIF_BUDGET', '1'))
    # the module's budget is what the run needs on a quiet machine; the cap
    # that truncates a run is set well above it, so that a loaded machine
    # slows a check down instead of turning it inconclusive
    margin = 4 if tier == 'quick' else 2
    budget = meta.get('budget', {}).get(
        tier, 60 if tier == 'quick' else 600) * scale * margin
    work = scratch_root()
    try:
        if replay:
            return _replay(pid, mod, replay, work)
        n = mod.ncases(tier)
        nsh = int(os.environ.get('VERIF_SHARDS', '0')) or min(
            meta.get('shards', 16), os.cpu_count() or 4, max(1, n))
        procs = []
        for s in range(nsh):
            wd = os.path.join(work, f's{s}')
            os.makedirs(wd)
            out = os.path.join(wd, 'result.json')
            env = child_env(wd)
            log = open(os.path.join(wd, 'log.txt'), 'w')
            p = subprocess.Popen(
                [PY, '-m', 'vlib.core.shard', pid, '--tier', tier,
                 '--seed', str(seed), '--shard', str(s),
                 '--nshards', str(nsh), '--workdir', wd,
                 '--budget', str(budget), '--out', out],
                cwd=wd, env=env, stdout=log, stderr=subprocess.STDOUT)
            procs.append((p, out, log, wd))
        results, dead = [], []
        hard = time.time() + budget * 1.5 + 120
        for p, out, log, wd in procs:
            try:
                p.wait(timeout=max(1, hard - time.time()))
            except subprocess.TimeoutExpired:
                p.kill()
                p.wait()
                dead.append(f'shard watchdog: {wd}')
            log.close()
            if os.path.exists(out):
                with open(out) as f:
                    results.append(json.load(f))
            else:
                tail = ''
                try:
                    with open(os.path.join(wd, 'log.txt')) as f:
                        tail = f.read()[-1500:]
                except OSError:
                    pass
                dead.append(f'shard died rc={p.returncode}: {tail}')
        m = merge(results)
        return _verdict(pid, mod, meta, tier, seed, m, dead, t0)
    finally:
        shutil.rmtree(work, ignore_errors=True)


def _verdict(pid, mod, meta, tier, seed, m, dead, t0):
    known = load_known()
    new, kn = [], {}
    for v in m['violations']:
        if v['key'] in known:
            kn.setdefault(v['key'], v)
        else:
            new.append(v)
    # keys that overflowed the per-shard cap are still represented by >=1
    # recorded violation per key per shard, so `new` is complete by key.
    inconclusive = []
    if dead:
        inconclusive.append('; '.join(d[:300] for d in dead))
    mins = getattr(mod, 'MIN', {})
    if 'quick' in mins or 'thorough' in mins:
        mins = mins.get(tier, {})
    for name, minimum in mins.items():
        got = m['counters'].get(name, 0)
        if got < minimum:
            inconclusive.append(f'counter {name}={got} < {minimum}')
    if m['evaluations'] == 0:
        inconclusive.append('no case evaluated')
    nerr = m['counters'].get('harness_errors', 0)
    if nerr and nerr > 0.02 * max(1, m['evaluations']):
        inconclusive.append(
            f'{nerr} harness errors: ' + (m['errors'][0][-600:]
                                          if m['errors'] else ''))
    if m['timeouts'] > 0.05 * max(1, m['evaluations']):
        inconclusive.append(f'{m["timeouts"]} case watchdog timeouts')
    extra = {}
    if hasattr(mod, 'finalize'):
        r = mod.finalize(m, tier) or {}
        if r.get('inconclusive'):
            inconclusive.append(r['inconclusive'])
        extra = r.get('coverage', {})
    cov = {
        'evaluations': m['evaluations'],
        'distinct_nontrivial': len(m['nontrivial']),
        'rule': getattr(mod, 'RULE', ''),
        'samples': m['samples'] or ['<none recorded>'],
        'counters': dict(sorted(m['counters'].items())),
        'shards': m['shards'],
        'case_timeouts': m['timeouts'],
        'truncated_by_budget': m['truncated'],
        'known_findings_seen': {
            k: m['vio_per_key'].get(k, 0) for k in sorted(kn)},
        'new_violation_keys': sorted({v['key'] for v in new}),
        'verdict': ('violated' if new else
                    'inconclusive' if inconclusive else 'held'),
    }
    if inconclusive:
        cov['inconclusive_reasons'] = inconclusive
    cov.update(extra)
    ev = {
        'property_id': pid, 'tier': tier, 'seed': seed,
        'level': meta['level'], 'coverage': cov,
        'assumptions': list(getattr(mod, 'ASSUMPTIONS', [])),
        'wall_s': round(time.time() - t0, 2),
        'violations': len(new),
    }
    os.makedirs(os.path.join(ROOT, 'evidence'), exist_ok=True)
    with open(os.path.join(ROOT, 'evidence', f'{pid}.json'), 'w') as f:
        json.dump(ev, f, indent=1, sort_keys=True)
        f.write('\n')
    for k, v in sorted(kn.items()):
        print(f'KNOWN-FINDING: property={pid} {k}: {known[k]["what"]} '
              f'(seen {m["vio_per_key"].get(k, 0)}x; e.g. {v["what"]})')
    print(f'[{pid}] tier={tier} seed={seed} cases={m["evaluations"]} '
          f'distinct_nontrivial={len(m["nontrivial"])} '
          f'wall={ev["wall_s"]}s counters='
          + json.dumps(cov['counters'], sort_keys=True)[:1500])
    if new:
        seen = set()
        for v in new:
            path = write_replay(pid, v)
            if v['key'] in seen:
                continue
            seen.add(v['key'])
            print(f'  witness [{v["key"]}] {v["what"]}')
            print(f'VIOLATION property={pid} replay={path}')
        return 1
    if inconclusive:
        for r in inconclusive:
            print(f'INCONCLUSIVE property={pid} reason={r}')
        return 2
    print(f'HELD property={pid} on everything explored')
    return 0


def _replay(pid, mod, path, work):
    with open(path) as f:
        v = json.load(f)
    case = v['case']
    wd = os.path.join(work, 'replay')
    os.makedirs(wd)
    out = os.path.join(wd, 'result.json')
    env = child_env(wd)
    subprocess.run(
        [PY, '-m', 'vlib.core.shard', pid, '--tier', case['tier'],
         '--seed', str(case['seed']), '--workdir', wd, '--budget', '600',
         '--out', out, '--only', str(case['index'])],
        cwd=wd, env=env, check=False)
    if not os.path.exists(out):
        print(f'INCONCLUSIVE property={pid} reason=replay child died')
        return 2
    with open(out) as f:
        r = json.load(f)
    known = load_known()
    rc = 0
    for vv in r['violations']:
        tag = 'KNOWN-FINDING:' if vv['key'] in known else 'VIOLATION-REPLAYED'
        print(f'{tag} property={pid} [{vv["key"]}] {vv["what"]}')
        print(json.dumps(vv['detail'], indent=1)[:4000])
        if vv['key'] not in known:
            rc = 1
    if not r['violations']:
        print(f'replay of case {case} produced no violation')
    for e in r['errors']:
        print('harness error:', e)
    return rc


def main(argv):
    import argparse
    ap = argparse.ArgumentParser(prog='check')
    ap.add_argument('pid')
    ap.add_argument('tier', nargs='?', default=None)
    ap.add_argument('--replay', default=None)
    a = ap.parse_args(argv)
    tier = a.tier or os.environ.get('VERIF_TIER') or 'quick'
    if tier not in ('quick', 'thorough'):
        raise SystemExit('tier must be quick or thorough')
    seed = int(os.environ.get('VERIF_SEED', '0') or 0)
    return run_check(a.pid, tier, seed, a.replay)
