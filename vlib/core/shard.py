"""Shard child: runs cases i with i % nshards == shard of one check."""
from __future__ import annotations

import argparse
import importlib
import json
import os
import signal
import sys
import traceback

from vlib.core.ctx import CaseTimeout, Ctx, case_rng
from vlib.core.registry import module_for


_FIRED = [False]


def _alarm(signum, frame):
    _FIRED[0] = True
    raise CaseTimeout()


def run(pid, tier, seed, shard, nshards, workdir, budget_s, out,
        only=None, case_timeout=120):
    mod = importlib.import_module(module_for(pid))
    ctx = Ctx(pid, tier, seed, shard, nshards, workdir, budget_s)
    ctx.replaying = only is not None
    if hasattr(mod, 'setup_shard'):
        mod.setup_shard(ctx)
    n = mod.ncases(tier)
    indices = [only] if only is not None else range(shard, n, nshards)
    signal.signal(signal.SIGALRM, _alarm)
    case_timeout = getattr(mod, 'CASE_TIMEOUT', case_timeout)
    for i in indices:
        if only is None and ctx.time_left() <= 0:
            ctx.truncated = True
            ctx.count('cases_not_run', len(range(i, n, nshards)))
            break
        ctx.cur_case = i
        rng = case_rng(seed, pid, tier, i)
        _FIRED[0] = False
        nviol = len(ctx.violations)
        vpk = dict(ctx._vio_per_key)
        signal.alarm(case_timeout)
        try:
            mod.run_case(ctx, i, rng)
            if _FIRED[0]:
                # the watchdog fired but its exception was swallowed by the
                # code under test (the run went on, disturbed): what the
                # case reported is not a verdict
                raise CaseTimeout()
        except CaseTimeout:
            del ctx.violations[nviol:]
            ctx._vio_per_key = vpk
            ctx.timeouts += 1
            if hasattr(mod, 'on_timeout'):
                mod.on_timeout(ctx, i)
        except Exception:
            # a harness error is never a verdict: recorded, makes the run
            # inconclusive if frequent (see harness.py)
            ctx.errors.append(
                f'case {i}: ' + traceback.format_exc(limit=8))
            ctx.count('harness_errors')
        finally:
            signal.alarm(0)
    if hasattr(mod, 'teardown_shard'):
        try:
            mod.teardown_shard(ctx)
        except Exception:
            ctx.errors.append('teardown: ' + traceback.format_exc(limit=5))
    with open(out, 'w') as f:
        json.dump(ctx.to_json(), f)
    return ctx


def main(argv=None):
    ap = argparse.ArgumentParser()
    ap.add_argument('pid')
    ap.add_argument('--tier', default='quick')
    ap.add_argument('--seed', type=int, default=0)
    ap.add_argument('--shard', type=int, default=0)
    ap.add_argument('--nshards', type=int, default=1)
    ap.add_argument('--workdir', required=True)
    ap.add_argument('--budget', type=float, default=60)
    ap.add_argument('--out', required=True)
    ap.add_argument('--only', type=int, default=None)
    a = ap.parse_args(argv)
    os.makedirs(a.workdir, exist_ok=True)
    run(a.pid, a.tier, a.seed, a.shard, a.nshards, a.workdir, a.budget,
        a.out, a.only)


if __name__ == '__main__':
    main()
    sys.stdout.flush()
    sys.stderr.flush()
    # hard exit: some checks leave threads (zmq, pools) behind
    os._exit(0)
