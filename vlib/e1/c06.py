"""C06 Held tasks never submit; holds persist and apply to future instances."""
from __future__ import annotations

from vlib.e1 import phases, runner, scripts
from vlib.e1.common import E1_META, E1_NOTE
from vlib.gen import wfgen

PID = 'C06'
META = dict(E1_META, **{
    'technique': 'online hold-model monitor on pool additions and job '
                 'preparation + snapshot comparison across stop/restart and '
                 'kill/restart',
    'level_text': (
        'Real scheduler runs with hold / release / set-hold-point / '
        'release-hold-point commands (on pooled and not-yet-spawned ids) at '
        'random iterations. Monitor: a task flagged held, or held per the '
        'command-history model (explicit set incl. future instances, hold '
        'point), never enters job preparation unless manually triggered; a '
        'task spawning into the model hold set or beyond the hold point is '
        'held when added to the pool; after stop/restart (and kill/restart '
        'in a fraction of cases) the held flags, the held-future set and the '
        'hold point equal those before.'),
    'level_note': E1_NOTE,
    'design_ref': 'DESIGN.md §5 C06, Appendix E.5',
    'budget': {'quick': 150, 'thorough': 1500},
})
RULE = ('case = generated workflow (optionally hold after cycle point) + '
        'hold/release/hold-point/trigger command script x optional '
        'stop-restart; distinct by event census; non-trivial when some task '
        'spawned into a hold or a held task existed at a restart')
ASSUMPTIONS = ['globs select pooled tasks only; explicit ids also future '
               'instances (model stops claiming when unsure)']
MIN = {'c06.prep_checks': 300, 'c06.spawned_into_hold': 60,
       'restarts_compared': 25, 'held_tasks_at_restart': 15}
NCASES = {'quick': 500, 'thorough': 6000}
MONS = ['c06', 'c26', 'rsnap']


def ncases(tier):
    return NCASES[tier]


def script(rng, case):
    sc = scripts.random_script(
        rng, case, kinds=['hold', 'hold', 'release', 'hold_point', 'trigger'],
        max_cmds=5, horizon=14)
    # no globs for release of future holds ambiguity: keep generated ids
    return sc


def run_case(ctx, i, rng):
    retries = rng.random() < 0.35
    feat = wfgen.Features(hold_after=rng.random() < 0.4, max_tasks=5,
                          retries=retries,
                          runahead=['P1', 'P2', 'P4', None])
    gt = wfgen.gen_workflow(rng, feat)
    # (with retries: a held active task that fails must not be re-submitted)
    case = runner.build_case(rng, gt, 'retrying' if retries else
                             'all-complete', hostile=0.2)
    sc = script(rng, case)
    restart = rng.random() < 0.5
    plist = [{'name': 'p0', 'script': list(sc)}]
    if restart:
        k = rng.randint(3, 16)
        if rng.random() < 0.3:
            plist[0]['kill_at_iter'] = k
        else:
            plist[0]['script'].append(
                {'at': k, 'cmd': 'stop',
                 'args': {'mode': rng.choice(['clean', 'now'])}})
        later = [dict(a, at=max(1, a['at'] - k)) for a in sc if a['at'] > k]
        plist.append({'name': 'p1', 'script': later})
    results = runner.run_case(ctx, f'c{i}', case, plist, MONS, PID)
    if not results:
        ctx.evaluated(('discard', i), nontrivial=False)
        return
    nontrivial = any(((r.get('monitors') or {}).get('c06') or {}).get(
        'spawned_into_hold') for r in results)
    for a, b in zip(results, results[1:]):
        sa = ((a.get('monitors') or {}).get('rsnap') or {}).get('end')
        sb = ((b.get('monitors') or {}).get('rsnap') or {}).get('after_start')
        if a.get('killed') or not sa or not sb:
            ctx.count('restart_not_comparable(kill)')
            continue
        ctx.count('restarts_compared')
        detail = {'flow': gt['flow_text'], 'script': sc}
        pa = {t['id']: t for t in sa['pool']}
        pb = {t['id']: t for t in sb['pool']}
        for tid, ta in pa.items():
            tb = pb.get(tid)
            if tb is None:
                continue
            if ta['held']:
                ctx.count('held_tasks_at_restart')
                nontrivial = True
            hp = sa['extras']['hold_point']
            if ta['held'] != tb['held']:
                mech = ''
                if hp is not None and not ta['held'] and tb['held'] and \
                        int(ta['point']) > int(hp):
                    # explicitly released although beyond the hold point;
                    # the restart re-applies the hold point to the pool
                    mech = ':released-beyond-hold-point'
                ctx.violation(
                    'C06:held-flag-not-restored' + mech,
                    f'{tid} held={ta["held"]} at stop, held={tb["held"]} '
                    'after restart', dict(detail, before=ta, after=tb))
        for fld in ('hold_point', 'tasks_to_hold'):
            if sa['extras'][fld] != sb['extras'][fld]:
                mech = ''
                hp = sa['extras']['hold_point']
                if fld == 'tasks_to_hold' and hp is not None:
                    a_, b_ = set(sa['extras'][fld]), set(sb['extras'][fld])
                    if a_ <= b_ and all(int(x.split('/')[0]) > int(hp)
                                        for x in b_ - a_):
                        mech = ':released-beyond-hold-point'
                ctx.violation(
                    f'C06:{fld}-not-restored' + mech,
                    f'{fld} {sa["extras"][fld]} at stop, '
                    f'{sb["extras"][fld]} after restart', detail)
            elif sa['extras'][fld]:
                ctx.count(f'nonempty_{fld}_at_restart')
    ctx.evaluated(runner.trace_key(results), nontrivial=bool(nontrivial))
    ctx.sample({'flow': gt['flow_text'], 'script': sc,
                'phases': len(plist)})
