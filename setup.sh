#!/bin/sh
# Offline setup: contracts libraries beside the repo's interpreter.
set -e
cd "$(dirname "$0")"
export PIP_NO_INDEX=1
if [ ! -d .deps/icontract ] || [ ! -d .deps/deal ]; then
  /venv/bin/python -m pip install -q --no-index --find-links /opt/veriftools/wheels --target .deps deal icontract
fi
mkdir -p evidence replays
echo setup ok
