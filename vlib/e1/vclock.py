"""Virtual clock: replaces time()/sleep() inside cylc.flow modules
(DESIGN Appendix C). Log timestamps stay real; no verdict reads them."""
from __future__ import annotations

import importlib

MODULES_TIME = [
    'cylc.flow.scheduler', 'cylc.flow.commands', 'cylc.flow.task_proxy',
    'cylc.flow.task_events_mgr', 'cylc.flow.task_job_mgr',
    'cylc.flow.task_action_timer', 'cylc.flow.timer',
    'cylc.flow.xtrigger_mgr', 'cylc.flow.xtriggers.wall_clock',
    'cylc.flow.run_modes.simulation', 'cylc.flow.subprocpool',
    'cylc.flow.data_store_mgr', 'cylc.flow.main_loop',
    'cylc.flow.task_pool', 'cylc.flow.workflow_events',
    'cylc.flow.task_remote_mgr', 'cylc.flow.workflow_db_mgr',
]


class VClock:
    def __init__(self, t0: float):
        self.now = float(t0)
        self.patched = []

    def time(self):
        return self.now

    def sleep(self, secs=0):
        # a sleeping scheduler lets time pass
        if secs and secs > 0:
            self.now += float(secs)

    def advance(self, dt: float):
        self.now += dt

    def install(self):
        import time as _time
        real_time, real_sleep = _time.time, _time.sleep
        for name in MODULES_TIME:
            try:
                mod = importlib.import_module(name)
            except ImportError:
                continue
            if getattr(mod, 'time', None) is real_time:
                mod.time = self.time
                self.patched.append(name + '.time')
            if getattr(mod, 'sleep', None) is real_sleep:
                mod.sleep = self.sleep
                self.patched.append(name + '.sleep')
            if getattr(mod, 'now', None) is real_time:
                mod.now = self.time
                self.patched.append(name + '.now')
        return self.patched
