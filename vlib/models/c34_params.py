"""Generator and explicit expansion model for C34 (parameter expansion).

Nothing here imports cylc.  Lines and headings are generated as *structures*
(never parsed back from text); the model expands a structure by explicit
enumeration of the Cartesian product with its own template substitution.

Structures
    Param   {'name', 'kind': 'int'|'str', 'values': [...],
             'prefix', 'conv': ('s',)|('d', width, plus), 'suffix'}
    item    (pname, 'bare', None) | (pname, 'fix', (value, text))
            | (pname, 'off', k)            # k > 0 means <p-k>
    node    {'tokens': [('lit', str) | ('grp', [item, ...])], 'tail': str}
    expr    [[node, ...], ...]             # OR of AND-groups, no parentheses
    line    [expr, ...]                    # chain: expr => expr => ...
"""
from __future__ import annotations

import itertools

PNAMES = ['m', 'n', 'i', 'run', 'chunk', 'p1', 'Xy', 'k_2']
BASES = ['foo', 'bar', 'baz', 'qux', 'sim', 'post', 'A1', 'get_x', 'pre',
         'model', 'T', 'z9']
STR_VALUES = ['cat', 'dog', 'fish', 'a', 'b', 'b1', 'x_y', 'north', 'v2',
              'Z', 'o3', 'u-v', 'w+', 'lo']
# only legal as values, not inside <...> of a graph line (graph syntax)
STR_VALUES_NAME_ONLY = ['e%f', 'g@h']
NUMERIC_STRINGS = ['072', '7', '10', '003', '1_0']


# ------------------------------------------------------------ templates --
def tmpl_string(p):
    """The %-template handed to cylc for this parameter."""
    esc = lambda s: s.replace('%', '%%')   # noqa: E731
    conv = p['conv']
    if conv[0] == 's':
        spec = 's'
    else:
        _, width, plus = conv
        spec = ('+' if plus else '') + (f'0{width}' if width else '') + 'd'
    return f"{esc(p['prefix'])}%({p['name']}){spec}{esc(p['suffix'])}"


def render_value(p, value):
    """Own substitution of one value into the parameter's template."""
    conv = p['conv']
    if conv[0] == 's':
        body = str(value)
    else:
        _, width, plus = conv
        value = int(value)
        sign = '-' if value < 0 else ('+' if plus else '')
        digits = str(abs(value))
        pad = max(0, (width or 0) - len(sign) - len(digits))
        body = sign + '0' * pad + digits
    return p['prefix'] + body + p['suffix']


# ------------------------------------------------------------ generators --
def gen_params(rng, allow_name_only_values=False, numeric_string=False):
    """A parameter set: dict name -> Param."""
    n = rng.choice([1, 1, 2, 2, 2, 3, 3, 4])
    names = rng.sample(PNAMES, n)
    out = {}
    for idx, name in enumerate(names):
        p = {'name': name}
        if rng.random() < 0.5 and not (numeric_string and idx == 0):
            p['kind'] = 'int'
            r = rng.random()
            if r < 0.5:
                lo = rng.choice([0, 0, 1, 1, 2, 5, 9, 98])
                p['values'] = list(range(lo, lo + rng.randint(1, 4)))
            elif r < 0.7:
                lo = rng.choice([0, 1, 3])
                step = rng.choice([2, 3, 5])
                p['values'] = list(range(lo, lo + step * rng.randint(1, 4),
                                         step))
            elif r < 0.85:
                p['values'] = sorted(rng.sample(range(0, 120),
                                                rng.randint(1, 4)))
            else:
                lo = rng.choice([-2, -1, -3])
                p['values'] = list(range(lo, lo + rng.randint(2, 4)))
            neg = any(v < 0 for v in p['values'])
            width = max(len(str(v)) for v in p['values'])
            r = rng.random()
            if r < 0.5:
                # the documented default style: _m%(m)0Nd / _m%(m)+0Nd
                p['prefix'], p['suffix'] = f'_{name}', ''
                p['conv'] = ('d', width, neg)
            elif r < 0.65:
                p['prefix'], p['suffix'] = '_', ''
                p['conv'] = ('s',)
            else:
                p['prefix'] = rng.choice(['_', '_' + name, 'x', '_v', '__',
                                          'r-', '_%'])
                p['suffix'] = rng.choice(['', '', '', 'e', '_', '-z'])
                p['conv'] = rng.choice([
                    ('d', 0, False), ('d', width + 1, False),
                    ('d', width + 1, True), ('s',), ('d', 0, neg)])
        else:
            p['kind'] = 'str'
            pool = list(STR_VALUES)
            if allow_name_only_values and rng.random() < 0.2:
                pool += STR_VALUES_NAME_ONLY
            vals = rng.sample(pool, rng.randint(1, 4))
            if numeric_string and idx == 0:
                # a digit-only member in a list of strings ('072, a')
                vals = vals[:rng.randint(1, 3)]
                vals.insert(rng.randrange(len(vals) + 1),
                            rng.choice(NUMERIC_STRINGS))
                p['numeric_string'] = True
            p['values'] = vals
            if rng.random() < 0.6:
                p['prefix'], p['suffix'] = '_', ''
            else:
                p['prefix'] = rng.choice(['_', '_' + name + '_', 'x', '__',
                                          '_%', 'q-'])
                p['suffix'] = rng.choice(['', '', 'e', '_', '-z'])
            p['conv'] = ('s',)
        out[name] = p
    return out


def cylc_parameters(params):
    """The (values, templates) pair cylc's expanders take."""
    return ({n: list(p['values']) for n, p in params.items()},
            {n: tmpl_string(p) for n, p in params.items()})


def gen_item(rng, p, allow_off, allow_fix=True, graph=True, p_fix=0.2,
             p_off=0.35):
    r = rng.random()
    if allow_off and len(p['values']) >= 1 and r < p_off:
        k = 1 if rng.random() < 0.8 else 2
        return (p['name'], 'off', k)
    if allow_fix and r > 1 - p_fix:
        cands = list(p['values'])
        if graph:
            cands = [v for v in cands
                     if not isinstance(v, str) or
                     all(c.isalnum() or c in '_-+' for c in v)]
        if p.get('numeric_string'):
            return None     # handled by the dedicated hazard class
        if cands:
            v = rng.choice(cands)
            text = str(v)
            if p['kind'] == 'int' and v >= 0 and rng.random() < 0.2:
                text = '0' + text            # zero padded spelling
            return (p['name'], 'fix', (v, text))
    return (p['name'], 'bare', None)


def gen_node(rng, params, allow_off, graph=True, p_param=0.75, must=None,
             tails=True):
    """One node (or heading name).  `must`: items forced into the node."""
    base = rng.choice(BASES)
    tokens = [('lit', base)]
    pl = list(params.values())
    if must is not None:
        groups = [must]
    elif rng.random() < p_param:
        k = rng.choice([1, 1, 1, 2, 2, 3])
        chosen = rng.sample(pl, min(k, len(pl)))
        items = []
        for p in chosen:
            it = gen_item(rng, p, allow_off, graph=graph)
            items.append(it or (p['name'], 'bare', None))
        groups = [items]
        if len(items) > 1 and rng.random() < 0.3:
            # foo<m>bar<n> style: split into two groups
            cut = rng.randint(1, len(items) - 1)
            groups = [items[:cut], items[cut:]]
    else:
        groups = []
    for gi, g in enumerate(groups):
        tokens.append(('grp', g))
        if gi < len(groups) - 1 or rng.random() < 0.2:
            tokens.append(('lit', rng.choice(['_s', 'x', '_end', 'B'])))
    tail = ''
    if graph and tails and rng.random() < 0.15:
        tail = rng.choice([':start', ':submit', ':started'])
    return {'tokens': tokens, 'tail': tail}


def node_params(node):
    return [it for t, g in node['tokens'] if t == 'grp' for it in g]


def line_items(line):
    return [it for e in line for ag in e for nd in ag
            for it in node_params(nd)]


# ------------------------------------------------------------- rendering --
def render_group(items, rng=None):
    """Text of <...>; with rng, sprinkle the whitespace cylc documents."""
    def sp():
        return ' ' if rng is not None and rng.random() < 0.3 else ''
    out = []
    for pname, kind, arg in items:
        if kind == 'bare':
            s = pname
        elif kind == 'fix':
            s = f'{pname}{sp()}={sp()}{arg[1]}'
        else:
            s = f'{pname}{sp()}-{sp()}{arg}'
        out.append(sp() + s + sp())
    return '<' + ','.join(out) + '>'


def render_node(node, rng=None):
    s = ''
    for t, v in node['tokens']:
        s += v if t == 'lit' else render_group(v, rng)
    return s + node['tail']


def render_expr(expr, rng=None):
    def sp():
        return ' ' if rng is not None and rng.random() < 0.6 else ''
    return (sp() + '|' + sp()).join(
        (sp() + '&' + sp()).join(render_node(nd, rng) for nd in ag)
        for ag in expr)


def render_line(line, rng=None):
    def sp():
        return ' ' if rng is not None and rng.random() < 0.7 else ''
    return (sp() + '=>' + sp()).join(render_expr(e, rng) for e in line)


# ------------------------------------------------------------- the model --
OOR = None   # out-of-range marker for a node


def loop_params(items, params):
    """Parameters looped over: those with a bare or offset occurrence, in
    order of first appearance."""
    seen = []
    for pname, kind, _ in items:
        if kind in ('bare', 'off') and pname not in seen:
            seen.append(pname)
    return seen


def combos(items, params):
    names = loop_params(items, params)
    for vals in itertools.product(*(params[n]['values'] for n in names)):
        yield dict(zip(names, vals))


def item_value(item, combo, params):
    """Value an item denotes under a combination, or OOR."""
    pname, kind, arg = item
    if kind == 'bare':
        return combo[pname]
    if kind == 'fix':
        return arg[0]
    vals = params[pname]['values']
    idx = vals.index(combo[pname]) - arg
    if idx < 0:
        return OOR
    return vals[idx]


class _Oor(Exception):
    pass


def node_string(node, combo, params):
    """Expanded node text, or None when an offset has no previous value."""
    s = ''
    for t, v in node['tokens']:
        if t == 'lit':
            s += v
            continue
        for item in v:
            val = item_value(item, combo, params)
            if val is OOR and item[1] == 'off':
                return None
            s += render_value(params[item[0]], val)
    return s + node['tail']


def node_values(node, combo, params):
    """{param: value} for a heading name (no offsets there)."""
    return {it[0]: item_value(it, combo, params)
            for it in node_params(node)}


def expand_line_exact(line, params):
    """Raw expansion: (set of lines from in-range combinations,
    number of combinations with at least one out-of-range node)."""
    items = line_items(line)
    full = set()
    n_oor = 0
    n_combos = 0
    for combo in combos(items, params):
        n_combos += 1
        exprs = []
        bad = False
        for e in line:
            ags = []
            for ag in e:
                nodes = [node_string(nd, combo, params) for nd in ag]
                if any(n is None for n in nodes):
                    bad = True
                ags.append('&'.join(n or '?' for n in nodes))
            exprs.append('|'.join(ags))
        if bad:
            n_oor += 1
        else:
            full.add('=>'.join(exprs))
    return full, n_oor, n_combos


def expand_line_dropping(line, params):
    """Graph meaning: one explicit parameter-free line per combination, the
    offset nodes without a previous value dropped from their expression.

    Returns (lines, info) where info counts what happened;
    info['lines_head_kept'] are the lines of the combinations in which the
    head expression did not vanish (used only to recognise the known
    "emptied head drops the whole line" behaviour)."""
    items = line_items(line)
    out = []
    kept = []
    info = {'combos': 0, 'dropped_nodes': 0, 'first_expr_vanished': 0,
            'dropped_in_mixed': 0, 'line_vanished': 0,
            'lone_first_vanished': 0, 'two_leading_dropped': 0}
    for combo in combos(items, params):
        info['combos'] += 1
        chain = []
        for ei, e in enumerate(line):
            mixed = len(e) > 1 and any(len(ag) > 1 for ag in e)
            ags = []
            flat = [node_string(nd, combo, params) for ag in e for nd in ag]
            if len(flat) > 1 and flat[0] is None and flat[1] is None:
                info['two_leading_dropped'] += 1
            for ag in e:
                nodes = []
                for nd in ag:
                    s = node_string(nd, combo, params)
                    if s is None:
                        info['dropped_nodes'] += 1
                        if mixed:
                            info['dropped_in_mixed'] += 1
                    else:
                        nodes.append(s)
                if nodes:
                    ags.append('&'.join(nodes))
            if ags:
                chain.append('|'.join(ags))
            elif ei == 0:
                info['first_expr_vanished'] += 1
                if len(flat) == 1:
                    info['lone_first_vanished'] += 1
            else:
                raise AssertionError('generator: mid-chain expression '
                                     'emptied')
        head_vanished = len(chain) < len(line)
        if chain:
            out.append(' => '.join(chain))
            if not head_vanished:
                kept.append(out[-1])
        else:
            info['line_vanished'] += 1
    info['lines_head_kept'] = kept
    return out, info


def expand_heading(names, params):
    """Runtime heading: list of (expanded name, {param: value})."""
    out = []
    for node in names:
        items = node_params(node)
        if not items:
            out.append((render_node(node), {}))
            continue
        for combo in combos(items, params):
            out.append((node_string(node, combo, params),
                        node_values(node, combo, params)))
    return out
