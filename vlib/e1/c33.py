"""C33 Xtriggers are called with the documented discipline."""
from vlib.e1.common import E1_META, E1_NOTE, simple_case
from vlib.gen import wfgen

PID = 'C33'
META = dict(E1_META, **{
    'technique': 'online monitor of xtrigger call/return events (virtual '
                 'time) at the process-pool boundary + per-iteration '
                 'satisfaction latency check',
    'level_text': (
        'Generated workflows with 1-3 xtriggers (shared and per-cycle '
        'signatures, intervals 3-20 s, success on the n-th call) run on the '
        'real scheduler under a virtual clock; every call reaches the fake '
        'process pool where it is recorded with its signature and virtual '
        'time. Monitor per signature: never two calls in flight; '
        'consecutive calls at least the configured interval apart; after a '
        'success no further call while a pooled task still needs it '
        '(housekeeping observations release a signature); every released '
        'waiting task that depends on a succeeded signature has that '
        'xtrigger satisfied within K=6 main-loop iterations.'),
    'level_note': E1_NOTE + ' The xtrigger function itself is never '
                  'executed: calls are intercepted at the process pool.',
    'design_ref': 'DESIGN.md §5 C33',
})
RULE = ('case = generated workflow with xtriggers x result sequences x clock '
        'advance per iteration; distinct by event census; non-trivial when '
        'an xtrigger succeeded')
ASSUMPTIONS = ['wall_clock (synchronous) xtriggers are not judged here']
MIN = {'c33.calls': 600, 'c33.repeat_calls': 150, 'c33.successes': 250,
       'c33.dependents_satisfied_obs': 300}
NCASES = {'quick': 800, 'thorough': 10000}


def ncases(tier):
    return NCASES[tier]


def clock(rng, case):
    case['policy']['dt'] = rng.choice([1.0, 2.0, 5.0, 12.0])
    case['policy']['p_cmd_done'] = rng.choice([0.3, 0.7, 1.0])


def run_case(ctx, i, rng):
    feat = wfgen.Features(xtriggers=True, max_tasks=5,
                          runahead=['P0', 'P1', 'P2', 'P4', None])
    simple_case(ctx, i, rng, PID, feat, plan_class='all-complete',
                hostile=0.2, monitors=['c33', 'c26'], policy_fn=clock)
