"""E1 monitors, part 3: group trigger (C28), clock expiry (C32)."""
from __future__ import annotations

from collections import Counter
from typing import Dict, List, Set, Tuple

from vlib.e1.monitors import ACTIVE, FINAL, Base, split_id
from vlib.gen import wfgen


def group_atoms(gt, name, point, group: Set[str]):
    """Atoms of (name, point)'s prerequisites on members of the group."""
    out = []
    for ar in wfgen.arrows_at(gt, name, point):
        for a in wfgen.atoms(ar):
            q = wfgen.atom_point(a, point)
            if q >= gt['initial'] and f'{q}/{a[1]}' in group:
                out.append(a)
    return out


def eval_in_group(tree, point, facts, group, gt):
    """Truth of a prerequisite expression when every atom on a task outside
    the group (or before the initial point) counts as satisfied."""
    if tree[0] == 'atom':
        _, t, off, o = tree
        q = wfgen.atom_point(tree, point)
        if q < gt['initial'] or f'{q}/{t}' not in group:
            return True
        if o == 'finished':
            return (t, q, 'succeeded') in facts or (t, q, 'failed') in facts
        return (t, q, o) in facts
    a = eval_in_group(tree[1], point, facts, group, gt)
    b = eval_in_group(tree[2], point, facts, group, gt)
    return (a and b) if tree[0] == 'and' else (a or b)


class C28Trigger(Base):
    """Group trigger: each member runs once, in-group order honoured,
    off-group prerequisites satisfied, live start members left alone."""
    NAME = 'c28'
    PID = 'C28'
    K = 5      # iterations for a group-start member to reach preparation

    def __init__(self, case, phase):
        super().__init__(case, phase)
        self.recs: List[dict] = []
        self.owner: Dict[str, dict] = {}    # member id -> latest record
        self.in_cmd = False
        self.cur_group: Set[str] = set()
        self.cur_rec = None
        self.fact_owner: Dict[str, dict] = {}   # (kept when judgement of
        #                       the member itself stops: others depend on it)
        self.ran: Dict[str, Set[int]] = {}  # task id -> flows it ran in
        self.fed_ever: Set[str] = set()     # took messages of a removed job

    # -- helpers -----------------------------------------------------------
    def valid(self, tid):
        try:
            p, n = split_id(tid)
        except ValueError:
            return False
        return n in self.gt['tasks'] and p in wfgen.task_points(self.gt, n)

    def other_flow(self, rec, tid):
        """Was the member pooled, at trigger time, in flows that the
        triggered flow does not include?"""
        b = rec['before'].get(tid)
        if b is None:
            return False
        if not b['flows']:
            return True     # a no-flow task is in none of the flows
        f = rec['flow']
        if f == ['new']:
            return True
        if f and f[0].isdigit():
            # (also in further flows: removing it from flow N leaves the
            # proxy in the pool, and the re-spawned copy is discarded)
            return bool(set(b['flows']) - {int(f[0])})
        return False

    def downstream_of_other_flow(self, rec, tid):
        """Does the member depend, inside the group, on a member that was
        pooled in other flows (or in none) and therefore never re-ran in
        the triggered flow? (What that pooled proxy completes belongs to
        its own flows.)"""
        seen, todo = set(), [tid]
        while todo:
            cur = todo.pop()
            p, n = split_id(cur)
            for a in group_atoms(self.gt, n, p, rec['group']):
                par = f'{wfgen.atom_point(a, p)}/{a[1]}'
                if par in seen:
                    continue
                seen.add(par)
                todo.append(par)
                if par not in rec['start'] and self.other_flow(rec, par) \
                        and not rec['preps'][par]:
                    return True
        return False

    def ran_in_flow_merged_upstream(self, rec, tid):
        """Had the member run already in a flow that the trigger merged
        with the triggered flow at an in-group ancestor (the ancestor was
        pooled in that other flow: flows merge, and what the merged task
        spawns is refused where it ran before in either flow)?"""
        f = rec['flow']
        if not (f == ['new'] or (f and f[0].isdigit())):
            return False
        mine = rec['ran_before'].get(tid, set())
        seen, todo = set(), [tid]
        while todo:
            cur = todo.pop()
            p, n = split_id(cur)
            for a in group_atoms(self.gt, n, p, rec['group']):
                par = f'{wfgen.atom_point(a, p)}/{a[1]}'
                if par in seen:
                    continue
                seen.add(par)
                todo.append(par)
                b = rec['before'].get(par)
                if b is None:
                    continue
                other = set(b['flows'])
                if f[0].isdigit():
                    other -= {int(f[0])}
                if other & mine:
                    return True
        return False

    def waits_on_rereported_custom_output(self, rec, tid):
        """Does the member depend on a custom output of a group-start
        member that was re-run on its old (finished, retained) proxy?"""
        p, n = split_id(tid)
        for a in group_atoms(self.gt, n, p, rec['group']):
            q = wfgen.atom_point(a, p)
            par = f'{q}/{a[1]}'
            b = rec['before'].get(par)
            implied_only = a[3] in ('started', 'submitted') and (
                a[1], q, a[3]) not in rec['explicit']
            # (a standard output the re-run only implied - its own message
            # was lost or overtaken - is not announced either when the
            # reused proxy already holds it)
            if (implied_only or a[3] not in wfgen.STD
                    and a[3] != 'finished') and \
                    par in rec['start'] and b is not None and (
                        b['status'] in FINAL or b['status'] == 'preparing'
                    ) and a[3] in b['outputs']:
                # (preparing: the re-run had just begun when the trigger
                # came; outputs it holds are those of its previous job)
                return True
        return False

    def drop(self, tid, why):
        rec = self.owner.pop(tid, None)
        if rec is not None:
            rec['dropped'][tid] = why

    def on_event(self, ev):
        k = ev['k']
        if k == 'CMD_EXEC':
            self.in_cmd = True
            self.cur_group = set()
            self.cur_rec = None
            self.on_cmd(ev)
        elif k == 'CMD_EXEC_END':
            self.in_cmd = False
        elif k == 'STATE' and ev['id'] in self.owner and \
                ev['id'] in self.owner[ev['id']]['live_start'] and \
                ev['before'][0] in ACTIVE:
            # flows merged into the live job of a group-start member
            self.owner[ev['id']]['live_flows'].setdefault(
                ev['id'], set()).update(ev.get('flows') or [])
        elif k == 'STATE' and ev['id'] in self.owner and (
                not self.in_cmd or ev['id'] not in self.cur_group) \
                and ev['before'][0] in FINAL and ev['after'][0] == 'waiting':
            # a finished-but-incomplete member re-run because another flow
            # merged into it, or a retry: not this trigger's doing
            self.n['member_rerun_after_finishing'] += 1
            self.drop(ev['id'], 'reset to waiting after finishing')
        elif k == 'CMD' and ev['cmd'] in ('reload_workflow', 'stop'):
            # a pending reload / stop suspends job submission
            for rec in self.recs:
                rec['suspended'] = True
        elif k == 'PREP':
            for t in ev['tasks']:
                if t['status'] == 'preparing':
                    continue        # passed back through preparation
                # (a triggered task can be prepared from a finished state:
                # reset to waiting by the trigger, then set back by the
                # answer to a poll of its previous job before preparation)
                self.ran.setdefault(t['id'], set()).update(t['flows'])
                self.on_prep(t)
        elif k == 'POOL_ADD' and self.in_cmd and self.cur_rec is not None \
                and ev['task']['id'] in self.cur_group \
                and self.cur_rec['flow'] == ['none'] \
                and ev['task']['flows']:
            # a flow reached the member while the command ran (the groups
            # of one command are triggered one after another, each ending
            # with a runahead release): the member is active in a flow
            # when its own group is handled, so the no-flow trigger is
            # ignored for it
            self.n['noflow_member_spawned_by_a_flow_during_command'] += 1
            self.cur_rec['flow_spawned'].add(ev['task']['id'])
        elif k == 'MSG_OUT':
            for rec in self.recs:
                if ev['id'] in rec['group'] and rec['it'] <= self.drv.bus.it:
                    self.on_member_msg(rec, ev)

    def on_member_msg(self, rec, ev):
        if ev['status_before'] == 'waiting' and \
                not ev.get('forced') and ev['flag'] in (
                    '(received)', '(polled)') and (
                    ev['outputs_after'] != ev['outputs_before']
                    or ev['status_after'] != 'waiting'):
            # the re-spawned (waiting, nothing submitted yet) member takes
            # a message of a job its removed predecessor left behind
            rec['fed_by_old_job'].add(ev['id'])
            self.fed_ever.add(ev['id'])
            self.n['waiting_member_fed_by_removed_job'] += 1
        if not ev.get('transient'):
            p, n = split_id(ev['id'])
            for o in ev['outputs_after']:
                rec['facts'].add((n, p, o))
            # outputs whose own message was processed since the trigger
            # (a reused proxy also still shows outputs of its earlier run)
            if not ev.get('forced') and ev['depth'] == 0:
                o = self.msg_to_output(n, ev['message'])
                if o:
                    rec['msg_facts'].add((n, p, o))
                    if not ev.get('ret'):
                        # (ret: the message was ignored, e.g. a 'started'
                        # overtaken by 'succeeded')
                        rec['explicit'].add((n, p, o))
                    for imp in {'succeeded': ('submitted', 'started'),
                                'failed': ('submitted', 'started'),
                                'started': ('submitted',)}.get(o, ()):
                        rec['msg_facts'].add((n, p, imp))

    def on_cmd(self, ev):
        cmd, args = ev['cmd'], ev['args']
        from vlib.e1.monitors import match_ids
        pool = {t['id']: t for t in ev.get('pool') or []}
        if cmd != 'force_trigger_tasks':
            if cmd in ('set', 'remove_tasks', 'kill_tasks', 'hold',
                       'release', 'set_hold_point'):
                pats = args.get('tasks')
                if pats is None:
                    ids = set(self.owner)       # hold point: anything
                else:
                    ids = match_ids(pats, list(pool.values()), self.gt)
                for tid in ids:
                    self.drop(tid, cmd)
            return
        ids = [t for t in args.get('tasks') or []]
        if any(c in ''.join(ids) for c in '*?[:'):
            for tid in list(self.owner):
                self.drop(tid, 'glob trigger')
            return
        group = {t for t in ids if self.valid(t)}
        self.cur_group = group
        self.n['trigger_commands'] += 1
        if not group:
            return
        flow = list(args.get('flow') or [])
        # a member named again by a later trigger belongs to that trigger
        same_iter = set()
        for tid in group:
            prev = self.owner.get(tid)
            if prev is not None and prev['it'] == self.drv.bus.it and \
                    not prev['preps'][tid]:
                # two triggers executed in one iteration name it: the run
                # the first one asked for has not happened yet and will be
                # seen under this record too
                same_iter.add(tid)
            self.drop(tid, 're-triggered')
        schd = self.drv.schd
        rec = {
            'it': self.drv.bus.it, 'group': group, 'flow': flow,
            'start': set(), 'live_start': set(), 'preps': Counter(),
            'facts': set(), 'dropped': {}, 'before': {},
            'paused': bool(schd.is_paused),
            'suspended': bool(schd.stop_mode or schd.reload_pending),
            'checked_offgroup': False, 'late_start': set(),
            'prep_flows': {}, 'fed_by_old_job': set(), 'live_flows': {},
            'msg_facts': set(), 'flow_spawned': set(), 'explicit': set(),
            'same_iter': same_iter,
            'ran_before': {t: set(self.ran.get(t, ())) for t in group},
        }
        self.cur_rec = rec
        for tid in sorted(group):
            p, n = split_id(tid)
            b = pool.get(tid)
            rec['before'][tid] = b
            if not group_atoms(self.gt, n, p, group):
                rec['start'].add(tid)
                if b is not None and b['status'] in ACTIVE:
                    rec['live_start'].add(tid)
                    # outputs its live job has completed already count
                    for o in b['outputs']:
                        rec['facts'].add((n, p, o))
            self.owner[tid] = rec
            self.fact_owner[tid] = rec
        self.n['members'] += len(group)
        self.n['start_members'] += len(rec['start'])
        self.n['live_start_members'] += len(rec['live_start'])
        self.n['in_group_dependent_members'] += len(group) - len(
            rec['start'])
        if flow == ['none']:
            self.n['no_flow_triggers'] += 1
        self.recs.append(rec)

    def on_prep(self, t):
        tid = t['id']
        rec = self.owner.get(tid)
        if rec is None:
            return
        p, n = split_id(tid)
        self.n['member_preparations'] += 1
        flows = set(t['flows'])
        first = rec['prep_flows'].setdefault(tid, flows)
        if rec['preps'][tid] and (not (flows & first) or flows - first):
            # another flow reaching the member later is not this trigger
            self.n['later_preparation_in_another_flow'] += 1
            return
        if tid in rec['live_start'] and not rec['preps'][tid] and flows:
            known = set(rec['before'][tid]['flows']) | rec[
                'live_flows'].get(tid, set())
            if not (flows & known) or flows - known:
                # a flow the live job never belonged to reached the task
                self.n['live_start_member_run_by_another_flow'] += 1
                rec['prep_flows'].pop(tid, None)
                return
        rec['preps'][tid] += 1
        if self.gt['tasks'][n]['exec_retries'] or \
                self.gt['tasks'][n]['submit_retries']:
            retry = True
        else:
            retry = False
        if tid in rec['same_iter'] and rec['preps'][tid] == 2:
            self.n['second_run_owed_to_a_trigger_of_the_same_iteration'] += 1
        elif rec['preps'][tid] > 1 and not retry:
            self.v('member-ran-twice',
                   f'{tid} entered job preparation {rec["preps"][tid]} times '
                   f'after one trigger of {sorted(rec["group"])} '
                   f'(flow {rec["flow"]})', {'task': t, 'trigger_it':
                                             rec['it']})
        if tid in rec['live_start'] and not retry:
            self.v('live-start-member-resubmitted' + (
                ':fed-by-messages-of-its-removed-job'
                if tid in self.fed_ever else ''),
                   f'{tid} had a live job '
                   f'({rec["before"][tid]["status"]}) when the group '
                   f'{sorted(rec["group"])} was triggered, yet it was '
                   'prepared again', {'task': t, 'trigger_it': rec['it']})
        if tid in rec['same_iter'] and rec['preps'][tid] == 1:
            pass    # (the run owed to the earlier trigger of the iteration)
        elif tid not in rec['start'] and rec['flow'] != ['none']:
            self.n['order_checks'] += 1
            ok = all(eval_in_group(ar, p, rec['facts'], rec['group'],
                                   self.gt)
                     for ar in wfgen.arrows_at(self.gt, n, p))
            if not ok:
                self.v('member-ran-before-in-group-prerequisites' + (
                    ':pooled-member-in-another-flow'
                    if self.other_flow(rec, tid)
                    or self.downstream_of_other_flow(rec, tid) else ''),
                       f'{tid} entered job preparation although its '
                       f'prerequisites on group members '
                       f'{sorted(rec["group"] - {tid})} are not satisfied '
                       f'by what they completed since the trigger '
                       f'({sorted(rec["facts"])})',
                       {'task': t, 'trigger_it': rec['it']})

    def after_iter(self, drv, pool_snap):
        pool = {t['id']: t for t in pool_snap}
        schd = drv.schd
        for rec in self.recs:
            if rec['suspended'] or schd.stop_mode or schd.reload_pending:
                rec['suspended'] = True
                continue
            age = drv.bus.it - rec['it']
            if not rec['checked_offgroup'] and rec['flow'] != ['none']:
                rec['checked_offgroup'] = True
                self.check_offgroup(rec, pool)
            if age == self.K:
                self.check_start(rec, pool)

    def check_offgroup(self, rec, pool):
        """Right after the command: pooled waiting members have every
        prerequisite on tasks outside the group satisfied."""
        for tid in rec['group']:
            if self.owner.get(tid) is not rec or tid in rec['live_start']:
                continue
            t = pool.get(tid)
            if t is None or t['status'] != 'waiting':
                continue
            self.n['offgroup_checks'] += 1
            bad = [x for x in t['prereqs']
                   if f'{x[0]}/{x[1]}' not in rec['group'] and not x[3]]
            # an expression that is satisfied anyway is fine
            if bad and not t['prereqs_sat'] and tid in rec['start']:
                self.v('off-group-prerequisite-unsatisfied' + (
                    ':pooled-member-in-another-flow'
                    if self.other_flow(rec, tid) else ''),
                       f'{tid} (group start member of '
                       f'{sorted(rec["group"])}) still waits on '
                       f'{[f"{x[0]}/{x[1]}:{x[2]}" for x in bad]} after the '
                       'trigger', t)
            elif bad and tid not in rec['start']:
                # conditional expressions: judge the expression over the
                # GT with in-group atoms unknown=false, off-group true
                p, n = split_id(tid)
                groups = {}
                for pt, name, out, gi, gs in t.get('prereq_groups', []):
                    groups.setdefault(gi, []).append(
                        (f'{pt}/{name}' in rec['group'], gs))
                stuck = [gi for gi, xs in groups.items()
                         if not any(ing for ing, _ in xs)
                         and not all(gs for _, gs in xs)]
                if stuck:
                    self.v('off-group-prerequisite-unsatisfied' + (
                        ':pooled-member-in-another-flow'
                        if self.other_flow(rec, tid) else ''),
                           f'{tid} (member of {sorted(rec["group"])}) has a '
                           'prerequisite expression made of off-group tasks '
                           f'only that is still unsatisfied: '
                           f'{[f"{x[0]}/{x[1]}:{x[2]}" for x in bad]}', t)

    def check_start(self, rec, pool):
        """K iterations on: group-start members without a live job have
        entered preparation (holds and pause do not block them)."""
        for tid in rec['start']:
            if self.owner.get(tid) is not rec or tid in rec['live_start']:
                continue
            p, n = split_id(tid)
            q = self.gt['tasks'][n]['queue']
            if self.gt['queues'].get(q, {}).get('limit', 0):
                self.n['start_member_in_limited_queue'] += 1
                continue
            b = rec['before'][tid]
            if rec['flow'] == ['none'] and (
                    b is not None and b['flows']
                    or tid in rec['flow_spawned']):
                continue      # active in a flow: no-flow trigger ignored
            self.n['start_checks'] += 1
            if rec['paused']:
                self.n['start_checks_while_paused'] += 1
            if b is not None and b['held']:
                self.n['start_checks_on_held'] += 1
            if not rec['preps'][tid]:
                t = pool.get(tid)
                self.v('start-member-not-run' + (
                    ':pooled-member-in-another-flow'
                    if self.other_flow(rec, tid) else ''),
                       f'{tid}, a group-start member of '
                       f'{sorted(rec["group"])} triggered at iteration '
                       f'{rec["it"]} (flow {rec["flow"]}, paused='
                       f'{rec["paused"]}), has not entered job preparation '
                       f'{self.K} iterations later (now: '
                       f'{t["status"] if t else "not in the pool"})',
                       {'before': b, 'now': t})

    def on_phase_end(self, drv):
        """Members whose in-group prerequisites were satisfied must have
        run, or still be in the pool."""
        if drv.capped:
            return
        pool = {t['id']: t for t in (getattr(drv, 'last_pool', None) or [])}
        auto = (drv.stop_reason or '').endswith('AUTOMATIC')
        for rec in self.recs:
            if rec['suspended'] or rec['flow'] == ['none']:
                continue
            for tid in rec['group'] - rec['start']:
                if self.owner.get(tid) is not rec:
                    continue
                p, n = split_id(tid)
                ok = all(eval_in_group(ar, p, rec['facts'], rec['group'],
                                       self.gt)
                         for ar in wfgen.arrows_at(self.gt, n, p))
                if not ok:
                    self.n['members_never_satisfied'] += 1
                    continue
                self.n['run_once_checks'] += 1
                if rec['preps'][tid]:
                    continue
                t = pool.get(tid)
                if t is not None and not auto and t['status'] == 'waiting' \
                        and not t['prereqs_sat'] and not self.other_flow(
                            rec, tid) and tid not in rec['fed_by_old_job'] \
                        and drv.ended_by_harness == 'stalled' and all(
                            eval_in_group(ar, p, rec['msg_facts'],
                                          rec['group'], self.gt)
                            for ar in wfgen.arrows_at(self.gt, n, p)):
                    # its in-group parents re-ran and reported the outputs
                    # it needs, yet it still waits for them (stall)
                    self.v('member-not-satisfied-by-rerun-outputs',
                           f'{tid} still waits on '
                           f'{[f"{x[0]}/{x[1]}:{x[2]}" for x in t["prereqs"] if not x[3]]}'
                           f' although the members of {sorted(rec["group"])}'
                           f' it depends on re-ran after the trigger at '
                           f'iteration {rec["it"]} and reported those '
                           'outputs', {'now': t, 'msg_facts': sorted(
                               rec['msg_facts'])})
                if t is None or auto:
                    self.v('member-did-not-run' + (
                        ':completed-by-messages-of-its-removed-job'
                        if tid in rec['fed_by_old_job'] else
                        ':pooled-member-in-another-flow'
                        if self.other_flow(rec, tid)
                        or self.downstream_of_other_flow(rec, tid) else
                        ':ran-before-in-flow-merged-at-in-group-parent'
                        if self.ran_in_flow_merged_upstream(rec, tid) else
                        ':rerun-custom-output-ignored'
                        if self.waits_on_rereported_custom_output(rec, tid)
                        else ''),
                           f'{tid}: its prerequisites on the group '
                           f'{sorted(rec["group"])} were all satisfied after '
                           f'the trigger at iteration {rec["it"]} (flow '
                           f'{rec["flow"]}) but it never entered job '
                           'preparation and ' + (
                               'the scheduler shut down by itself'
                               if auto else 'it is not in the pool'),
                           {'now': t, 'facts': sorted(rec['facts'])})

    def summary(self, drv):
        d = dict(self.n)
        d['dropped_members'] = sum(len(r['dropped']) for r in self.recs)
        return d


class C32ClockExpire(Base):
    """Only eligible tasks expire, only after their time; an expired task
    never submits; the expired output spawns exactly the expire children."""
    NAME = 'c32'
    PID = 'C32'

    def __init__(self, case, phase):
        super().__init__(case, phase)
        self.expired: Dict[str, int] = {}     # id -> iteration
        self.bracket = None
        self.manual_ids: Set[str] = set()

    def on_event(self, ev):
        from vlib.gen import c32gen
        k = ev['k']
        gt = self.gt
        if k == 'CMD_EXEC' and ev['cmd'] in ('force_trigger_tasks', 'set'):
            from vlib.e1.monitors import match_ids
            ids = match_ids(ev['args'].get('tasks') or [],
                            ev.get('pool') or [], gt)
            for tid in ids:
                # (a group member with a prerequisite on another member is
                # not itself triggered: it runs when that is satisfied)
                if ev['cmd'] == 'set' or not c32gen.in_group_parent(
                        gt, tid, ids):
                    self.manual_ids.add(tid)
                else:
                    # re-spawned from scratch as an ordinary waiting task
                    self.manual_ids.discard(tid)
                    self.expired.pop(tid, None)
        elif k == 'STATE' and ev['after'][0] == 'expired' and \
                ev['before'][0] != 'expired':
            tid = ev['id']
            p, n = tid.split('/', 1)
            self.n['expiries'] += 1
            now = self.drv.vclock.now
            if n not in gt['expire_offset']:
                self.v('task-without-clock-expire-expired',
                       f'{tid} expired but is not a clock-expire task', ev)
                return
            if ev.get('forced'):
                self.n['forced_expiries'] += 1
                return
            if ev['before'][0] != 'waiting':
                self.v('non-waiting-task-expired',
                       f'{tid} expired from status {ev["before"][0]}', ev)
            t_exp = c32gen.expire_time(gt, n, p)
            if now < t_exp:
                self.v('expired-before-time',
                       f'{tid} expired at {now} but its expiry time is '
                       f'{t_exp} (point + {gt["expire_offset"][n]}s)', ev)
            else:
                self.n['expired_after_time'] += 1
                self.maxlag = max(getattr(self, 'maxlag', 0), now - t_exp)
            schd = self.drv.schd
            it = schd.pool._get_task_by_id(tid)
            if (it is not None and it.is_manual_submit) or \
                    tid in self.manual_ids:
                self.v('manually-triggered-task-expired',
                       f'{tid} expired although it was manually triggered',
                       ev)
            self.expired[tid] = self.drv.bus.it
        elif k == 'PREP':
            for t in ev['tasks']:
                if t['status'] != 'waiting':
                    continue
                self.n['preparations'] += 1
                if t['id'] in self.expired and \
                        t['id'] not in self.manual_ids:
                    self.v('expired-task-submitted',
                           f'{t["id"]} expired at iteration '
                           f'{self.expired[t["id"]]} and then entered job '
                           'preparation', t)
                # a task whose time had passed long ago should have expired
                # instead (recorded, not judged: the statement is "only if")
                n = t['name']
                if n in gt['expire_offset'] and not t['manual'] and \
                        t['id'] not in self.manual_ids:
                    t_exp = c32gen.expire_time(gt, n, t['point'])
                    if self.drv.vclock.now >= t_exp:
                        self.n['prepared_past_expiry_time'] += 1
        elif k == 'SPAWN_IN' and ev['output'] == 'expired':
            self.bracket = {'ev': ev, 'adds': []}
        elif k == 'POOL_ADD' and self.bracket is not None:
            self.bracket['adds'].append(ev['task'])
        elif k == 'SPAWN_OUT' and ev['output'] == 'expired' and \
                self.bracket is not None:
            br, self.bracket = self.bracket, None
            tid = ev['id']
            p, n = tid.split('/', 1)
            kids = set(c32gen.expire_kids(gt, n, p))
            self.n['expire_spawn_checks'] += 1
            for t in br['adds']:
                if t['id'] in kids:
                    continue
                if t['name'] == n and not t['prereqs']:
                    continue         # next parentless instance of itself
                self.v('expire-spawned-non-child',
                       f'{t["id"]} was added to the pool when {tid} '
                       f'completed its expired output but is not one of its '
                       f'expire children {sorted(kids)}', t)
            pool = self.drv.schd.pool
            for kid in kids:
                it = pool._get_task_by_id(kid)
                self.n['expire_child_checks'] += 1
                if it is None:
                    if br['ev']['flows']:
                        self.n['expire_child_not_in_pool'] += 1
                    continue
                ok = any(
                    bool(v) for pr in it.state.prerequisites
                    for key, v in pr.items()
                    if key.task == n and str(key.point) == p
                    and key.output == 'expired')
                if not ok:
                    self.v('expire-child-not-satisfied',
                           f'{kid} is in the pool but its prerequisite '
                           f'{tid}:expired is not satisfied after the '
                           'expired output was completed', {'id': kid})

    def after_iter(self, drv, pool_snap):
        from vlib.gen import c32gen
        gt = self.gt
        now = drv.vclock.now
        for t in pool_snap:
            n = t['name']
            if n in gt['expire_offset'] and t['status'] == 'waiting' and \
                    not t['manual'] and t['id'] not in self.manual_ids:
                if now >= c32gen.expire_time(gt, n, t['point']):
                    self.n['eligible_waiting_past_time_iterations'] += 1

    def summary(self, drv):
        d = dict(self.n)
        d['max_expiry_lag_seconds'] = getattr(self, 'maxlag', 0)
        return d
