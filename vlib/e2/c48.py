"""C48 Installed run directories are numbered and runN tracks the latest.

Monitor shape: random histories of install / reinstall / clean operations
executed through the real `cylc.flow.install.install_workflow`,
`reinstall_workflow` and `cylc.flow.clean.init_clean` in a private HOME; a
small dictionary model of the history (which numbers were ever handed out,
which run directories exist, which numbered run is the most recent) plus
before/after filesystem fingerprints decide each step.
"""
from __future__ import annotations

import asyncio
import hashlib
import logging
import os
import re
import shutil
from pathlib import Path

PID = 'C48'
META = {
    'engine': 'E2 funcmon',
    'level': 'exploration',
    'technique': 'random install/reinstall/clean histories through the real '
                 'functions, judged step by step against a filesystem / '
                 'history model',
    'level_text': (
        'Seeded random histories (numbered, named and un-named installs '
        'from two sources, with and without symlink dirs, reinstall, whole '
        'and targeted clean of latest / older / runN-addressed runs, one or '
        'two workflow names) are executed with the real functions in a '
        'sandbox HOME. After every step the model checks: a numbered '
        'install gets the successor of the highest number ever handed out '
        '(so never a number used before, even if its holder was cleaned), '
        'the new directory did not exist and no pre-existing run directory '
        'changed, and runN is a link to the most recent numbered run while '
        'that run exists. Held = no disagreement on the histories explored.'),
    'level_note': 'history model in this module is trusted; rsync and the '
                  'filesystem are part of the trusted base',
    'design_ref': 'DESIGN.md §5 C48',
    'budget': {'quick': 120, 'thorough': 900},
}
RULE = ('case = one history (list of operation descriptors); distinct by '
        'the executed operation list; non-trivial when it contains >= 3 '
        'successful numbered installs and >= 1 clean that removed a run')
ASSUMPTIONS = [
    '"without reusing a number" is read literally over the whole history: '
    'a number whose earlier holder was removed by cylc clean must not be '
    'handed out again (DESIGN §5 C48)',
    '"runN always points to the most recent run" is judged while the most '
    'recently installed numbered run still exists; after that run has been '
    'cleaned, an absent runN is accepted (counted as '
    'runN_absent_after_latest_cleaned) and a present runN must point to an '
    'existing numbered run',
    'an install that raises but leaves a new run directory behind (source '
    'mismatch is detected after the copy) is modelled as having consumed '
    'that number',
    'each operation is a separate CLI process in real use: the harness '
    'removes the cylc-install / cylc-reinstall log handlers between '
    'operations so one operation does not append to the previous run\'s '
    'install log',
    'only operations named by the property are generated (no manual rm)',
    'the rsync subprocess of install/reinstall is replaced, in 31 of 32 '
    'histories, by an in-process copy with the same semantics for the '
    'options cylc passes (-a, anchored --exclude, --delete, --dry-run); '
    'about one history in 32 uses the real rsync (spawning rsync costs ~0.3 s '
    'CPU here); copying itself is not what the property is about',
    'symlink-dir histories pass --symlink-dirs style configuration to every '
    'install of that history',
]
MIN = {
    'numbering_checks': 2500, 'runN_checks': 7000,
    'install_after_clean_latest': 500, 'install_after_clean_older': 150,
    'overwrite_attempts': 120, 'preexisting_run_dirs_compared': 7000,
    'reinstall_ok': 400, 'clean_removed_run': 1200,
    'histories_real_rsync': 30,
    'histories_with_two_digit_run_numbers': 60,
}
CASE_TIMEOUT = 120
NCASES = {'quick': 1600, 'thorough': 24000}


def ncases(tier):
    return NCASES[tier]


RUN_RE = re.compile(r'^run(\d+)$')

_HOME = None


def setup_shard(ctx):
    global _HOME
    _HOME = os.path.expanduser('~')
    assert _HOME.startswith(ctx.workdir), (_HOME, ctx.workdir)
    import cylc.flow.clean  # noqa: F401
    import cylc.flow.install  # noqa: F401
    import cylc.flow.scripts.clean  # noqa: F401
    logging.getLogger('cylc').setLevel(logging.CRITICAL)
    FakeRsyncPopen.real = cylc.flow.install.Popen


# ---------------------------------------------------------------------------
# filesystem observation (own code)


def fingerprint(root):
    """{relpath: (kind, digest|target)} of a tree, not following links."""
    out = {}
    if os.path.islink(root):
        out['.'] = ('link', os.readlink(root))
        return out
    if not os.path.isdir(root):
        if os.path.lexists(root):
            out['.'] = ('file', _digest(root))
        return out
    out['.'] = ('dir', '')
    for dirpath, dirnames, filenames in os.walk(root):
        for n in list(dirnames):
            p = os.path.join(dirpath, n)
            rel = os.path.relpath(p, root)
            if os.path.islink(p):
                out[rel] = ('link', os.readlink(p))
                dirnames.remove(n)
            else:
                out[rel] = ('dir', '')
        for n in filenames:
            p = os.path.join(dirpath, n)
            rel = os.path.relpath(p, root)
            if os.path.islink(p):
                out[rel] = ('link', os.readlink(p))
            else:
                out[rel] = ('file', _digest(p))
    return out


def _digest(p):
    try:
        with open(p, 'rb') as f:
            return hashlib.sha1(f.read()).hexdigest()[:12]
    except OSError as exc:
        return f'unreadable:{type(exc).__name__}'


def list_runs(wdir, skip=()):
    """Run directories found under ~/cylc-run/<name> (or <name> itself).

    skip: entry names that are other (nested) workflows, not runs."""
    runs = {}
    if not os.path.isdir(wdir):
        return runs
    if os.path.exists(os.path.join(wdir, 'flow.cylc')):
        runs['.'] = wdir
    for n in sorted(os.listdir(wdir)):
        p = os.path.join(wdir, n)
        if n in ('runN', '_cylc-install') or n in skip:
            continue
        if os.path.isdir(p) and os.path.exists(
                os.path.join(p, 'flow.cylc')):
            runs[n] = p
    return runs


def run_roots(rundir):
    """The run dir plus the targets of its top-level symlink dirs."""
    roots = [rundir]
    if os.path.islink(rundir):
        roots.append(os.path.realpath(rundir))
    for d in ('log', 'log/job', 'share', 'share/cycle', 'work'):
        p = os.path.join(rundir, d)
        if os.path.islink(p):
            roots.append(os.path.realpath(p))
    return roots


def fp_run(roots):
    return {r: fingerprint(r) for r in roots}


def diff_fp(a, b, limit=6):
    out = []
    for r in a:
        fa, fb = a[r], b.get(r, {})
        for k in sorted(set(fa) | set(fb)):
            if fa.get(k) != fb.get(k):
                out.append(f'{r}/{k}: {fa.get(k)} -> {fb.get(k)}')
                if len(out) >= limit:
                    return out
    return out


# ---------------------------------------------------------------------------
# in-process stand-in for the rsync subprocess
#
# Spawning rsync costs ~0.3 s of CPU per call in this sandbox (three
# processes), which would cap a quick run at a few hundred installs.  The
# property is about numbering / runN / not overwriting, not about rsync, so
# most histories copy with this stand-in (same semantics for the options
# cylc passes: -a, anchored --exclude=/name, --delete, --dry-run) and a
# fixed fraction of histories keep the real rsync as a cross-check.


def _fake_rsync(cmd):
    opts, src, dst = cmd[1:-2], cmd[-2], cmd[-1]
    delete = '--delete' in opts
    dry = '--dry-run' in opts
    excludes = set()
    for o in opts:
        if o.startswith('--exclude='):
            pat = o[len('--exclude='):]
            if not pat.startswith('/') or any(c in pat for c in '*?['):
                raise NotImplementedError(o)
            excludes.add(pat[1:])
        elif o.startswith(('--exclude-from', '--include', '--filter')):
            raise NotImplementedError(o)
    out = []

    def rm(p):
        if os.path.islink(p) or not os.path.isdir(p):
            os.unlink(p)
        else:
            shutil.rmtree(p)

    def sync(s, d, rel):
        names = sorted(os.listdir(s))
        for n in names:
            if not rel and n in excludes:
                continue
            sp, dp, r = os.path.join(s, n), os.path.join(d, n), rel + n
            if os.path.islink(sp):
                t = os.readlink(sp)
                if not (os.path.islink(dp) and os.readlink(dp) == t):
                    out.append(f'send {r} -> {t}')
                    if not dry:
                        if os.path.lexists(dp):
                            rm(dp)
                        os.symlink(t, dp)
            elif os.path.isdir(sp):
                if os.path.islink(dp) or (
                        os.path.lexists(dp) and not os.path.isdir(dp)):
                    if not dry:
                        rm(dp)
                if not os.path.isdir(dp):
                    out.append(f'send {r}/')
                    if dry:
                        continue
                    os.mkdir(dp)
                    shutil.copystat(sp, dp)
                sync(sp, dp, r + '/')
            else:
                same = False
                if os.path.isfile(dp) and not os.path.islink(dp):
                    with open(sp, 'rb') as a, open(dp, 'rb') as b:
                        same = a.read() == b.read()
                if not same:
                    out.append(f'send {r}')
                    if not dry:
                        if os.path.lexists(dp):
                            rm(dp)
                        shutil.copy2(sp, dp)
        if delete:
            for n in sorted(os.listdir(d)):
                if not rel and n in excludes:
                    continue
                if n not in names:
                    out.append(f'del. {rel}{n}')
                    if not dry:
                        rm(os.path.join(d, n))

    src = src.rstrip('/')
    dst = dst.rstrip('/')
    if not os.path.isdir(dst):
        os.makedirs(dst)
    sync(src, dst, '')
    return '\n'.join(out) + ('\n' if out else '')


class FakeRsyncPopen:
    """Popen look-alike for the two rsync calls in cylc.flow.install."""

    real = None

    def __init__(self, cmd, *args, **kwargs):
        self.cmd = list(cmd)
        self.returncode = None
        self._fallback = None
        self._kw = (args, kwargs)

    def communicate(self):
        try:
            out = _fake_rsync(self.cmd)
        except NotImplementedError:
            proc = FakeRsyncPopen.real(self.cmd, *self._kw[0], **self._kw[1])
            res = proc.communicate()
            self.returncode = proc.returncode
            return res
        except OSError as exc:
            self.returncode = 23
            return '', f'rsync stand-in: {exc!r}'
        self.returncode = 0
        return out, ''


# ---------------------------------------------------------------------------
# the history model


class WModel:
    """What the history says about one workflow name."""

    def __init__(self, name):
        self.name = name
        self.used = {}          # number -> step at which it was handed out
        self.cleaned = {}       # number -> (step, survivors at that time)
        self.runs = {}          # dirname -> {'num', 'roots', 'step'}
        self.latest = None      # dirname of most recent numbered install
        self.wipe_step = 0      # last step at which no numbered run was left
        self.since_clean_latest = False
        self.since_clean_older = False

    def numbered_existing(self):
        return sorted(r['num'] for r in self.runs.values()
                      if r['num'] is not None)


def _close_install_logs():
    for n in ('cylc-install', 'cylc-reinstall'):
        lg = logging.getLogger(n)
        for h in list(lg.handlers):
            try:
                h.close()
            except Exception:
                pass
            lg.removeHandler(h)


def _reject_class(exc):
    """Coarse class of an expected rejection (coverage counters only)."""
    s = str(exc)
    for key, pat in (
            ('already_exists', 'already exists'),
            ('nested', 'Nested'),
            ('run_name_with_numbered', '--run-name option not allowed'),
            ('numbered_with_named', 'Use --run-name to create a new run'),
            ('source_mismatch', 'previous installations were from'),
            ('reserved_name', 'reserved'),
            ('max_depth', 'max depth'),
            ('symlink_target_exists', 'Symlink dir target already exists'),
            ('run_name_path', 'Run name cannot be a path'),
            ('invalid_name', 'invalid workflow name'),
    ):
        if pat in s:
            return key
    return 'other'


# ---------------------------------------------------------------------------


def _write(p, text):
    os.makedirs(os.path.dirname(p), exist_ok=True)
    with open(p, 'w') as f:
        f.write(text)


def make_source(path, tag, rng):
    _write(os.path.join(path, 'flow.cylc'),
           f'# {tag}\n[scheduling]\n    [[graph]]\n        R1 = a\n'
           '[runtime]\n    [[a]]\n')
    _write(os.path.join(path, 'bin', 'tool'), f'#!/bin/sh\necho {tag}\n')
    if rng.random() < 0.5:
        _write(os.path.join(path, 'etc', 'data.txt'), f'{tag} data\n')


NAMES = ['foo', 'a/b', 'x1/y/z', 'w-1.2', 'Wf_+@', 'm']
RUN_NAMES = ['alpha', 'beta', 'r-1', 'Run']


def run_case(ctx, i, rng):
    from cylc.flow.clean import init_clean
    from cylc.flow.exceptions import (
        CylcError, InputError, WorkflowFilesError)
    from cylc.flow.install import (
        install_workflow, parse_cli_sym_dirs, reinstall_workflow)
    from cylc.flow.scripts.clean import CleanOptions

    import cylc.flow.install as _inst
    real_rsync = rng.random() < 1 / 32
    _inst.Popen = FakeRsyncPopen.real if real_rsync else FakeRsyncPopen
    ctx.count('histories_real_rsync' if real_rsync
              else 'histories_rsync_stand_in')
    home = _HOME
    for d in ('cylc-run', 'src', 'ext1', 'ext2'):
        shutil.rmtree(os.path.join(home, d), ignore_errors=True)
    os.makedirs(os.path.join(home, 'cylc-run'))
    cylc_run = os.path.join(home, 'cylc-run')
    srcs = {}
    for tag in ('A', 'B'):
        srcs[tag] = os.path.join(home, 'src', 'wf' + tag)
        make_source(srcs[tag], tag, rng)

    primary = rng.choice(NAMES)
    names = [primary]
    r = rng.random()
    if r < 0.12:
        names.append(primary + '/sub')      # nested: expect rejections
    elif r < 0.30:
        names.append(rng.choice([n for n in NAMES if n != primary
                                 and not n.startswith(primary + '/')
                                 and not primary.startswith(n + '/')]))
    models = {n: WModel(n) for n in names}
    symdirs = None
    sym_text = None
    if rng.random() < 0.3:
        sym_text = rng.choice([
            f'run={home}/ext1',
            f'share={home}/ext1, log={home}/ext2',
            f'run={home}/ext1, work={home}/ext2, share/cycle={home}/ext2',
            f'log/job={home}/ext2, share={home}/ext1',
        ])
        symdirs = parse_cli_sym_dirs(sym_text)
        ctx.count('histories_with_symlink_dirs')
    if ctx.tier == 'quick':
        nops = rng.randint(6, 9) if rng.random() < 0.8 else rng.randint(
            10, 14)
    else:
        nops = rng.randint(6, 22)
    history = []
    stats = {'numbered_ok': 0, 'clean_removed': 0}

    def wdir(name):
        return os.path.join(cylc_run, name)

    def runs_of(mm):
        skip = {n[len(mm.name) + 1:].split('/')[0] for n in names
                if n.startswith(mm.name + '/')}
        return list_runs(wdir(mm.name), skip)

    def fail(key, what, **detail):
        ctx.violation(key, what, {
            'history': history, 'names': names, 'symlink_dirs': sym_text,
            **detail})

    def check_runN(m, step, when):
        """runN tracks the most recent numbered run (see ASSUMPTIONS)."""
        ctx.count('runN_checks')
        p = os.path.join(wdir(m.name), 'runN')
        present = os.path.lexists(p)
        if m.latest is not None and m.latest in m.runs:
            ctx.count('runN_checks_latest_exists')
            if not present:
                fail(f'C48:runN-missing-while-latest-exists:{when}',
                     f'{m.name}/runN is missing after step {step} though '
                     f'the most recent run {m.latest} exists',
                     workflow=m.name, latest=m.latest)
                return
            if not os.path.islink(p):
                fail(f'C48:runN-not-a-symlink:{when}',
                     f'{m.name}/runN is not a symlink after step {step}',
                     workflow=m.name)
                return
            tgt = os.readlink(p)
            same = os.path.realpath(p) == os.path.realpath(
                os.path.join(wdir(m.name), m.latest))
            if tgt != m.latest and not same:
                fail(f'C48:runN-points-to-wrong-run:{when}',
                     f'{m.name}/runN -> {tgt} after step {step} but the '
                     f'most recent run is {m.latest}',
                     workflow=m.name, latest=m.latest, runN=tgt)
            elif tgt != m.latest:
                ctx.count('runN_absolute_or_indirect_link')
            return
        # most recent numbered run is gone (or none was ever made)
        if not present:
            if m.latest is not None and m.numbered_existing():
                ctx.count('runN_absent_after_latest_cleaned')
            return
        tgt = os.readlink(p) if os.path.islink(p) else None
        ok = (tgt is not None and RUN_RE.match(os.path.basename(tgt) or '')
              and os.path.isdir(p))
        if not ok:
            fail(f'C48:runN-dangling-or-invalid:{when}',
                 f'{m.name}/runN -> {tgt} after step {step} does not point '
                 'to an existing numbered run', workflow=m.name, runN=tgt)

    def sync_new_runs(m, before_runs, step, op):
        """Register run dirs that appeared; return list of new dirnames."""
        after = runs_of(m)
        new = [d for d in after if d not in before_runs]
        for d in new:
            mm = RUN_RE.match(d)
            num = int(mm.group(1)) if mm else None
            m.runs[d] = {'num': num, 'roots': run_roots(after[d]),
                         'step': step}
        return new, after

    def judge_number(m, d, step, preexisting):
        """A numbered run dir `d` appeared at `step`."""
        num = int(RUN_RE.match(d).group(1))
        ctx.count('numbering_checks')
        ctx.maxc('run_number', num)
        hist_max = max(m.used, default=0)
        if m.since_clean_latest:
            ctx.count('install_after_clean_latest')
        if m.since_clean_older:
            ctx.count('install_after_clean_older')
        if num in m.used:
            survivors = [n for n in m.numbered_existing() if n != num]
            if d in preexisting:
                key = 'C48:install-overwrote-existing-run'
                why = 'the directory still existed'
            elif survivors and num <= max(survivors):
                key = 'C48:number-reused-not-above-surviving-runs'
                why = (f'run{num} was cleaned at step '
                       f'{m.cleaned.get(num, ("?",))[0]}; surviving runs '
                       f'are run{survivors}')
            elif survivors and m.used[num] > m.wipe_step:
                key = 'C48:number-reused-after-cleaning-latest-run'
                why = (f'run{num} was cleaned at step '
                       f'{m.cleaned.get(num, ("?",))[0]} while '
                       f'run{survivors} survived; runN was removed with it '
                       'and numbering fell back to the surviving dirs')
            else:
                key = 'C48:number-reused-after-cleaning-all-runs'
                why = (f'run{num} was cleaned at step '
                       f'{m.cleaned.get(num, ("?",))[0]}; every numbered '
                       f'run had been cleaned by step {m.wipe_step} and '
                       'numbering started again from 1')
            fail(key,
                 f'install at step {step} created {m.name}/run{num}, a '
                 f'number already handed out at step {m.used[num]} ({why})',
                 workflow=m.name, number=num,
                 numbers_handed_out=sorted(m.used),
                 existing=sorted(m.numbered_existing()))
        elif num != hist_max + 1:
            fail('C48:number-not-next-in-sequence',
                 f'install at step {step} created {m.name}/run{num} but '
                 f'the numbers handed out so far are {sorted(m.used)}',
                 workflow=m.name, number=num)
        else:
            ctx.count('fresh_consecutive_number')
        m.used[num] = step
        m.latest = d
        m.since_clean_latest = False
        m.since_clean_older = False
        stats['numbered_ok'] += 1

    def compare_preexisting(pre, step, op, exempt=()):
        """No run dir that existed before the op may have changed."""
        for (name, d), (roots, fp) in pre.items():
            if (name, d) in exempt:
                continue
            ctx.count('preexisting_run_dirs_compared')
            now = fp_run(roots)
            if now != fp:
                fail(f'C48:{op}-modified-existing-run-dir',
                     f'step {step} ({op}) changed the existing run '
                     f'directory {name}/{d}: {diff_fp(fp, now)[:3]}',
                     workflow=name, run=d, changes=diff_fp(fp, now))

    def snapshot_all():
        pre = {}
        for m in models.values():
            for d, rec in m.runs.items():
                pre[(m.name, d)] = (rec['roots'], fp_run(rec['roots']))
        return pre

    # some histories begin with 9-12 plain numbered installs, so that run
    # numbers of different widths (run9, run10, ...) exist when runs are
    # cleaned and installed afterwards
    prelude = rng.randint(9, 12) if rng.random() < 0.08 else 0
    if prelude:
        ctx.count('histories_with_two_digit_run_numbers')
    nops += prelude
    for step in range(1, nops + 1):
        m = models[rng.choice(names) if rng.random() < 0.35 else names[0]]
        forced = step <= prelude
        if forced:
            m = models[names[0]]
        existing = sorted(m.runs)
        r = rng.random()
        if forced or not existing or r < 0.46:
            kind = 'install'
        elif r < 0.74:
            kind = 'clean'
        elif r < 0.84:
            kind = 'reinstall'
        elif r < 0.89:
            kind = 'clean_rm'
        elif r < 0.94:
            kind = 'edit_source'
        else:
            kind = 'install'
        ctx.count('ops')
        if kind == 'edit_source':
            tag = rng.choice(['A', 'B'])
            _write(os.path.join(srcs[tag], 'etc', f'extra{step}.txt'),
                   f'step {step}\n')
            with open(os.path.join(srcs[tag], 'flow.cylc'), 'a') as f:
                f.write(f'# edited at step {step}\n')
            history.append({'step': step, 'op': 'edit_source', 'src': tag})
            continue

        if kind == 'install':
            rr = rng.random()
            if forced:
                rr = 0.5
            run_name, no_run_name = None, False
            if rr < 0.10:
                run_name = rng.choice(RUN_NAMES)
                if existing and rng.random() < 0.5:
                    named = [d for d in existing if not RUN_RE.match(d)
                             and d != '.']
                    if named:
                        run_name = rng.choice(named)
            elif rr < 0.15:
                no_run_name = True
            elif rr < 0.17:
                run_name = rng.choice(['run1', 'run7', 'runN', 'log',
                                       'a/b', '_cylc-install'])
            # source: mostly the one first used for this name
            src_tag = 'A' if rng.random() < 0.9 else 'B'
            desc = {'step': step, 'op': 'install', 'workflow': m.name,
                    'run_name': run_name, 'no_run_name': no_run_name,
                    'source': src_tag}
            pre = snapshot_all()
            before_runs = {mm.name: runs_of(mm)
                           for mm in models.values()}
            target_exists = False
            if run_name and os.path.lexists(
                    os.path.join(wdir(m.name), run_name)):
                target_exists = True
            if no_run_name and os.path.lexists(wdir(m.name)):
                target_exists = True
            if target_exists:
                ctx.count('overwrite_attempts')
            outcome = None
            try:
                ret = install_workflow(
                    Path(srcs[src_tag]), workflow_name=m.name,
                    run_name=run_name, no_run_name=no_run_name,
                    cli_symlink_dirs=symdirs)
                outcome = 'ok'
                desc['result'] = str(ret[3])
                ctx.count('install_ok')
            except (WorkflowFilesError, InputError) as exc:
                outcome = 'rejected'
                rc = _reject_class(exc)
                desc['result'] = f'rejected:{rc}'
                ctx.count('install_rejected:' + rc)
                if (rc == 'already_exists' and run_name is None
                        and not no_run_name):
                    # "successive installs create run1, run2, ...": the
                    # number chosen for a numbered install must be free
                    history.append(desc)
                    fail('C48:numbered-install-refused:chosen-number-'
                         'already-exists',
                         f'numbered install of {m.name} at step {step} was '
                         f'refused: {str(exc)[:160]}',
                         workflow=m.name,
                         existing=sorted(m.numbered_existing()))
                    history.pop()
            finally:
                _close_install_logs()
            history.append(desc)
            # what appeared?
            for mm in models.values():
                new, after = sync_new_runs(
                    mm, before_runs[mm.name], step, 'install')
                if mm is not m and new:
                    fail('C48:install-created-run-under-other-workflow',
                         f'step {step} created {mm.name}/{new}',
                         workflow=mm.name)
                if mm is m:
                    if outcome == 'ok' and len(new) != 1:
                        if target_exists:
                            fail('C48:install-overwrote-existing-run',
                                 f'step {step}: install into existing '
                                 f'{m.name}/{run_name or "."} succeeded',
                                 workflow=m.name)
                        else:
                            raise RuntimeError(
                                f'install ok but new run dirs = {new}')
                    if outcome == 'rejected' and new:
                        ctx.count('install_raised_but_created_run')
                    for d in new:
                        if RUN_RE.match(d):
                            judge_number(m, d, step, before_runs[m.name])
                            if outcome == 'ok' and desc['result'] != (
                                    f'{m.name}/{d}'):
                                fail('C48:install-returned-wrong-id',
                                     f'step {step} returned '
                                     f'{desc["result"]} but created {d}',
                                     workflow=m.name)
                        elif d == '.':
                            ctx.count('install_no_run_name_ok')
                        else:
                            ctx.count('install_named_ok')
            compare_preexisting(pre, step, 'install')
            for mm in models.values():
                check_runN(mm, step, 'after-install')
            continue

        # operations on an existing run
        d = rng.choice(existing)
        if kind == 'clean' and m.latest in m.runs and rng.random() < 0.45:
            d = m.latest
        rundir = os.path.join(wdir(m.name), d) if d != '.' else wdir(m.name)
        rid = m.name if d == '.' else f'{m.name}/{d}'

        if kind == 'reinstall':
            try:
                src = os.readlink(os.path.join(
                    rundir if d == '.' else wdir(m.name),
                    '_cylc-install', 'source'))
            except OSError:
                ctx.count('discard_reinstall_no_source_link')
                continue
            desc = {'step': step, 'op': 'reinstall', 'id': rid}
            pre = snapshot_all()
            before_runs = {mm.name: runs_of(mm)
                           for mm in models.values()}
            try:
                reinstall_workflow(
                    source=Path(src), named_run=rid, rundir=Path(rundir))
                desc['result'] = 'ok'
                ctx.count('reinstall_ok')
            except WorkflowFilesError as exc:
                desc['result'] = 'rejected:' + _reject_class(exc)
                ctx.count('reinstall_rejected')
            finally:
                _close_install_logs()
            history.append(desc)
            for mm in models.values():
                new, _ = sync_new_runs(mm, before_runs[mm.name], step,
                                       'reinstall')
                if new:
                    fail('C48:reinstall-created-run-dir',
                         f'step {step} (reinstall {rid}) created '
                         f'{mm.name}/{new}', workflow=mm.name)
            compare_preexisting(pre, step, 'reinstall',
                                exempt={(m.name, d)})
            for mm in models.values():
                check_runN(mm, step, 'after-reinstall')
            continue

        # clean / clean_rm
        via_runN = False
        cid = rid
        if (d == m.latest and rng.random() < 0.3 and os.path.islink(
                os.path.join(wdir(m.name), 'runN'))):
            cid = f'{m.name}/runN'
            via_runN = True
        rm = None
        if kind == 'clean_rm':
            rm = [rng.choice(['share', 'log', 'work:share/cycle', 'bin',
                              'etc', 'log/install', '**/tool'])]
        desc = {'step': step, 'op': 'clean', 'id': cid, 'rm': rm}
        pre = snapshot_all()
        before_runs = {mm.name: runs_of(mm)
                       for mm in models.values()}
        opts = CleanOptions(local_only=True, rm_dirs=rm or [])
        try:
            asyncio.run(init_clean(cid, opts))
            desc['result'] = 'ok'
        except (CylcError, OSError) as exc:
            desc['result'] = f'raised:{type(exc).__name__}'
            ctx.count('clean_raised')
        history.append(desc)
        ctx.count('clean_ops')
        if via_runN:
            ctx.count('clean_via_runN')
        removed_any = False
        for mm in models.values():
            after = runs_of(mm)
            gone = [x for x in mm.runs if x not in after]
            for x in gone:
                removed_any = True
                rec = mm.runs.pop(x)
                if (mm.name, x) != (m.name, d):
                    fail('C48:clean-removed-other-run',
                         f'step {step} (clean {cid}) removed '
                         f'{mm.name}/{x}', workflow=mm.name)
                ctx.count('clean_removed_run')
                stats['clean_removed'] += 1
                if rec['num'] is not None:
                    mm.cleaned[rec['num']] = (
                        step, sorted(mm.numbered_existing()))
                    if x == mm.latest:
                        mm.since_clean_latest = True
                        ctx.count('clean_latest_numbered')
                        if not mm.numbered_existing():
                            ctx.count('clean_last_remaining_run')
                    if not mm.numbered_existing():
                        mm.wipe_step = step
                    else:
                        mm.since_clean_older = True
                        ctx.count('clean_older_numbered')
            new = [x for x in after if x not in before_runs[mm.name]]
            if new:
                fail('C48:clean-created-run-dir',
                     f'step {step} created {mm.name}/{new}',
                     workflow=mm.name)
        if kind == 'clean' and not removed_any:
            ctx.count('clean_did_not_remove_run')
        exempt = {(m.name, d)}
        compare_preexisting(
            {k: v for k, v in pre.items()
             if k[1] in models[k[0]].runs or k in exempt},
            step, 'clean', exempt=exempt)
        for mm in models.values():
            check_runN(mm, step, 'after-clean')

    nontrivial = stats['numbered_ok'] >= 3 and stats['clean_removed'] >= 1
    key = tuple(
        (h['op'], h.get('workflow') or h.get('id') or h.get('src'),
         h.get('run_name'), h.get('no_run_name'), h.get('source'),
         tuple(h.get('rm') or ()), h.get('result'))
        for h in history)
    ctx.evaluated(key, nontrivial=nontrivial)
    ctx.count('histories')
    if nontrivial and (i // max(1, ctx.nshards)) % 9 == 0:
        ctx.sample({'names': names, 'symlink_dirs': sym_text,
                    'history': history,
                    'final': {n: {'numbers_handed_out': sorted(mm.used),
                                  'existing': sorted(mm.runs),
                                  'latest': mm.latest}
                              for n, mm in models.items()}})
