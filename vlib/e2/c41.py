"""C41 Literal task environment values reach the job unchanged.

Monitor shape: generated ``[runtime][<task>][environment]`` sections are
written to a flow.cylc, loaded with the real ``WorkflowConfig``, turned into
job scripts by the real ``JobFileWriter.write`` and the generated
``cylc__job__inst__user_env`` function is then *evaluated by bash*, which
prints every variable (attributes + value) NUL-separated.  The oracle knows
only the configured text: a value without shell-expansion characters must
come back byte for byte (a leading ``~login`` prefix is compared with what
the same bash expands ``~login`` to), and ``${NAME}`` references evaluate
according to a sequential "defined in configuration order" model.
"""
from __future__ import annotations

import os
import re
import subprocess
from types import SimpleNamespace

PID = 'C41'
META = {
    'engine': 'E2 funcmon',
    'level': 'exploration',
    'technique': 'differential monitor: configured environment text vs the '
                 'values bash reports after evaluating the generated job '
                 'script function',
    'level_text': (
        'Random [environment] sections (plain/quoted/triple-quoted config '
        'syntax; spaces, single quotes, #, =, ~ forms, shell metacharacters, '
        'unicode; back and forward ${NAME} references) go through the real '
        'WorkflowConfig loader and the real JobFileWriter.write; bash sources '
        'the generated cylc__job__inst__user_env function and prints each '
        'variable and its export attribute. Held = every value observed in '
        'bash equalled the configured one on all sections explored.'),
    'level_note': 'bash 5 and the parsec config syntax (quoted value = text '
                  'between the quotes, stripped) are trusted; only '
                  'single-line values; no inheritance/broadcast layering.',
    'design_ref': 'DESIGN.md §5 C41',
    'budget': {'quick': 120, 'thorough': 900},
}
RULE = ('case = one flow.cylc with several tasks, each with its own generated '
        '[environment] section, evaluated in one bash process; evaluations '
        'count sections (tasks); distinct by the ordered (name, value, config '
        'quoting form) list of the section; non-trivial when the section '
        'holds at least one value with a hazardous character (space, quote, '
        '#, =, ~, shell metacharacter, non-ASCII) or a ${NAME} reference')
ASSUMPTIONS = [
    'shell-expansion characters are $, backquote, backslash and double '
    'quote; values containing them are not generated except for the '
    '${NAME}/$NAME references used to observe definition order',
    'a leading ~ is its own class: when the characters up to the first "/" '
    'form a login name ([A-Za-z0-9_.+-]*) the expected value is what the '
    'same bash (same HOME, same cwd) expands that tilde-prefix to, followed '
    'by the rest literally; otherwise the value is expected literally',
    'tilde values never contain ":" or a second "~" (bash assignment-context '
    'tilde expansion after ":" would make the expectation ambiguous)',
    'values have no leading/trailing whitespace and are single-line (the '
    'config language strips and the property speaks of printable values)',
    'variable names are identifiers that are not bash special variables',
    'a forward reference to a variable defined later in the same section is '
    'expected to expand to the empty string (consequence of "defined in '
    'configuration order"; the names are not otherwise in the environment)',
]
MIN = {
    'vars_checked': 4000, 'sections_evaluated': 500,
    'class:literal': 2000, 'class:tilde': 150, 'class:ref_back': 150,
    'class:ref_fwd': 50, 'class:empty': 20,
    'haz:space': 300, 'haz:squote': 150, 'haz:hash': 100, 'haz:eq': 100,
    'haz:nonascii': 150, 'haz:meta': 300, 'haz:inner_tilde': 50,
    'export_checked': 4000, 'sections_with_filter': 300,
    'include_list_in_another_order': 100,
}
NCASES = {'quick': 480, 'thorough': 5000}
CASE_TIMEOUT = 60

# ------------------------------------------------------------------ alphabet
ASCII_WORDS = ['a', 'b', 'foo', 'bar', 'Baz', 'x1', 'data', 'run', 'N', '0',
               '42', 'true', 'echo', 'q', 'zz']
UNI_WORDS = ['café', 'naïve', '日本', 'Ω', 'ß', 'жук', '☃', '𝔘', 'ü', '—']
META_CH = list(';&|()<>*?[]{}!,@%^+-./:')
# names that cannot be real commands: used after an unquoted metacharacter
SAFE_LETTERS = 'qxzjk019'
LOGINS = ['', 'root', 'nobody', 'nosuch_usr9', '+']
LOGIN_RE = re.compile(r'[A-Za-z0-9_.+-]*\Z')
SHELL_BREAKERS = set(";&|()<>'")   # live when a word is left unquoted

NAME_POOL = ['A', 'B', 'C', 'D', 'FOO', 'BAR', 'my_var', 'x', 'Y2', 'var_3',
             'INPUT_DIR', 'OUT', 'n', 'Zed', '_u', '__v', 'a1b2', 'MODEL',
             'opt', 'K9', 'T_', 'w', 'LONG_VARIABLE_NAME_01', 'e', 'Path_',
             'home_', 'p', 'Q', 'rr', 'S3']

_TILDE: dict = {}
_SHARD = {}


def ncases(tier):
    return NCASES[tier]


# --------------------------------------------------------------- generation
def gen_literal(rng, minlen=1):
    """A value without $, backquote, backslash, double quote, newline.

    No leading/trailing whitespace; does not start with '~'.
    """
    n = rng.choice([1, 1, 2, 2, 3, 4, 6])
    toks = []
    for _ in range(n):
        r = rng.random()
        if r < 0.40:
            toks.append(rng.choice(ASCII_WORDS))
        elif r < 0.52:
            toks.append(rng.choice(UNI_WORDS))
        elif r < 0.66:
            toks.append(' ' * rng.choice([1, 1, 1, 2, 3]))
        elif r < 0.74:
            toks.append("'")
        elif r < 0.80:
            toks.append(rng.choice(['#', ' #', '# ', ' # ']))
        elif r < 0.86:
            toks.append('=')
        elif r < 0.90:
            toks.append(rng.choice(['~', ' ~', '~/', ' ~root']))
        else:
            toks.append(rng.choice(META_CH))
    v = ''.join(toks).strip()
    while v.startswith('~'):
        v = v[1:].strip()
    if "'''" in v:
        v = v.replace("'''", "''")
    if len(v) < minlen:
        v = rng.choice(ASCII_WORDS)
    return v


def gen_tilde(rng):
    """'~' + login + optional '/' + literal tail (no ':' and no '~')."""
    login = rng.choice(LOGINS)
    v = '~' + login
    if rng.random() < 0.7:
        tail = gen_literal(rng, 0) if rng.random() < 0.9 else ''
        tail = tail.replace(':', '').replace('~', '').strip()
        v += '/' + tail
        v = v.rstrip()
    return v


def gen_tilde_odd(rng):
    """'~' followed by characters that cannot be a login name."""
    w = lambda: ''.join(rng.choice(SAFE_LETTERS)
                        for _ in range(rng.randint(1, 3)))
    odd = rng.choice(list(";&|()<>'#*?[]{}!=,@%^") + UNI_WORDS + [' '])
    # a blank must stay inside the prefix (a stripped "~0 " would be the
    # directory-stack form ~0, which is a login-like prefix after all)
    name = rng.choice(['', w()]) + odd + (
        w() if odd == ' ' else rng.choice(['', w()]))
    v = '~' + name
    if rng.random() < 0.4:
        v += '/' + w() + rng.choice(['', ' ' + w()])
    return v.rstrip()


def config_forms(value):
    """Config spellings whose meaning is unambiguous for this value."""
    forms = ['DQ', 'TDQ']           # value never contains a double quote
    if "'" not in value:
        forms += ['SQ', 'TSQ']
    if '#' not in value and value[:1] not in ('"', "'"):
        forms.append('U')
    return forms


def render(name, value, form, comment):
    q = {'U': ('', ''), 'DQ': ('"', '"'), 'SQ': ("'", "'"),
         'TDQ': ('"""', '"""'), 'TSQ': ("'''", "'''")}[form]
    line = f'            {name} = {q[0]}{value}{q[1]}'
    if comment and form != 'U':
        line += '  # a comment " \' $X'
    return line


def gen_section(rng):
    """-> list of dicts(name, value, cls, form, comment, refs)."""
    nv = rng.choice([1, 2, 3, 4, 5, 6, 8, 10, 12])
    names = rng.sample(NAME_POOL, nv)
    odd_allowed = rng.random() < 0.10
    items = []
    for idx, name in enumerate(names):
        r = rng.random()
        parts = None
        if r < 0.58:
            cls, value = 'literal', gen_literal(rng)
        elif r < 0.61:
            cls, value = 'empty', ''
        elif r < 0.75:
            cls, value = 'tilde', gen_tilde(rng)
        elif r < 0.80 and odd_allowed:
            odd_allowed = False      # at most one per section
            cls, value = 'tilde_odd', gen_tilde_odd(rng)
        elif r < 0.95 and nv > 1:
            # reference: literal pieces around ${NAME} / $NAME
            others = [n for n in names if n != name]
            target = rng.choice(others)
            back = names.index(target) < idx
            cls = 'ref_back' if back else 'ref_fwd'
            pre = gen_literal(rng, 0) if rng.random() < 0.6 else ''
            post = gen_literal(rng, 0) if rng.random() < 0.6 else ''
            pre = pre.lstrip()
            post = post.rstrip()
            if rng.random() < 0.7 or (post[:1].isalnum() or post[:1] == '_'):
                ref = '${' + target + '}'
            else:
                ref = '$' + target
            if pre.startswith('~'):
                pre = 'p' + pre
            parts = [pre, ('ref', target), post]
            value = pre + ref + post
            if rng.random() < 0.15 and len(others) > 1:
                t2 = rng.choice(others)
                parts += [('ref', t2), '']
                value += '${' + t2 + '}'
        else:
            cls, value = 'literal', gen_literal(rng)
        form = rng.choice(config_forms(value))
        items.append({
            'name': name, 'value': value, 'cls': cls, 'form': form,
            'comment': rng.random() < 0.15, 'parts': parts,
        })
    return items


# ------------------------------------------------------------------- oracle
def expected_values(items):
    """Sequential model: definitions take effect in configuration order."""
    env = {}
    out = []
    for it in items:
        v, cls = it['value'], it['cls']
        if cls in ('literal', 'empty'):
            want = v
        elif cls in ('tilde', 'tilde_odd'):
            prefix, sep, rest = v[1:].partition('/')
            if LOGIN_RE.match(prefix) and prefix in _TILDE:
                want = _TILDE[prefix] + sep + rest
            else:
                want = v
        else:
            want = ''.join(
                p if isinstance(p, str) else env.get(p[1], '')
                for p in it['parts'])
        env[it['name']] = want
        out.append(want)
    return out


def hazards(value):
    h = set()
    for ch in value:
        if ch == ' ':
            h.add('space')
        elif ch == "'":
            h.add('squote')
        elif ch == '#':
            h.add('hash')
        elif ch == '=':
            h.add('eq')
        elif ch == '~':
            h.add('inner_tilde' if not value.startswith('~') else 'tilde')
        elif ord(ch) > 127:
            h.add('nonascii')
        elif ch in ';&|()<>*?[]{}!,@%^':
            h.add('meta')
    return h


def char_class(ch):
    if ch == ' ':
        return 'space'
    if ch == "'":
        return 'single-quote'
    if ch == '#':
        return 'hash'
    if ch == '=':
        return 'equals'
    if ch == '~':
        return 'tilde'
    if ord(ch) > 127:
        return 'non-ascii'
    if ch.isalnum() or ch == '_':
        return 'word-char'
    return 'metachar'


def diff_class(got, want):
    for a, b in zip(got, want):
        if a != b:
            return char_class(b)
    if len(got) < len(want):
        return 'truncated-before-' + char_class(want[len(got)])
    return 'extra-text'


# --------------------------------------------------------------------- bash
def bash_env(ctx):
    home = _SHARD['home']
    return {'HOME': home, 'PATH': '/usr/bin:/bin', 'LC_ALL': 'C.UTF-8',
            'TMPDIR': _SHARD['cwd']}


def run_bash(script_path):
    proc = subprocess.run(
        ['bash', '--norc', '--noprofile', script_path],
        cwd=_SHARD['cwd'], env=_SHARD['env'], stdin=subprocess.DEVNULL,
        stdout=subprocess.PIPE, stderr=subprocess.PIPE, timeout=50)
    return proc


def setup_shard(ctx):
    base = os.path.join(ctx.workdir, 'c41')
    home = os.path.join(base, 'bash home')     # a space in HOME on purpose
    cwd = os.path.join(base, 'cwd')
    for d in (home, cwd):
        os.makedirs(d, exist_ok=True)
    _SHARD.update(base=base, home=home, cwd=cwd)
    _SHARD['env'] = bash_env(ctx)
    # bash's own tilde expansion of the login prefixes (reference)
    script = os.path.join(base, 'tilde.sh')
    with open(script, 'w') as f:
        f.write("printf '%s\\0' " + ' '.join('~' + x for x in LOGINS) + '\n')
    out = run_bash(script).stdout.decode('utf8').split('\0')[:-1]
    assert len(out) == len(LOGINS), out
    _TILDE.clear()
    _TILDE.update(dict(zip(LOGINS, out)))
    assert _TILDE[''] == home and _TILDE['nosuch_usr9'] == '~nosuch_usr9'
    # warm imports
    from cylc.flow.config import WorkflowConfig  # noqa: F401
    from cylc.flow.job_file import JobFileWriter  # noqa: F401
    from cylc.flow.platforms import platform_from_name
    _SHARD['platform'] = platform_from_name()
    import logging
    from cylc.flow import LOG
    LOG.setLevel(logging.CRITICAL)


def extract_function(text):
    """The cylc__job__inst__user_env function from a job script."""
    lines = text.split('\n')
    try:
        i = lines.index('cylc__job__inst__user_env() {')
    except ValueError:
        return None
    j = i
    while j < len(lines) and lines[j] != '}':
        j += 1
    if j >= len(lines):
        return None
    return '\n'.join(lines[i:j + 1]) + '\n'


def job_conf_for(cfg, tname, wname):
    tdef = cfg.get_taskdef(tname)
    rtc = tdef.rtconfig
    conf = {
        'platform': _SHARD['platform'],
        'workflow_name': wname, 'task_id': f'1/{tname}',
        'job_d': f'1/{tname}/01', 'execution_time_limit': None,
        'directives': {}, 'environment': rtc['environment'],
        'param_var': tdef.param_var,
        'namespace_hierarchy': tdef.namespace_hierarchy,
        'try_num': 1, 'flow_nums': {1}, 'uuid_str': 'c41-uuid',
        'work_d': rtc['work sub-directory'],
        'job_runner_name': 'background',
        'job_runner_command_template': None,
        'dependencies': [], 'submit_num': 1, 'job_file_path': None,
    }
    for p in ('init-', 'env-', 'err-', 'pre-', '', 'post-', 'exit-'):
        conf[p + 'script'] = rtc[p + 'script']
    return conf


# --------------------------------------------------------------------- case
def run_case(ctx, i, rng):
    from cylc.flow.config import WorkflowConfig
    from cylc.flow.job_file import JobFileWriter

    ntask = rng.choice([6, 10, 14, 20])
    sections = [gen_section(rng) for _ in range(ntask)]
    tnames = [f't{k}' for k in range(ntask)]
    cdir = os.path.join(_SHARD['base'], 'case')
    os.makedirs(cdir, exist_ok=True)
    lines = ['[scheduling]', '    [[graph]]',
             '        R1 = ' + ' & '.join(tnames), '[runtime]']
    kept_sections = []
    for tn, items in zip(tnames, sections):
        lines.append(f'    [[{tn}]]')
        lines.append('        script = true')
        lines.append('        [[[environment]]]')
        for it in items:
            lines.append(render(it['name'], it['value'], it['form'],
                                it['comment']))
        # [environment filter]: the kept variables stay in the order of
        # their definitions, whatever the order of the include list
        names = [it['name'] for it in items]
        incl, excl = [], []
        r = rng.random()
        if len(names) > 1 and r < 0.30:
            if r < 0.18 or r >= 0.25:
                incl = rng.sample(names, rng.randint(1, len(names)))
            if r >= 0.18:
                excl = rng.sample(names, rng.randint(1, len(names) - 1))
            kept = [it for it in items
                    if (not incl or it['name'] in incl)
                    and it['name'] not in excl]
            if kept:
                lines.append('        [[[environment filter]]]')
                if incl:
                    lines.append('            include = ' + ', '.join(incl))
                if excl:
                    lines.append('            exclude = ' + ', '.join(excl))
                ctx.count('sections_with_filter')
                if incl and [n for n in names if n in incl] != incl:
                    ctx.count('include_list_in_another_order')
                items = kept
        kept_sections.append(items)
    sections = kept_sections
    flow = os.path.join(cdir, 'flow.cylc')
    with open(flow, 'w', encoding='utf8') as f:
        f.write('\n'.join(lines) + '\n')
    opts = SimpleNamespace(templatevars=None, templatevars_file=None)
    wname = f'c41w{i}'
    try:
        cfg = WorkflowConfig(wname, flow, opts)
    except Exception as exc:
        forms = sorted({it['form'] for s in sections for it in s})
        ctx.evaluated(('load', i), nontrivial=False)
        ctx.violation(
            f'C41:loader-rejected:{type(exc).__name__}',
            f'flow.cylc with only well-formed [environment] items was '
            f'rejected: {type(exc).__name__}: {str(exc)[:200]}',
            {'flow': '\n'.join(lines), 'forms': forms})
        return
    ctx.count('configs_loaded')

    writer = JobFileWriter()
    script = ['cd ' + _sh(_SHARD['cwd'])]
    live = []   # (task index, items, want)
    for k, (tn, items) in enumerate(zip(tnames, sections)):
        loaded = cfg.cfg['runtime'][tn]['environment']
        got_cfg = [(n, str(v)) for n, v in loaded.items()]
        want_cfg = [(it['name'], it['value']) for it in items]
        if got_cfg != want_cfg:
            bad = next((a, b) for a, b in zip(got_cfg + [None], want_cfg +
                                              [None]) if a != b)
            it = items[[x['name'] for x in items].index(bad[1][0])] \
                if bad[1] else items[0]
            ctx.count('sections_evaluated')
            ctx.evaluated(('cfg', tuple(want_cfg)), nontrivial=True)
            ctx.violation(
                f'C41:loader-value-differs:{it["form"]}',
                f'config item {render(it["name"], it["value"], it["form"], it["comment"]).strip()!r} '
                f'was loaded as {bad[0]!r}',
                {'section': items, 'loaded': got_cfg})
            continue
        jobfile = os.path.join(cdir, f'job{k}')
        try:
            writer.write(jobfile, job_conf_for(cfg, tn, wname),
                         check_syntax=False)
            with open(jobfile, encoding='utf8') as f:
                func = extract_function(f.read())
        except Exception as exc:
            func = None
            ctx.count('job_write_raised')
            ctx.violation(
                f'C41:job-write-raised:{type(exc).__name__}',
                f'JobFileWriter.write raised {exc!r}', {'section': items})
            continue
        if func is None:
            ctx.violation(
                'C41:user-env-function-missing',
                'job script has no cylc__job__inst__user_env function',
                {'section': items})
            continue
        fpath = os.path.join(cdir, f'func{k}.sh')
        with open(fpath, 'w', encoding='utf8') as f:
            f.write(func)
        fields = ' '.join(
            f'"${{{it["name"]}@a}}" "${{{it["name"]}-<UNSET>}}"'
            for it in items)
        # one shell, no subshell (a fork costs tens of ms here): the
        # function is sourced, run, reported and everything is unset again
        script.append(f"printf 'BEGIN{k}\\0'")
        script.append(f". {_sh(fpath)} || printf 'SOURCE-FAILED\\0'")
        script.append('cylc__job__inst__user_env </dev/null')
        script.append(f"printf '%s\\0' FIELDS {fields}")
        script.append(f"printf 'END{k}\\0'")
        script.append('unset -f cylc__job__inst__user_env')
        script.append('unset -v ' + ' '.join(NAME_POOL))
        live.append((k, items, func))
    if not live:
        return
    spath = os.path.join(cdir, 'eval.sh')
    with open(spath, 'w', encoding='utf8') as f:
        f.write('\n'.join(script) + '\n')
    proc = run_bash(spath)
    ctx.count('bash_calls')
    out = proc.stdout.decode('utf8', 'surrogateescape')
    err = proc.stderr.decode('utf8', 'replace')
    toks = out.split('\0')
    # cut into blocks
    blocks = {}
    pos = 0
    for k, items, func in live:
        try:
            b = toks.index(f'BEGIN{k}', pos)
            e = toks.index(f'END{k}', b)
        except ValueError:
            blocks[k] = None
            continue
        blocks[k] = toks[b + 1:e]
        pos = e + 1
    for k, items, func in live:
        judge_section(ctx, items, func, blocks.get(k), err)
    # clean the scratch created by unquoted redirections etc.
    for fn in os.listdir(_SHARD['cwd']):
        try:
            os.unlink(os.path.join(_SHARD['cwd'], fn))
        except OSError:
            pass


def _sh(path):
    return "'" + path.replace("'", "'\\''") + "'"


def odd_breaker(items):
    """The '~'-led non-login value holding a shell control character."""
    for it in items:
        if it['cls'] == 'tilde_odd' and SHELL_BREAKERS & set(it['value']):
            return it
    return None


def judge_section(ctx, items, func, block, err):
    want = expected_values(items)
    key = tuple((it['name'], it['value'], it['form']) for it in items)
    allh = set()
    for it in items:
        allh |= hazards(it['value'])
    nontrivial = bool(allh) or any(
        it['cls'].startswith('ref') for it in items)
    ctx.evaluated(key, nontrivial=nontrivial)
    ctx.count('sections_evaluated')
    breaker = odd_breaker(items)
    witness = {'section': [
        {k: it[k] for k in ('name', 'value', 'cls', 'form')}
        for it in items], 'function': func, 'stderr': err[-400:]}
    ok_shape = (
        block is not None and 'FIELDS' in block
        and len(block) - block.index('FIELDS') - 1 == 2 * len(items)
        and block.index('FIELDS') == 0)
    if not ok_shape:
        if breaker is not None:
            ctx.violation(
                'C41:tilde-prefix-unquoted-metachar',
                f'value {breaker["value"]!r} is written unquoted; the user '
                f'environment function no longer evaluates cleanly',
                {**witness, 'block': block})
        else:
            ctx.violation(
                'C41:user-env-function-broken',
                'bash could not evaluate the generated user environment '
                'function / unexpected output shape',
                {**witness, 'block': block})
        return
    fields = block[1:]
    for n, (it, w) in enumerate(zip(items, want)):
        attrs, got = fields[2 * n], fields[2 * n + 1]
        if it['cls'] in ('tilde', 'tilde_odd'):
            prefix = it['value'][1:].partition('/')[0]
            if LOGIN_RE.match(prefix) and prefix not in _TILDE:
                # login-like prefix without a bash reference (e.g. ~0):
                # outside the generated classes, not judged
                ctx.count('discard_tilde_prefix_without_reference')
                continue
        ctx.count('vars_checked')
        ctx.count('class:' + it['cls'])
        ctx.count('form:' + it['form'])
        for h in hazards(it['value']):
            ctx.count('haz:' + h)
        ctx.count('export_checked')
        if got == w and 'x' in attrs:
            continue
        # ---- a disagreement: classify by mechanism
        if breaker is not None:
            # the live metacharacter can swallow the following definitions
            # (pipeline, background job, open quote) and starve references
            ctx.violation(
                'C41:tilde-prefix-unquoted-metachar',
                f'value {breaker["value"]!r} is written unquoted, so its '
                f'shell metacharacter is live: {it["name"]} evaluated to '
                f'{got!r}, expected {w!r}',
                {**witness, 'variable': it['name'], 'got': got, 'want': w})
            continue
        if got == '<UNSET>':
            mech = 'C41:variable-unset'
        elif got == w:
            mech = 'C41:not-exported'
        elif it['cls'] == 'ref_back':
            mech = 'C41:order:earlier-variable-not-visible'
        elif it['cls'] == 'ref_fwd':
            mech = 'C41:order:later-variable-visible'
        elif it['cls'] == 'tilde':
            mech = ('C41:tilde:' + (
                'login-prefix-not-expanded' if got == it['value'] and
                w != it['value'] else 'tail-' + diff_class(got, w)))
        elif it['cls'] == 'tilde_odd':
            mech = 'C41:tilde-non-login:' + diff_class(got, w)
        else:
            mech = 'C41:literal:' + diff_class(got, w)
        ctx.violation(
            mech,
            f'{it["name"]} = {it["value"]!r} ({it["cls"]}, config form '
            f'{it["form"]}) evaluated in bash to {got!r} '
            f'(attributes {attrs!r}), expected {w!r}',
            {**witness, 'variable': it['name'], 'got': got, 'want': w,
             'attrs': attrs})
    if nontrivial:
        ctx.sample({'section': witness['section'], 'function': func,
                    'bash_values': fields[1::2]})
