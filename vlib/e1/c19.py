"""C19 Stop-and-restart preserves the workflow state."""
from __future__ import annotations

from vlib.e1 import phases, runner, scripts
from vlib.e1.common import E1_META, E1_NOTE
from vlib.gen import wfgen

PID = 'C19'
META = dict(E1_META, **{
    'level': 'fault_enumeration',
    'technique': 'stop/restart fault injection at main-loop iterations of a '
                 'real scheduler; snapshot-equality oracle across the '
                 'restart + differential final-facts oracle against the '
                 'uninterrupted run of the same case',
    'level_text': (
        'For sampled cases an uninterrupted reference run is executed, then '
        'the same case is stopped (stop / stop --now, through the real '
        'command path) at chosen main-loop iterations and restarted from '
        'the files left behind (fresh process), possibly several times. '
        'Oracle 1: the pool snapshot at the end of the stopped incarnation '
        'equals the snapshot right after the restarted start-up on status '
        '(preparing -> waiting), flows, held, submit number, completed '
        'outputs, prerequisite satisfaction (with the recorded way: '
        'naturally / forced) and xtrigger satisfaction, plus hold point, '
        'held-future set, stop point, stop task, broadcasts, flow counter. '
        'Oracle 2: the jobs launched over all incarnations and their final '
        'states/outputs (job-world ledger) equal those of the uninterrupted '
        'run. quick: 2 stop iterations per case; thorough: every iteration '
        'of sampled cases.'),
    'level_note': E1_NOTE + ' Jobs keep running in the job world while the '
                  'scheduler is down (messages lost, status pollable).',
    'design_ref': 'DESIGN.md §5 C19',
    'budget': {'quick': 150, 'thorough': 1500},
})
RULE = ('case = generated workflow + mixed plan + command prelude (holds, '
        'holds of future tasks released all at once, hold point, stop '
        'point/task, broadcasts, reload, manual `cylc set` of outputs and '
        'of single prerequisites) x stop '
        'iteration x stop mode x number of restarts; distinct by (case, '
        'stop iteration, mode); non-trivial when the stopped incarnation '
        'had a non-empty pool at the stop')
ASSUMPTIONS = ['stop --now --now (pool terminate) is not a C19 mode',
               'differential oracle compares order-independent facts only']
MIN = {'restarts': 60, 'snapshot_tasks_compared': 200,
       'differential_compared': 40}
NCASES = {'quick': 200, 'thorough': 2400}
MONS = ['c26', 'rsnap']


def ncases(tier):
    return NCASES[tier]


def prelude(rng, case, ctx=None):
    """Commands that create state worth preserving."""
    gt = case['gt']
    sc = []
    timed = rng.random() < 0.5    # else: differential oracle applies
    if timed and rng.random() < 0.6:
        sc += scripts.random_script(rng, case, kinds=['hold', 'hold_point'],
                                    max_cmds=2, horizon=6)
    if timed and rng.random() < 0.3:
        # holds (also of instances not spawned yet), all released together
        # a little later: nothing may be held again after the restart
        at = rng.randint(1, 4)
        sc.append({'at': at, 'cmd': 'hold', 'args': {
            'tasks': scripts.some_ids(rng, gt, k=rng.choice([2, 3]),
                                      globs=False)}})
        sc.append({'at': at + rng.randint(1, 3), 'cmd': 'release_hold_point',
                   'args': {}})
        if ctx is not None:
            ctx.count('preludes_hold_then_release_all')
    if timed and rng.random() < 0.4:
        # manually completed outputs / manually satisfied prerequisites
        inst = [(n, q) for n in gt['names']
                for q in wfgen.task_points(gt, n)]
        for _ in range(rng.choice([1, 2])):
            n, q = rng.choice(inst)
            args = {'tasks': [f'{q}/{n}'], 'flow': ['all']}
            atoms = [a for ar in wfgen.arrows_at(gt, n, q)
                     for a in wfgen.atoms(ar)
                     if wfgen.atom_point(a, q) >= gt['initial']]
            if atoms and rng.random() < 0.5:
                a = rng.choice(atoms)
                out = a[3] if a[3] != 'finished' else 'succeeded'
                args['prerequisites'] = [
                    f'{wfgen.atom_point(a, q)}/{a[1]}:{out}']
            else:
                outs = ['started', 'submitted'] + sorted(
                    gt['tasks'][n].get('outputs') or [])
                args['outputs'] = [rng.choice(outs)]
            sc.append({'at': rng.randint(1, 6), 'cmd': 'set', 'args': args})
    if timed and rng.random() < 0.25:
        # a reload (same definition) after the state was created: it
        # rewrites the stored workflow parameters
        sc.append({'at': rng.randint(5, 9), 'cmd': 'reload_workflow',
                   'args': {}})
    if timed and rng.random() < 0.4:
        sc.append({'at': rng.randint(1, 5), 'cmd': 'stop',
                   'args': {'cycle_point': str(rng.randint(
                       1, gt['final']))}})
    if timed and rng.random() < 0.3:
        n = rng.choice(gt['names'])
        pts = wfgen.task_points(gt, n)
        sc.append({'at': rng.randint(1, 5), 'cmd': 'stop',
                   'args': {'task': f'{rng.choice(pts)}/{n}'}})
    if rng.random() < 0.4:
        n = rng.choice(gt['names'] + ['root'])
        sc.append({'at': rng.randint(1, 6), 'cmd': 'broadcast', 'args': {
            'mode': 'put_broadcast',
            'cycle_points': [rng.choice(['*', '1', '2'])],
            'namespaces': [n],
            'settings': [{'environment': {'FOO': 'bar baz'}}]
            if rng.random() < 0.5 else [{'script': 'true'}]}})
    if rng.random() < 0.3:
        # two settings put and one of them cleared within one iteration
        # (one DB batch): the other must still be there after the restart
        n = rng.choice(gt['names'] + ['root'])
        pt = [rng.choice(['*', '1', '2'])]
        at = rng.randint(1, 6)
        keep = {'environment': {'KEEP': 'kept value'}}
        drop = rng.choice([{'script': 'true'},
                           {'environment': {'DROP': 'x'}}])
        for mode, settings in (('put_broadcast', [keep]),
                               ('put_broadcast', [drop]),
                               ('clear_broadcast', [drop])):
            sc.append({'at': at, 'cmd': 'broadcast', 'args': {
                'mode': mode, 'cycle_points': list(pt), 'namespaces': [n],
                'settings': [dict(x) for x in settings]}})
    return sc


def compare_snapshots(ctx, A, B, detail, S=None, auto_shutdown=False):
    """A: end of stopped incarnation; B: right after restart start-up."""
    pa = {t['id']: t for t in A['pool']}
    pb = {t['id']: t for t in B['pool']}
    if set(pa) != set(pb):
        ctx.violation(
            'C19:pool-membership-differs',
            f'pool after restart differs: lost {sorted(set(pa)-set(pb))[:4]}'
            f', gained {sorted(set(pb)-set(pa))[:4]}', detail)
        return
    for tid, a in pa.items():
        b = pb[tid]
        ctx.count('snapshot_tasks_compared')
        want_status = 'waiting' if a['status'] == 'preparing' \
            else a['status']
        if b['status'] != want_status:
            ctx.violation(f'C19:status-not-restored:{a["status"]}',
                          f'{tid} was {a["status"]} at stop, {b["status"]} '
                          'after restart', dict(detail, before=a, after=b))
        for fld in ('flows', 'held'):
            if a[fld] != b[fld]:
                mech = ''
                hp = A['extras']['hold_point']
                if fld == 'held' and hp is not None and not a['held'] \
                        and b['held'] and int(a['point']) > int(hp):
                    mech = ':released-beyond-hold-point'
                ctx.violation(f'C19:{fld}-not-restored' + mech,
                              f'{tid} {fld} {a[fld]} at stop, {b[fld]} '
                              'after restart',
                              dict(detail, before=a, after=b))
        ok_nums = {a['submit_num']}
        if a['status'] == 'preparing':
            ok_nums.add(a['submit_num'] - 1)
            ctx.count('preparing_at_stop')
        if b['submit_num'] not in ok_nums:
            ctx.violation('C19:submit-num-not-restored',
                          f'{tid} submit number {a["submit_num"]} at stop, '
                          f'{b["submit_num"]} after restart',
                          dict(detail, before=a, after=b))
        # (with the recorded way each one was satisfied: naturally,
        # forced, from the database, ...)
        pra = sorted((x[0], x[1], x[2], x[3], x[4]) for x in a['prereqs'])
        prb = sorted((x[0], x[1], x[2], x[3], x[4]) for x in b['prereqs'])
        if any(x[4] and 'force' in x[4] for x in a['prereqs']):
            ctx.count('forced_prerequisites_compared')
        if pra != prb:
            ctx.violation('C19:prerequisites-not-restored',
                          f'{tid} prerequisite satisfaction differs after '
                          f'restart: {pra} -> {prb}',
                          dict(detail, before=a, after=b))
        # completed outputs: restored once the restart poll has been
        # answered (the poll is part of the restart); outputs only grow, so
        # the later snapshot must contain what was complete at the stop
        late = (S or {}).get(tid)
        if late is not None:
            ctx.count('outputs_compared')
            if not set(a['outputs']) <= set(late['outputs']):
                ctx.violation(
                    f'C19:outputs-not-restored:{a["status"]}',
                    f'{tid} ({a["status"]}) had outputs {a["outputs"]} at '
                    f'the stop but {late["outputs"]} after the restart and '
                    'its poll', dict(detail, before=a, after=late))
        # internal retry xtriggers are re-created from the retry timers
        a_x = {k: v for k, v in a['xtriggers'].items()
               if not k.startswith('_cylc')}
        b_x = {k: v for k, v in b['xtriggers'].items()
               if not k.startswith('_cylc')}
        if a_x != b_x:
            ctx.violation('C19:xtriggers-not-restored',
                          f'{tid} xtrigger satisfaction {a["xtriggers"]} -> '
                          f'{b["xtriggers"]}', dict(detail, before=a,
                                                     after=b))
        if a['held']:
            ctx.count('held_tasks_compared')
    ea, eb = A['extras'], B['extras']
    for fld in ('hold_point', 'tasks_to_hold', 'stop_task', 'broadcasts'):
        if ea[fld] != eb[fld]:
            mech = ''
            hp = ea['hold_point']
            if fld == 'tasks_to_hold' and hp is not None and \
                    set(ea[fld]) <= set(eb[fld]) and all(
                        int(x.split('/')[0]) > int(hp)
                        for x in set(eb[fld]) - set(ea[fld])):
                mech = ':released-beyond-hold-point'
            ctx.violation(f'C19:{fld}-not-restored' + mech,
                          f'{fld} {ea[fld]!r} at stop, {eb[fld]!r} after '
                          'restart', dict(detail, before=ea, after=eb))
        elif ea[fld]:
            ctx.count(f'extras_nonempty:{fld}')
    if auto_shutdown and ea['pool_stop_point'] != eb['pool_stop_point']:
        # shut down by itself having reached the stop point: the stop point
        # is forgotten on purpose (C43)
        ctx.count('stop_point_forgotten_after_automatic_shutdown')
    elif ea['pool_stop_point'] != eb['pool_stop_point']:
        ctx.violation('C19:stop_point-not-restored',
                      f'stop point {ea["pool_stop_point"]!r} at stop, '
                      f'{eb["pool_stop_point"]!r} after restart',
                      dict(detail, before=ea, after=eb))
    # flow counter: equal when all flows were allocated by the counter,
    # otherwise >= every flow number in the history
    hist = max(ea['flows_known'] + [ea['flow_counter']] + [
        f for t in A['pool'] for f in t['flows']] + [0])
    if eb['flow_counter'] < hist:
        ctx.violation('C19:flow-counter-went-back',
                      f'flow counter {eb["flow_counter"]} after restart but '
                      f'flow {hist} was used before', dict(
                          detail, before=ea, after=eb))


def run_case(ctx, i, rng):
    feat = wfgen.Features(retries=rng.random() < 0.4, max_tasks=5,
                          max_final=4)
    gt = wfgen.gen_workflow(rng, feat)
    case = runner.build_case(rng, gt, rng.choice(['all-complete', 'mixed']),
                             hostile=0.3)
    pre = prelude(rng, case, ctx)
    # reference run (uninterrupted)
    base = runner.run_case(ctx, f'c{i}b', case,
                           [{'name': 'base', 'script': pre}], MONS, PID)
    if not base or base[0].get('capped'):
        ctx.evaluated(('discard', i), nontrivial=False)
        return
    n_iter = max(2, base[0]['iterations'])
    base_jobs = base[-1].get('world_jobs') or {}
    if ctx.tier == 'thorough' and i % 4 == 0:
        stops = list(range(1, n_iter))
    else:
        stops = sorted({rng.randint(1, max(1, n_iter - 1))
                        for _ in range(2)})
    # right after a release of everything: the next removal of any task
    # from the pool rewrites the stored hold list anyway
    soon = [a['at'] + 1 for a in pre if a['cmd'] == 'release_hold_point'
            and a['at'] + 1 < n_iter]
    if soon and any(a['cmd'] == 'hold' for a in pre):
        stops = sorted(set(stops) | {soon[-1]})
        ctx.count('stops_right_after_release_all')
    for k in stops:
        mode = rng.choice(['clean', 'now'])
        nrestarts = 1 if rng.random() < 0.8 else 2
        plist = [{'name': 'p0', 'script': pre + [
            {'at': k, 'cmd': 'stop', 'args': {'mode': mode}}]}]
        for r in range(nrestarts):
            ph = {'name': f'p{r + 1}'}
            if r < nrestarts - 1:
                ph['script'] = [{'at': rng.randint(1, 6), 'cmd': 'stop',
                                 'args': {'mode': rng.choice(
                                     ['clean', 'now'])}}]
            plist.append(ph)
        offline = rng.choice([0, 0, 2, 5])

        def between(idx, res, home, offline=offline):
            phases.advance_world_offline(case, home, offline)

        results = runner.run_case(ctx, f'c{i}k{k}', case, plist, MONS, PID,
                                  between=between)
        if not results:
            ctx.evaluated(('discard', i, k), nontrivial=False)
            continue
        detail = {'flow': gt['flow_text'], 'plans': case['plans'],
                  'prelude': pre, 'stop_iteration': k, 'mode': mode,
                  'offline_ticks': offline}
        nontrivial = False
        for a, b in zip(results, results[1:]):
            sa = ((a.get('monitors') or {}).get('rsnap') or {}).get('end')
            sb = ((b.get('monitors') or {}).get('rsnap') or {}).get(
                'after_start')
            if not sa or not sb:
                ctx.count('snapshot_missing')
                continue
            ctx.count('restarts')
            ctx.count(f'mode:{mode}')
            if sa['pool']:
                nontrivial = True
            st = ((b.get('monitors') or {}).get('rsnap') or {}).get(
                'settled')
            compare_snapshots(ctx, sa, sb, detail, {
                t['id']: t for t in st['pool']} if st else None,
                auto_shutdown=(a.get('stop_reason') or '').endswith(
                    'AUTOMATIC'))
        ctx.evaluated((i, k, mode, nrestarts), nontrivial=nontrivial)
        if any(r.get('capped') for r in results):
            ctx.count('capped_runs')
            continue
        # differential oracle: only where nothing in the command prelude
        # makes the set of jobs depend on timing (a hold / stop point / stop
        # task issued at a fixed iteration catches different tasks when a
        # restart shifts the run), i.e. broadcast-only or empty preludes
        if any(a['cmd'] != 'broadcast' for a in pre):
            ctx.count('differential_skipped_timed_prelude')
            continue
        jobs = results[-1].get('world_jobs') or {}
        ctx.count('differential_compared')
        missing_i = {j.rsplit('/', 1)[0] for j in set(base_jobs) - set(jobs)}
        from vlib.e1.c43 import known_c01
        if set(jobs) != set(base_jobs) and not (set(jobs) - set(base_jobs)) \
                and missing_i and known_c01(case, missing_i, results):
            # the instances the interrupted run missed are explained by the
            # C01 known findings (e.g. an output message that arrived after
            # its task had left the pool): judged under C01
            ctx.count('differential_missing_explained_by_C01_known_finding')
        elif set(jobs) != set(base_jobs) and not (
                set(base_jobs) - set(jobs)) and known_c01(
                    case, {j.rsplit('/', 1)[0]
                           for j in set(jobs) - set(base_jobs)}, base):
            # the other way round: the uninterrupted reference run lost
            # instances to the C01 known findings (an output message that
            # arrived after its task had left the pool), the interrupted
            # run did not
            ctx.count('differential_extra_explained_by_C01_known_finding_'
                      'in_the_reference_run')
        elif set(jobs) != set(base_jobs):
            ctx.violation(
                'C19:different-jobs-after-restart',
                f'interrupted run launched {sorted(set(jobs)-set(base_jobs))[:4]} '
                f'extra and missed {sorted(set(base_jobs)-set(jobs))[:4]} '
                'compared with the uninterrupted run',
                dict(detail, base=sorted(base_jobs), got=sorted(jobs)))
            continue
        for jid, j in jobs.items():
            if jid not in base_jobs:
                continue    # (explained above)
            bj = base_jobs[jid]
            if (j['state'], sorted(j['emitted'])) != (
                    bj['state'], sorted(bj['emitted'])):
                ctx.violation(
                    'C19:different-final-outputs',
                    f'job {jid}: {j} in the interrupted run, {bj} in the '
                    'uninterrupted run', detail)
            if j['launches'] > 1:
                ctx.violation(
                    'C19:job-launched-twice',
                    f'job {jid} was launched {j["launches"]} times across '
                    'incarnations', detail)
        ctx.sample({'flow': gt['flow_text'], 'stop_iteration': k,
                    'mode': mode, 'jobs': sorted(jobs)})
