"""Small datetime-cycling workflows with clock-expire tasks (C32).

The virtual clock of E1 runs starts at T0 = 1_600_000_000
(2020-09-13T12:26:40Z); cycle points are one minute apart around it and the
expiry offsets are tens of seconds to minutes, so expiry times fall inside
the run as virtual time advances a few seconds per main-loop iteration.
"""
from __future__ import annotations

import calendar
import time

T0 = 1_600_000_000
NAMES = ['a', 'b', 'c', 'd', 'e', 'f']
OFFSETS = {'-PT1M': -60, '-PT20S': -20, 'PT0S': 0, 'PT20S': 20, 'PT40S': 40,
           'PT1M': 60, 'PT2M': 120, 'PT5M': 300}


def point_str(i: int, start_min: int) -> str:
    """i-th cycle point (minutes after 12:00Z on 2020-09-13)."""
    m = start_min + i
    return f'20200913T{12 + m // 60:02d}{m % 60:02d}Z'


def point_seconds(p: str) -> int:
    return calendar.timegm(time.strptime(p, '%Y%m%dT%H%MZ'))


def gen(rng) -> dict:
    ntasks = rng.randint(3, 6)
    names = NAMES[:ntasks]
    ncyc = rng.randint(2, 5)
    start_min = rng.choice([24, 25, 26, 27])      # T0 is 12:26:40
    points = [point_str(i, start_min) for i in range(ncyc)]
    expirers = rng.sample(names, rng.randint(1, min(3, ntasks)))
    offs = {n: rng.choice(sorted(OFFSETS)) for n in expirers}
    # success of a clock-expire task may be optional (n?) or required: a
    # required one that fails stays in the pool, finished but incomplete
    succ_opt = {n: rng.random() < 0.5 for n in expirers}
    # arrows: list of (lhs_atoms, op, rhs); atom = (task, offset_minutes,
    # output)
    arrows = []
    for n in names:
        r = rng.random()
        if r < 0.35:
            arrows.append(([(n, -1, 'succeeded')], '&', n))   # chain
        earlier = names[:names.index(n)]     # (no same-cycle loops)
        if earlier and (r < 0.2 or rng.random() < 0.3):
            other = rng.choice(earlier)
            arrows.append(([(other, 0, 'succeeded')], '&', n))
    # expire children
    children = {}
    for n in expirers:
        if rng.random() < 0.8:
            kid = rng.choice([x for x in names if x != n])
            off = rng.choice([0, 0, -1]) \
                if names.index(kid) > names.index(n) else -1
            arrows.append(([(n, off, 'expired')], '&', kid))
            children.setdefault(n, []).append((kid, -off))
    # optional second parent to make OR expressions with expiry
    lines = []
    rhs_seen = set()
    for lhs, op, rhs in arrows:
        parts = []
        for (t, off, o) in lhs:
            s = t
            if off:
                s += f'[-PT{-off}M]'
            if o == 'expired':
                s += ':expire?'
            elif o == 'succeeded' and t in expirers and succ_opt[t]:
                s += '?'
            parts.append(s)
        rr = rhs + ('?' if rhs in expirers and succ_opt[rhs] else '')
        lines.append(f'{" & ".join(parts)} => {rr}')
        rhs_seen.add(rhs)
    for n in names:
        if n in expirers:
            lines.append(f'{n}:expire?')
            lines.append(f'{n}?' if succ_opt[n] else n)
        elif n not in rhs_seen:
            lines.append(n)
    queues = {}
    if rng.random() < 0.5:
        mem = rng.sample(names, rng.randint(1, ntasks))
        queues['q1'] = {'limit': 1, 'members': mem}
    runahead = rng.choice(['P1', 'P2', 'P4'])
    L = ['[scheduler]', '    allow implicit tasks = False',
         '    UTC mode = True', '    [[events]]',
         '        stall timeout = PT0S',
         '        abort on stall timeout = False',
         '        inactivity timeout = P100Y',
         '[scheduling]',
         f'    initial cycle point = {points[0]}',
         f'    final cycle point = {points[-1]}',
         f'    runahead limit = {runahead}',
         '    [[special tasks]]',
         '        clock-expire = ' + ', '.join(
             f'{n}({o})' for n, o in sorted(offs.items()))]
    if queues:
        L.append('    [[queues]]')
        for q, spec in queues.items():
            L += [f'        [[[{q}]]]', f'            limit = {spec["limit"]}',
                  '            members = ' + ', '.join(spec['members'])]
    L += ['    [[graph]]', '        PT1M = """']
    L += ['            ' + x for x in lines]
    L += ['        """', '[runtime]', '    [[root]]', '        script = true',
          '        platform = localhost']
    for n in names:
        L.append(f'    [[{n}]]')
    tasks = {n: {'outputs': {}, 'exec_retries': 0, 'submit_retries': 0,
                 'queue': next((q for q, s in queues.items()
                                if n in s['members']), 'default'),
                 'sequential': False, 'submit_fail_optional': False}
             for n in names}
    return {
        'names': names, 'tasks': tasks, 'points': points,
        'expire_offset': {n: OFFSETS[o] for n, o in offs.items()},
        'succ_required': sorted(n for n in expirers if not succ_opt[n]),
        'expire_children': children, 'queues': queues, 'sections': [],
        'arrows': [[[list(a) for a in lhs], rhs] for lhs, op, rhs in arrows],
        'initial': points[0], 'final': points[-1], 'runahead': runahead,
        'flow_text': '\n'.join(L) + '\n', 'datetime': True,
    }


def expire_time(gt, name, point) -> int:
    return point_seconds(point) + gt['expire_offset'][name]


def expire_kids(gt, name, point):
    """Instances with a prerequisite on name@point:expired."""
    out = []
    i = gt['points'].index(point) if point in gt['points'] else None
    if i is None:
        return out
    for kid, shift in gt['expire_children'].get(name, []):
        j = i + shift
        if 0 <= j < len(gt['points']):
            out.append(f'{gt["points"][j]}/{kid}')
    return out


def in_group_parent(gt, tid, group) -> bool:
    """Does instance tid have a prerequisite on another member of group?"""
    p, n = tid.split('/', 1)
    if p not in gt['points']:
        return False
    i = gt['points'].index(p)
    for lhs, rhs in gt['arrows']:
        if rhs != n:
            continue
        for t, off, _o in lhs:
            j = i + off
            if 0 <= j < len(gt['points']) and \
                    f'{gt["points"][j]}/{t}' in group:
                return True
    return False
