"""C20 Crash-restart neither loses nor duplicates work."""
from __future__ import annotations

from vlib.e1 import phases, runner
from vlib.e1.common import E1_META, E1_NOTE
from vlib.gen import wfgen

PID = 'C20'
META = dict(E1_META, **{
    'level': 'fault_enumeration',
    'technique': 'kill -9 fault injection (real os._exit of a forked '
                 'scheduler process) at private-DB statement/commit '
                 'boundaries and main-loop positions; differential oracle '
                 'on the job-world ledger across incarnations',
    'level_text': (
        'A reference run of each sampled case counts the private-DB write '
        'statements and commit boundaries (~150-400). The case is then '
        're-run and the scheduler process is killed (os._exit(137) inside '
        'the counting SQLite connection, or at a main-loop position) at '
        'chosen indices; jobs keep running in the job world; a fresh process '
        'restarts from the files left behind and runs to quiescence. Oracle: '
        'the jobs launched over all incarnations and their final states and '
        'outputs equal the uninterrupted run (nothing lost, nothing re-run '
        'in the same flow), and no job id is launched twice. quick: 3 kill '
        'points per case; thorough: every statement index of every 4th '
        'case, 8 random ones otherwise.'),
    'level_note': E1_NOTE + ' A job counts as launched when the (fake) '
                  'jobs-submit command completes.',
    'design_ref': 'DESIGN.md §5 C20',
    # fork-heavy: forked children do not scale with cores here (§2.4)
    'shards': 8,
    'budget': {'quick': 150, 'thorough': 1800},
})
RULE = ('case = generated workflow + plan x kill point (DB statement index '
        'or main-loop iteration) x offline job progress; distinct by (case, '
        'kill point); non-trivial when the kill hit after the first job '
        'submission and before the last')
ASSUMPTIONS = ['the stale contact file is removed by the harness before the '
               'restart (the stale-contact check is not part of C20)']
MIN = {'kills': 80, 'kill_mid_run': 40, 'differential_compared': 60}
NCASES = {'quick': 48, 'thorough': 400}
MONS = ['c26']


def ncases(tier):
    return NCASES[tier]


def child_of_late(gt, job, late):
    """Is the missing job's instance downstream (transitively) of an
    output that the restart poll reported for an already-removed task?"""
    p, n, _ = job.split('/')
    p = int(p)
    seen = set()
    todo = [(n, p)]
    late_ids = {tid for tid, _ in late}
    while todo:
        n, p = todo.pop()
        if (n, p) in seen:
            continue
        seen.add((n, p))
        for ar in wfgen.arrows_at(gt, n, p):
            for a in wfgen.atoms(ar):
                q = wfgen.atom_point(a, p)
                if f'{q}/{a[1]}' in late_ids:
                    return True
                if q >= gt['initial']:
                    todo.append((a[1], q))
    return False


def stuck_on_done_output(case, r1, jobs, missing):
    """Are all missing jobs instances that the restarted scheduler left
    waiting on an output their parent's job really produced (or instances
    downstream of / runahead-blocked by such)?"""
    gt = case['gt']
    texts = case.get('messages', {})
    stuck = []
    for t in r1.get('final_pool') or []:
        if t['status'] != 'waiting':
            continue
        for pt, name, out, sat, _ in t['prereqs']:
            if sat:
                continue
            js = [j for k, j in jobs.items() if k.startswith(f'{pt}/{name}/')]
            label = {v: k for k, v in texts.get(name, {}).items()}.get(
                out, out)
            done = any(
                (label == 'submitted') or
                (label == 'started' and j['started']) or
                (label in ('succeeded', 'failed') and j['state'] == label) or
                (label in j['emitted'])
                for j in js)
            if done:
                stuck.append([t['id'], None])
                break
    if not stuck:
        return False
    ids = {x for x, _ in stuck}
    pmin = min(int(x.split('/')[0]) for x in ids)
    for m in missing:
        tid = m.rsplit('/', 1)[0]
        if tid in ids or child_of_late(gt, m, stuck):
            continue
        if int(tid.split('/')[0]) > pmin:
            continue        # held back by the runahead limit behind it
        return False
    return True


def effects_lost(case, r1, missing):
    """Every missing job is an instance with a prerequisite on an output
    that the restart found already recorded in the DB for a task it loaded
    active (so the poll re-reporting it propagated nothing), or is
    downstream of / runahead-blocked behind such an instance."""
    known = ((r1.get('monitors') or {}).get('ledger') or {}).get(
        'repolled_known_outputs') or []
    if not known:
        return False
    gt = case['gt']
    rec = {}
    for tid, outs in known:
        rec.setdefault(tid, set()).update(outs)
    direct = []
    rest = []
    for m in missing:
        tid = m.rsplit('/', 1)[0]
        p, n = tid.split('/', 1)
        p = int(p)
        hit = False
        for ar in wfgen.arrows_at(gt, n, p):
            for a in wfgen.atoms(ar):
                q = wfgen.atom_point(a, p)
                outs = rec.get(f'{q}/{a[1]}')
                if outs is None:
                    continue
                want = ({'succeeded', 'failed'} if a[3] == 'finished'
                        else {a[3]})
                if want & outs:
                    hit = True
        (direct if hit else rest).append(m)
    if not direct:
        return False
    dids = [[m.rsplit('/', 1)[0], None] for m in direct]
    pmin = min(int(x[0].split('/')[0]) for x in dids)
    for m in rest:
        if child_of_late(gt, m, dids):
            continue
        if int(m.split('/')[0]) > pmin:
            continue
        return False
    return True


def run_case(ctx, i, rng):
    feat = wfgen.Features(retries=rng.random() < 0.4, max_tasks=5,
                          max_final=4)
    gt = wfgen.gen_workflow(rng, feat)
    case = runner.build_case(rng, gt, rng.choice(['all-complete', 'mixed']),
                             hostile=0.2)
    base = runner.run_case(ctx, f'c{i}b', case, [{'name': 'base'}], MONS, PID)
    if not base or base[0].get('capped') or not base[0].get('db_stmts'):
        ctx.evaluated(('discard', i), nontrivial=False)
        return
    nstmt = base[0]['db_stmts']
    niter = base[0]['iterations']
    base_jobs = base[-1].get('world_jobs') or {}
    if ctx.tier == 'thorough' and i % 4 == 0:
        points = [('stmt', s) for s in range(1, nstmt + 1)]
    else:
        k = 3 if ctx.tier == 'quick' else 8
        points = [('stmt', rng.randint(1, nstmt)) for _ in range(k - 1)]
        points.append(('iter', rng.randint(1, max(1, niter))))
    ctx.maxc('db_statements_in_a_run', nstmt)
    for kind, at in points:
        ph0 = {'name': 'p0'}
        ph0['kill_at_stmt' if kind == 'stmt' else 'kill_at_iter'] = at
        offline = rng.choice([0, 0, 3, 8])

        def between(idx, res, home, offline=offline):
            phases.advance_world_offline(case, home, offline)

        results = runner.run_case(ctx, f'c{i}k{kind}{at}', case,
                                  [ph0, {'name': 'p1'}], MONS, PID,
                                  between=between)
        if not results:
            ctx.evaluated(('discard', i, kind, at), nontrivial=False)
            continue
        r0, r1 = results[0], results[-1]
        detail = {'flow': gt['flow_text'], 'plans': case['plans'],
                  'kill': [kind, at], 'of': [nstmt, niter],
                  'offline_ticks': offline,
                  'killed_at_iteration': r0.get('iterations'),
                  'policy': case['policy']}
        if not r0.get('killed'):
            ctx.count('kill_point_not_reached')
            ctx.evaluated((i, kind, at), nontrivial=False)
            continue
        ctx.count('kills')
        ctx.count(f'kill_kind:{kind}')
        launched_before = (r0.get('counts') or {}).get('LAUNCH', 0)
        mid = 0 < launched_before < len(base_jobs)
        if mid:
            ctx.count('kill_mid_run')
        ctx.evaluated((i, kind, at), nontrivial=mid)
        exc = (r1.get('extra') or {}).get('stop_exc')
        if r1.get('iterations', 0) == 0:
            where = ('during-startup' if r0.get('iterations', 0) == 0
                     else 'mid-run')
            ctx.violation(
                f'C20:restart-failed:{where}',
                f'restart after a kill at {kind} {at} (iteration '
                f'{r0.get("iterations")}) did not reach the main loop: '
                f'{exc}', dict(detail, trace=(r1.get('extra') or {}).get(
                    'run_traceback')))
            continue
        if r1.get('capped'):
            ctx.count('capped_runs')
            continue
        jobs = r1.get('world_jobs') or {}
        ctx.count('differential_compared')
        missing = sorted(set(base_jobs) - set(jobs))
        extra = sorted(set(jobs) - set(base_jobs))
        if missing or extra:
            where = ('during-startup' if r0.get('iterations', 0) == 0
                     else 'mid-run')
            if missing:
                late = ((r1.get('monitors') or {}).get('ledger') or {}).get(
                    'late_polled_outputs_on_removed_tasks') or []
                refused = [[x, None] for x in ((r1.get('monitors') or {}).get(
                    'ledger') or {}).get('respawn_refused') or []]
                if late and where == 'mid-run' and all(
                        child_of_late(gt, m, late) for m in missing):
                    where = 'poll-result-after-task-removed'
                elif refused and where == 'mid-run' and all(
                        m.rsplit('/', 1)[0] in {x for x, _ in refused}
                        or child_of_late(gt, m, refused)
                        # (the parentless chain of a refused task stops too)
                        or any(m.split('/')[1] == x.split('/', 1)[1]
                               and int(m.split('/')[0]) > int(x.split('/')[0])
                               for x, _ in refused)
                        for m in missing):
                    # killed between the early commit of the new task_states
                    # row and the pool-table write: the restart finds history
                    # without outputs and takes the task for a suicided one
                    where = 'respawn-refused-states-row-without-pool-row'
                elif where == 'mid-run' and (stuck_on_done_output(
                        case, r1, jobs, missing) or effects_lost(
                            case, r1, missing)):
                    # killed between the commit that recorded a parent's
                    # output and the end-of-loop commit of the child's
                    # prerequisites: the restart learns nothing new from the
                    # poll (output already recorded) and the child waits
                    where = 'output-committed-before-kill-effects-lost'
                ctx.violation(
                    f'C20:work-lost:{where}',
                    f'after a kill at {kind} {at} and restart, jobs '
                    f'{missing[:4]} of the uninterrupted run never ran',
                    dict(detail, base=sorted(base_jobs), got=sorted(jobs)))
            if extra:
                ctx.violation(
                    f'C20:work-duplicated:{where}',
                    f'after a kill at {kind} {at} and restart, extra jobs '
                    f'{extra[:4]} ran', dict(detail, base=sorted(base_jobs),
                                             got=sorted(jobs)))
            continue
        for jid, j in jobs.items():
            bj = base_jobs[jid]
            if j['launches'] > 1:
                log = [x for x in r1.get('launch_log', [])
                       if x['job'] == jid]
                same_iter = (len(log) > 1 and log[0]['inc'] == 0 and
                             log[0]['tick'] >= (r0.get('iterations') or 0)
                             - 1)
                ctx.violation(
                    'C20:job-launched-twice:' + (
                        'killed-before-submit-result-committed'
                        if same_iter else 'submit-result-lost-later'),
                    f'job {jid} was launched {j["launches"]} times (kill at '
                    f'{kind} {at}, iteration {r0.get("iterations")}): the '
                    'restart re-submitted it under the same submit number',
                    dict(detail, launch_log=log))
            elif (j['state'], sorted(j['emitted'])) != (
                    bj['state'], sorted(bj['emitted'])):
                ctx.violation(
                    'C20:different-final-outputs',
                    f'job {jid}: {j} after kill/restart, {bj} uninterrupted',
                    detail)
        ctx.sample({'flow': gt['flow_text'], 'kill': [kind, at],
                    'of': [nstmt, niter], 'jobs': sorted(jobs)})
