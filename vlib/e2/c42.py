"""C42 The subprocess pool runs every command once, within its bounds.

Monitor shape: a real ``SubProcPool`` is driven with generated batches of
real short commands (succeeding, failing, writing, missing executable, fake
``ssh`` returning 255, commands outliving a tiny pool timeout) interleaved
with ``process()``, ``set_stopping()``, ``close()`` and ``terminate()``.
The harness counts, per command context, the callbacks it receives; counts
live processes by wrapping the pool's own start (`_run_command_init`) and
exit (`_proc_exit`) steps; and remembers whether a stop was requested.

Every decision is made on counts, never on durations.
"""
from __future__ import annotations

import os
import signal
import time

PID = 'C42'
META = {
    'engine': 'E2 funcmon',
    'level': 'exploration',
    'technique': 'exactly-once / bounded-concurrency monitor on a live '
                 'SubProcPool driven with generated command batches and '
                 'stop requests',
    'level_text': (
        'Generated batches (pool size 1-4, normal or tiny pool timeout, 2-8 '
        'real commands of 10 kinds, a third of them jobs-submit) are put '
        'into the real SubProcPool while process(), set_stopping(), close() '
        'and terminate() are interleaved at generated positions; afterwards '
        'the pool is processed until empty (or has been terminated). '
        'Monitors: callbacks per context == 1 at the end; processes started '
        'minus processes exited <= pool size at every start; no start of a '
        'jobs-submit command after a stop request. Held = no monitor fired '
        'on any batch explored.'),
    'level_note': 'start/exit are observed at SubProcPool._run_command_init '
                  'and SubProcPool._proc_exit (instance wrappers) - a launch '
                  'that bypassed them would be invisible; real OS processes '
                  'and signals, so which commands time out varies from run '
                  'to run (only coverage counters depend on that).',
    'design_ref': 'DESIGN.md §5 C42',
    'budget': {'quick': 150, 'thorough': 900},
}
RULE = ('case = one batch: (pool size, pool timeout, command list, operation '
        'schedule); distinct by that tuple; non-trivial when the batch '
        'queued more commands than the pool size, or a stop request arrived '
        'with commands still queued or running, or a command was killed on '
        'timeout')
ASSUMPTIONS = [
    'a "callback" is a call of either the callback or the callback_255 '
    'given to put_command for that context; the two are counted together',
    'every generated command is given a callback; a batch ends either by '
    'processing until the pool reports nothing queued or running, or with '
    'terminate() after which nothing more is processed (as the scheduler '
    'does)',
    'commands that can outlive the batch (sleep 30) are only generated when '
    'the pool timeout is tiny or the batch ends with terminate()',
    'a batch that has not drained within the generous step/wall guard is '
    'counted as not_drained and makes the run inconclusive, never violated',
]
MIN = {
    'batches': 100, 'commands_put': 400, 'contexts_judged': 400,
    'starts_observed': 200, 'bound_checks': 200, 'at_capacity': 40,
    'killed_on_timeout': 10,
    'op:set_stopping': 12, 'op:close': 12, 'op:terminate': 12,
    'jobs_submit_queued_at_stop': 8, 'queued_at_terminate': 8,
    'running_at_terminate': 8, 'rejected_at_put': 20, 'kind:ssh255': 12,
    'kind:missing': 12,
}
NCASES = {'quick': 320, 'thorough': 2400}
CASE_TIMEOUT = 120

JOBS_SUBMIT = 'jobs-submit'
OTHER_KEYS = ['jobs-poll', 'jobs-kill', 'event-handler', 'remote-init']
_S = {}


def ncases(tier):
    return NCASES[tier]


def setup_shard(ctx):
    import logging
    from cylc.flow import LOG
    LOG.setLevel(logging.CRITICAL + 10)
    base = os.path.join(ctx.workdir, 'c42')
    fakebin = os.path.join(base, 'bin')
    os.makedirs(fakebin, exist_ok=True)
    ssh = os.path.join(fakebin, 'ssh')
    with open(ssh, 'w') as f:
        f.write('#!/bin/sh\nexit 255\n')
    os.chmod(ssh, 0o755)
    _S['env255'] = {'PATH': fakebin + ':/usr/bin:/bin'}
    _S['base'] = base
    from cylc.flow.cfgspec.glbl_cfg import glbl_cfg
    glbl_cfg()
    import cylc.flow.subprocpool  # noqa: F401


# --------------------------------------------------------------- generation
KINDS = ['true', 'true', 'false', 'echo', 'sh-err', 'missing', 'sleep-short',
         'sleep-short', 'ssh255', 'ssh255-alt', 'stdin', 'big-output',
         'sleep-long', 'sleep-long']


def gen_batch(rng):
    size = rng.choice([1, 1, 2, 2, 3, 4])
    timeout = rng.choice([30.0, 30.0, 30.0, 0.0, 0.05, 0.15])
    end = rng.choice(['drain', 'drain', 'terminate'])
    stop = rng.choice([None, 'set_stopping', 'set_stopping', 'close'])
    ncmd = rng.randint(2, 8)
    allow_long = timeout < 1 or end == 'terminate'
    cmds = []
    for _ in range(ncmd):
        kind = rng.choice(KINDS)
        if kind == 'sleep-long' and not allow_long:
            kind = 'sleep-short'
        key = JOBS_SUBMIT if rng.random() < 0.4 else rng.choice(OTHER_KEYS)
        cmds.append((kind, key))
    ops = [('put', j) for j in range(ncmd)]
    for _ in range(rng.randint(1, ncmd + 3)):
        ops.insert(rng.randint(0, len(ops)), ('process',))
    if stop:
        ops.insert(rng.randint(0, len(ops)), (stop,))
    if end == 'terminate':
        pos = rng.randint(len(ops) // 3, len(ops))
        ops.insert(pos, ('terminate',))
        # nothing is processed after terminate (the selector is closed)
        ops = ops[:pos + 1] + [o for o in ops[pos + 1:] if o[0] == 'put']
    return {'size': size, 'timeout': timeout, 'cmds': cmds, 'ops': ops,
            'end': end}


def make_ctx(kind, key):
    from cylc.flow.subprocctx import SubProcContext
    if kind == 'true':
        return SubProcContext(key, ['true'])
    if kind == 'false':
        return SubProcContext(key, ['false'])
    if kind == 'echo':
        return SubProcContext(key, ['echo', 'hello', 'pool'])
    if kind == 'sh-err':
        return SubProcContext(key, 'echo oops >&2; exit 3', shell=True)
    if kind == 'missing':
        return SubProcContext(key, ['/nonexistent/c42-no-such-command', 'x'])
    if kind == 'sleep-short':
        return SubProcContext(key, ['sleep', '0.02'])
    if kind == 'sleep-long':
        return SubProcContext(key, ['sleep', '30'])
    if kind in ('ssh255', 'ssh255-alt'):
        return SubProcContext(key, ['ssh', 'c42host', 'true'],
                              host='c42host', env=_S['env255'])
    if kind == 'stdin':
        return SubProcContext(key, ['cat'], stdin_str='fed through stdin\n')
    if kind == 'big-output':
        return SubProcContext(key, ['head', '-c', '300000', '/dev/zero'])
    raise ValueError(kind)


# ------------------------------------------------------------------ monitor
class Rec:
    """What the harness saw for one batch (its own bookkeeping only)."""

    def __init__(self, n, size):
        self.size = size
        self.calls = [[] for _ in range(n)]     # callbacks per command
        self.ctxs = [None] * n
        self.put = [False] * n
        self.started = {}          # id(ctx) -> proc
        self.exited = set()        # id(ctx)
        self.running = {}          # id(proc) -> ctx index
        self.index = {}            # id(ctx) -> command index
        self.stop_requested = False
        self.terminated = False
        self.queued_at_terminate = set()
        self.running_at_terminate = set()
        self.stop_seen_queued = set()   # indices queued when stop requested
        self.max_running = 0
        self.over_capacity = []
        self.submit_after_stop = []
        self.procs = []
        self.timed_out = False


def drive(ctx, batch):
    from cylc.flow.subprocpool import SubProcPool

    cmds, ops = batch['cmds'], batch['ops']
    n = len(cmds)
    rec = Rec(n, batch['size'])
    pool = SubProcPool()
    pool.size = batch['size']
    pool.proc_pool_timeout = batch['timeout']

    orig_init = pool._run_command_init
    orig_exit = pool._proc_exit

    def init_wrap(c, *a, **k):
        j = rec.index.get(id(c))
        if c.cmd_key == JOBS_SUBMIT and rec.stop_requested:
            rec.submit_after_stop.append(j)
        proc = orig_init(c, *a, **k)
        if proc is not None:
            ctx.count('starts_observed')
            rec.started[id(c)] = proc
            rec.procs.append(proc)
            rec.running[id(proc)] = j
            now = len(rec.running)
            rec.max_running = max(rec.max_running, now)
            if now == rec.size:
                ctx.count('at_capacity')
            if now > rec.size:
                rec.over_capacity.append((j, now))
        else:
            ctx.count('start_failed_oserror')
        return proc

    def exit_wrap(proc, err_xtra, c, *a, **k):
        try:
            return orig_exit(proc, err_xtra, c, *a, **k)
        finally:
            ctx.count('exits_observed')
            if err_xtra:
                ctx.count('killed_on_timeout')
                rec.timed_out = True
            rec.running.pop(id(proc), None)
            rec.exited.add(id(c))

    pool._run_command_init = init_wrap
    pool._proc_exit = exit_wrap

    def callback(c, j):
        rec.calls[j].append(('callback', c is rec.ctxs[j], c.ret_code))

    def callback_255(c, j):
        rec.calls[j].append(('callback_255', c is rec.ctxs[j], c.ret_code))

    def queued_indices():
        return {rec.index.get(id(item[0])) for item in pool.queuings}

    bad_hosts = set()
    raised = None
    for op in ops:
        ctx.count('op:' + op[0])
        try:
            if op[0] == 'put':
                j = op[1]
                kind, key = cmds[j]
                c = make_ctx(kind, key)
                rec.ctxs[j] = c
                rec.index[id(c)] = j
                rec.put[j] = True
                ctx.count('commands_put')
                ctx.count('kind:' + kind)
                if key == JOBS_SUBMIT:
                    ctx.count('jobs_submit_put')
                kw = {}
                if kind == 'ssh255':
                    kw = {'callback_255': callback_255, 'bad_hosts': bad_hosts}
                elif kind == 'ssh255-alt':
                    kw = {'callback_255': callback_255,
                          'callback_255_args': [j]}
                pool.put_command(c, callback=callback, callback_args=[j],
                                 **kw)
                if rec.calls[j]:
                    ctx.count('rejected_at_put')
            elif op[0] == 'process':
                pool.process()
            elif op[0] in ('set_stopping', 'close'):
                q = queued_indices()
                rec.stop_seen_queued |= q
                if q:
                    ctx.count('queued_at_stop', len(q))
                js = sum(1 for j in q if cmds[j][1] == JOBS_SUBMIT)
                if js:
                    ctx.count('jobs_submit_queued_at_stop', js)
                if rec.running:
                    ctx.count('running_at_stop', len(rec.running))
                rec.stop_requested = True
                getattr(pool, op[0])()
            elif op[0] == 'terminate':
                rec.queued_at_terminate = queued_indices()
                rec.running_at_terminate = set(rec.running.values())
                if rec.queued_at_terminate:
                    ctx.count('queued_at_terminate',
                              len(rec.queued_at_terminate))
                if rec.running_at_terminate:
                    ctx.count('running_at_terminate',
                              len(rec.running_at_terminate))
                rec.stop_requested = True
                rec.terminated = True
                pool.terminate()
        except Exception as exc:   # the pool API is not expected to raise
            raised = (op, exc)
            break
    drained = True
    if raised is None and not rec.terminated:
        steps = 0
        t_guard = time.monotonic() + 60
        while pool.is_not_done():
            try:
                pool.process()
            except Exception as exc:
                raised = (('process',), exc)
                break
            steps += 1
            if steps > 20000 or time.monotonic() > t_guard:
                drained = False
                break
            time.sleep(0.003)
        ctx.count('drain_steps', steps)
    # ---- cleanup of anything still alive (after all observations)
    for proc in rec.procs:
        if proc.returncode is None:
            try:
                os.killpg(proc.pid, signal.SIGKILL)
            except (ProcessLookupError, PermissionError):
                pass
    return pool, rec, raised, drained


def cleanup(pool, rec):
    for proc in rec.procs:
        try:
            if proc.returncode is None:
                proc.wait(timeout=10)
            for h in (proc.stdout, proc.stderr):
                if h and not h.closed:
                    h.close()
        except Exception:
            pass
    try:
        pool.pipepoller.close()
    except Exception:
        pass


def run_case(ctx, i, rng):
    batch = gen_batch(rng)
    pool, rec, raised, drained = drive(ctx, batch)
    try:
        judge(ctx, batch, rec, raised, drained)
    finally:
        cleanup(pool, rec)


def judge(ctx, batch, rec, raised, drained):
    cmds = batch['cmds']
    desc = {'pool_size': batch['size'], 'pool_timeout': batch['timeout'],
            'commands': [f'{j}:{k}[{key}]' for j, (k, key) in
                         enumerate(cmds)],
            'ops': [' '.join(str(x) for x in op) for op in batch['ops']]}
    nontrivial = bool(
        len(cmds) > batch['size'] or rec.stop_seen_queued
        or rec.queued_at_terminate or rec.running_at_terminate
        or rec.timed_out)
    ctx.evaluated((batch['size'], batch['timeout'], tuple(cmds),
                   tuple(batch['ops'])), nontrivial=nontrivial)
    ctx.count('batches')
    ctx.maxc('running', rec.max_running)
    if raised is not None:
        op, exc = raised
        ctx.violation(
            f'C42:pool-raised:{op[0]}:{type(exc).__name__}',
            f'SubProcPool.{op[0]} raised {exc!r}', desc)
        return
    if not drained:
        ctx.count('not_drained')
        return
    # -- bound and stop monitors
    ctx.count('bound_checks', len(rec.started))
    for j, now in rec.over_capacity[:1]:
        ctx.violation(
            'C42:concurrency-above-pool-size',
            f'{now} processes running with pool size {rec.size} after '
            f'starting command {j}', desc)
    for j in rec.submit_after_stop[:1]:
        ctx.violation(
            'C42:jobs-submit-started-after-stop',
            f'jobs-submit command {j} was started after the stop request',
            desc)
    # -- exactly one callback per context put
    for j, (kind, key) in enumerate(cmds):
        if not rec.put[j]:
            continue
        ctx.count('contexts_judged')
        calls = rec.calls[j]
        c = rec.ctxs[j]
        if len(calls) == 1:
            if not calls[0][1]:
                ctx.violation(
                    'C42:callback-with-foreign-context',
                    f'the callback of command {j} received another context',
                    {**desc, 'command': j})
            ctx.count('cb:' + calls[0][0])
            if calls[0][2] == 999:
                ctx.count('cb_workflow_stopping')
            continue
        was_started = id(c) in rec.started
        was_exited = id(c) in rec.exited
        state = {**desc, 'command': j, 'kind': kind, 'cmd_key': key,
                 'callbacks': calls, 'started': was_started,
                 'exit_processed': was_exited,
                 'queued_at_terminate': j in rec.queued_at_terminate,
                 'running_at_terminate': j in rec.running_at_terminate,
                 'ret_code': c.ret_code, 'err': c.err}
        if len(calls) > 1:
            ctx.violation(
                'C42:multiple-callbacks:' + (
                    'after-start' if was_started else 'never-started'),
                f'command {j} ({kind}, {key}) got {len(calls)} callbacks',
                state)
            continue
        # no callback at all: name the mechanism from what the harness saw
        if not was_started and j in rec.queued_at_terminate:
            mech = 'C42:no-callback:terminate-drops-queued-command'
            what = ('still queued when terminate() was called; terminate() '
                    'marked it "workflow stopping" but never called back')
        elif (was_started and not was_exited
              and j in rec.running_at_terminate):
            mech = 'C42:no-callback:terminate-killed-command-not-reaped'
            what = ('running when terminate() was called; it was killed '
                    'but its exit was never processed, so no callback')
        elif (not was_started and key == JOBS_SUBMIT
              and rec.stop_requested):
            mech = 'C42:no-callback:stopping-drops-queued-jobs-submit'
            what = ('a jobs-submit command still queued when the pool was '
                    'set stopping; process() discarded it without calling '
                    'back')
        elif was_exited:
            mech = 'C42:no-callback:exit-processed-' + (
                'after-timeout-kill' if 'killed on timeout' in (c.err or '')
                else 'normal')
            what = 'its exit was processed but no callback was made'
        elif not was_started:
            mech = 'C42:no-callback:never-started'
            what = 'it left the queue without being started or called back'
        else:
            mech = 'C42:no-callback:started-never-finished'
            what = 'it was started but its exit was never processed'
        ctx.violation(
            mech, f'command {j} ({kind}, {key}) got no callback: {what}',
            state)
    ctx.sample({**desc, 'callbacks': [
        [x[0] + ':' + str(x[2]) for x in c] for c in rec.calls],
        'max_running': rec.max_running})


def finalize(merged, tier):
    nd = merged['counters'].get('not_drained', 0)
    if nd:
        return {'inconclusive': f'{nd} batches did not drain within the '
                                f'step/wall guard (not judged)'}
    return {}
