"""C35 Runtime inheritance follows C3 linearization.

Monitor shape: the real `cylc.flow.c3mro.C3` is run on generated inheritance
hierarchies (ordered parent lists over a DAG of namespaces, `root` at the
top); the oracle is CPython's own MRO (typeobject.c) for the equivalent class
hierarchy built with `type()`.  A sample of hierarchies is also pushed
through the real `WorkflowConfig` (flow.cylc on disk) and both the linearized
ancestors and the inherited item values are compared with the oracle.
"""
from __future__ import annotations

import itertools
import os
from types import SimpleNamespace

PID = 'C35'
META = {
    'engine': 'E2 funcmon',
    'level': 'exploration',
    'technique': 'post-condition monitor on C3.mro / WorkflowConfig '
                 'inheritance against CPython\'s MRO of the equivalent '
                 'type() hierarchy (exhaustive for small hierarchies)',
    'level_text': (
        'Every inheritance hierarchy with up to 5 namespaces (root + 4; '
        'thorough: up to 6) is enumerated as ordered parent lists over a '
        'topologically ordered DAG, larger ones (up to 10 namespaces) are '
        'sampled; for every namespace C3.mro is compared with the names of '
        'cls.__mro__ of the class CPython builds, and rejection is compared '
        'with TypeError.  A sample goes through WorkflowConfig on a real '
        'flow.cylc, where linearized ancestors and inherited values are '
        'compared too.  Held = no disagreement on the hierarchies explored.'),
    'level_note': 'CPython\'s MRO computation is the trusted reference; '
                  'exhaustive: true for hierarchies of <= 5 namespaces '
                  '(quick) / <= 6 (thorough), up to renaming.',
    'design_ref': 'DESIGN.md §5 C35',
    'budget': {'quick': 90, 'thorough': 900},
}
RULE = ('case = one hierarchy: tuple of ordered parent lists (node j may only '
        'list nodes < j; node 0 is root); distinct by that tuple (plus the '
        'name permutation for WorkflowConfig cases); non-trivial when at '
        'least one namespace has two or more parents (multiple inheritance)')
ASSUMPTIONS = [
    'CPython\'s type() MRO is the reference C3 implementation',
    'hierarchies are acyclic (a DAG, as the property quantifies); every '
    'DAG is a renaming of one whose parents precede children, which is what '
    'is enumerated; names are permuted at random for the WorkflowConfig '
    'sample so definition order differs from topological order',
    'a namespace below a namespace that has no consistent linearization is '
    'expected to be rejected too (CPython cannot even build its base)',
    'an empty parent list means "inherit root" (the documented default)',
]
MIN = {
    'quick': {'mro_compared': 300000, 'hier_multi_inherit': 50000,
              'hier_exhaustive': 3906,
              'ns_rejected_both': 50000, 'ns_order_sensitive': 10000,
              'cfg_hier_checked': 500, 'cfg_rejected_both': 30,
              'cfg_values_compared': 4000},
    'thorough': {'mro_compared': 7000000, 'hier_multi_inherit': 1250000,
                 'hier_exhaustive': 1251906,
                 'ns_rejected_both': 500000, 'ns_order_sensitive': 150000,
                 'cfg_hier_checked': 3500, 'cfg_rejected_both': 300,
                 'cfg_values_compared': 30000},
}

NCASES = {'quick': 64, 'thorough': 512}
EXHAUSTIVE_K = {'quick': 4, 'thorough': 5}      # non-root namespaces
RANDOM_PER_CASE = {'quick': 250, 'thorough': 1000}
SLICE_PER_CASE = {'quick': 800, 'thorough': 2000}   # next size up
CFG_PER_CASE = {'quick': 10, 'thorough': 8}
CASE_TIMEOUT = 600


# ---------------------------------------------------------------- oracle --
class Rejected:
    """Marker: CPython refuses to build the class (or one of its bases)."""

    def __init__(self, why):
        self.why = why


def py_mro(parents):
    """parents: list (index = node, 0 = root) of ordered parent index lists,
    parents[j] only contains indices < j.  Returns per node either the MRO
    as a list of node indices, or a Rejected marker."""
    classes = {}
    out = []
    for j, plist in enumerate(parents):
        if any(p not in classes for p in plist):
            out.append(Rejected('base-rejected'))
            continue
        bases = tuple(classes[p] for p in plist)
        try:
            cls = type(f'n{j}', bases, {'_idx': j})
        except TypeError as exc:
            out.append(Rejected(str(exc)[:60]))
            continue
        classes[j] = cls
        out.append([c.__dict__['_idx'] for c in cls.__mro__
                    if c is not object])
    return out


# ----------------------------------------------------------- enumeration --
def ordered_subsets(n):
    """All non-empty ordered selections of distinct items from range(n)."""
    out = []
    for r in range(1, n + 1):
        out.extend(itertools.permutations(range(n), r))
    return out


_OS = {}


def osubsets(n):
    if n not in _OS:
        _OS[n] = ordered_subsets(n)
    return _OS[n]


def count_hier(k):
    """Number of hierarchies with k non-root namespaces."""
    n = 1
    for j in range(1, k + 1):
        n *= len(osubsets(j))
    return n


def hier_by_index(k, idx):
    """Mixed-radix decoding of the idx-th hierarchy with k non-root nodes."""
    parents = [[]]
    for j in range(1, k + 1):
        opts = osubsets(j)
        idx, r = divmod(idx, len(opts))
        parents.append(list(opts[r]))
    return parents


def random_hier(rng, k):
    parents = [[]]
    # "monotone" hierarchies list nearer relatives first everywhere, which
    # keeps most of them linearizable; the others are mostly inconsistent
    monotone = rng.random() < 0.65
    for j in range(1, k + 1):
        r = rng.random()
        if r < 0.25:
            npar = 1
        elif r < 0.65:
            npar = 2
        else:
            npar = rng.randint(1, min(j, 4))
        npar = min(npar, j)
        # bias towards recent nodes (deeper hierarchies) half of the time
        if rng.random() < 0.5:
            pool = list(range(max(0, j - 4), j))
            npar = min(npar, len(pool))
        else:
            pool = list(range(j))
        sel = rng.sample(pool, npar)
        if monotone and rng.random() < 0.9:
            sel.sort(reverse=True)
        parents.append(sel)
    return parents


# ----------------------------------------------------------------- check --
def names_for(k):
    return ['root'] + [f'N{j}' for j in range(1, k + 1)]


def check_c3(ctx, parents, source):
    from cylc.flow.c3mro import C3
    k = len(parents) - 1
    names = names_for(k)
    tree = {names[j]: [names[p] for p in parents[j]]
            for j in range(len(parents))}
    snapshot = {n: list(v) for n, v in tree.items()}
    want = py_mro(parents)
    multi = any(len(p) > 1 for p in parents)
    ctx.evaluated(('c3', tuple(map(tuple, parents))), nontrivial=multi)
    ctx.count('hier_checked')
    ctx.count(f'hier_size_{k + 1}')
    ctx.count('hier_' + source)
    if multi:
        ctx.count('hier_multi_inherit')
    c3 = C3(tree)
    desc = {'tree': snapshot}
    any_rej = False
    # query children first so that a tree mutated by one call would show
    for j in reversed(range(len(parents))):
        name = names[j]
        try:
            got = c3.mro(name)
        except RecursionError:
            got = Rejected('RecursionError')
        except Exception as exc:   # C3 raises bare Exception by design
            got = Rejected(type(exc).__name__ + ': ' + str(exc)[:40])
        w = want[j]
        ctx.count('mro_compared')
        if isinstance(w, Rejected):
            any_rej = True
            if isinstance(got, Rejected):
                ctx.count('ns_rejected_both')
            else:
                ctx.violation(
                    'C35:inconsistent-hierarchy-accepted',
                    f'{name} in {snapshot} has no consistent linearization '
                    f'(CPython: {w.why}) but C3.mro returned {got}',
                    {**desc, 'namespace': name, 'got': got,
                     'python': w.why})
            continue
        wn = [names[i] for i in w]
        if isinstance(got, Rejected):
            ctx.violation(
                'C35:consistent-hierarchy-rejected',
                f'{name} in {snapshot} linearizes to {wn} in CPython but '
                f'C3.mro raised {got.why}',
                {**desc, 'namespace': name, 'python_mro': wn})
            continue
        if len(parents[j]) > 1:
            ctx.count('ns_multi_parent_linearized')
            # does the answer depend on more than depth-first order?
            if wn != dfs_order(tree, name):
                ctx.count('ns_order_sensitive')
        if got != wn:
            ctx.violation(
                'C35:mro-order-differs' if sorted(got) == sorted(wn)
                else 'C35:mro-members-differ',
                f'{name} in {snapshot}: C3.mro gave {got}, CPython gives '
                f'{wn}',
                {**desc, 'namespace': name, 'got': got, 'python_mro': wn})
    if any_rej:
        ctx.count('hier_with_rejection')
    if tree != snapshot:
        ctx.violation(
            'C35:tree-mutated-by-mro',
            f'C3.mro changed the parents map from {snapshot} to {tree}',
            {**desc, 'after': tree})
    if multi:
        ctx.sample({'tree': snapshot, 'python_mro': {
            names[j]: ([names[i] for i in w] if not isinstance(w, Rejected)
                       else 'rejected: ' + w.why)
            for j, w in enumerate(want)}})


def dfs_order(tree, name):
    """Naive depth-first, first-occurrence order (what a wrong algorithm
    would give); used only to count hierarchies where C3 matters."""
    out = []

    def walk(n):
        if n not in out:
            out.append(n)
        for p in tree[n]:
            walk(p)
    walk(name)
    return out


# -------------------------------------------------- through WorkflowConfig --
ITEMS = ['V1', 'V2', 'V3', 'V4']


def check_config(ctx, parents, rng, serial):
    from cylc.flow.config import WorkflowConfig
    from cylc.flow.exceptions import WorkflowConfigError
    k = len(parents) - 1
    # random names, random definition order (root may be implicit)
    pool = ['FAM', 'alpha', 'B2', 'c_c', 'Delta', 'e-1', 'GAMMA', 'h', 'i9',
            'Jay']
    rng.shuffle(pool)
    names = ['root'] + pool[:k]
    want = py_mro(parents)
    defines = {}
    for j, n in enumerate(names):
        defines[n] = {v: f'{n}.{v}' for v in ITEMS if rng.random() < 0.45}
    scripts = {n: f'echo {n}' for n in names if rng.random() < 0.4}
    explicit_root = rng.random() < 0.5 or defines['root'] or (
        'root' in scripts)
    order = list(range(len(names)))
    rng.shuffle(order)
    children = {j: [c for c in range(len(parents)) if j in parents[c]]
                for j in range(len(parents))}
    leaves = [names[j] for j in range(1, len(names)) if not children[j]]
    lines = ['[scheduler]', '    allow implicit tasks = True',
             '[scheduling]', '    [[graph]]',
             '        R1 = ' + ' & '.join(leaves or ['zz_other']),
             '[runtime]']
    for j in order:
        n = names[j]
        if n == 'root' and not explicit_root:
            continue
        lines.append(f'    [[{n}]]')
        if j > 0:
            plist = [names[p] for p in parents[j]]
            if plist == ['root'] and rng.random() < 0.5:
                pass        # implicit inheritance from root
            else:
                lines.append('        inherit = ' + ', '.join(plist))
        if n in scripts:
            lines.append(f'        script = {scripts[n]}')
        if defines[n]:
            lines.append('        [[[environment]]]')
            for v, val in defines[n].items():
                lines.append(f'            {v} = {val}')
    text = '\n'.join(lines) + '\n'
    d = os.path.join(ctx.workdir, 'c35', f'w{serial % 50}')
    os.makedirs(d, exist_ok=True)
    fpath = os.path.join(d, 'flow.cylc')
    with open(fpath, 'w') as f:
        f.write(text)
    multi = any(len(p) > 1 for p in parents)
    tree = {names[j]: [names[p] for p in parents[j]]
            for j in range(len(parents))}
    ctx.evaluated(('cfg', tuple(map(tuple, parents)), tuple(names),
                   tuple(order)), nontrivial=multi)
    ctx.count('cfg_hier_checked')
    desc = {'flow.cylc': text, 'tree': tree}
    expect_reject = any(isinstance(w, Rejected) for w in want)
    try:
        cfg = WorkflowConfig(f'c35w{serial}', fpath,
                             options=SimpleNamespace(), template_vars={})
    except WorkflowConfigError as exc:
        if expect_reject:
            ctx.count('cfg_rejected_both')
        else:
            ctx.violation(
                'C35:config-consistent-hierarchy-rejected',
                f'WorkflowConfig rejected a hierarchy CPython linearizes: '
                f'{tree}: {str(exc)[:120]}', desc)
        return
    if expect_reject:
        bad = [names[j] for j, w in enumerate(want)
               if isinstance(w, Rejected)]
        ctx.violation(
            'C35:config-inconsistent-hierarchy-accepted',
            f'WorkflowConfig accepted {tree} although {bad} have no '
            f'consistent linearization', desc)
        return
    lin = cfg.runtime['linearized ancestors']
    for j, n in enumerate(names):
        wn = [names[i] for i in want[j]]
        got = lin.get(n)
        ctx.count('cfg_mro_compared')
        if got != wn:
            ctx.violation(
                'C35:config-linearized-ancestors-differ',
                f'linearized ancestors of {n} are {got}, CPython gives '
                f'{wn} for {tree}',
                {**desc, 'namespace': n, 'got': got, 'python_mro': wn})
            continue
        # inherited values: first definer along the linearization wins
        rt = cfg.cfg['runtime'][n]
        env = dict(rt.get('environment', {}))
        for v in ITEMS:
            definers = [a for a in wn if v in defines[a]]
            wantv = f'{definers[0]}.{v}' if definers else None
            gotv = env.get(v)
            ctx.count('cfg_values_compared')
            if len(definers) > 1:
                ctx.count('cfg_values_overridden')
            if gotv != wantv:
                ctx.violation(
                    'C35:config-inherited-value-not-from-first-in-mro',
                    f'{n}[environment]{v} = {gotv!r}, but the first of '
                    f'{wn} defining it gives {wantv!r}',
                    {**desc, 'namespace': n, 'item': v, 'got': gotv,
                     'want': wantv, 'python_mro': wn})
        sdef = [a for a in wn if a in scripts]
        wants = scripts[sdef[0]] if sdef else ''
        gots = rt.get('script') or ''
        ctx.count('cfg_values_compared')
        if gots != wants:
            ctx.violation(
                'C35:config-inherited-value-not-from-first-in-mro',
                f'{n} script = {gots!r}, but the first of {wn} defining it '
                f'gives {wants!r}',
                {**desc, 'namespace': n, 'item': 'script', 'got': gots,
                 'want': wants, 'python_mro': wn})
    if multi and ctx.counters.get('cfg_sampled', 0) < 1:
        ctx.count('cfg_sampled')
        ctx.sample({'flow.cylc': text, 'linearized ancestors': {
            n: lin.get(n) for n in names}}, force=True)


def setup_shard(ctx):
    import logging
    logging.getLogger('cylc').setLevel(logging.CRITICAL)


def ncases(tier):
    return NCASES[tier]


def run_case(ctx, i, rng):
    tier = ctx.tier
    n = ncases(tier)
    kmax = EXHAUSTIVE_K[tier]
    # exhaustive part: every hierarchy with <= kmax non-root namespaces
    for k in range(0, kmax + 1):
        total = count_hier(k)
        for idx in range(i, total, n):
            check_c3(ctx, hier_by_index(k, idx), 'exhaustive')
    # uniform sample of the next size up (every ordered parent list shape)
    tot = count_hier(kmax + 1)
    for _ in range(SLICE_PER_CASE[tier]):
        check_c3(ctx, hier_by_index(kmax + 1, rng.randrange(tot)), 'uniform')
    # random larger hierarchies
    for _ in range(RANDOM_PER_CASE[tier]):
        k = rng.randint(kmax + 1, 9)
        check_c3(ctx, random_hier(rng, k), 'random')
    # through WorkflowConfig
    for c in range(CFG_PER_CASE[tier]):
        if ctx.time_left() < 5:
            ctx.count('cfg_skipped_budget')
            break
        r = rng.random()
        if r < 0.5:
            k = rng.randint(2, 4)
            parents = hier_by_index(k, rng.randrange(count_hier(k)))
        else:
            parents = random_hier(rng, rng.randint(3, 7))
        check_config(ctx, parents, rng, i * 16 + c)


def finalize(merged, tier):
    """Report whether the exhaustive sub-space was really covered."""
    kmax = EXHAUSTIVE_K[tier]
    expected = sum(count_hier(k) for k in range(0, kmax + 1))
    got = merged['counters'].get('hier_exhaustive', 0)
    done = got == expected and not merged['truncated']
    out = {'coverage': {
        'exhaustive': done,
        'exhaustive_subspace': (
            f'all hierarchies of <= {kmax + 1} namespaces (root + {kmax}), '
            f'as ordered parent lists over a topologically ordered DAG: '
            f'{expected} hierarchies; larger ones sampled'),
    }}
    if not done:
        out['inconclusive'] = (
            f'exhaustive sub-space not covered: {got} of {expected}')
    return out
