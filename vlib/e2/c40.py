"""C40 Workflow-state queries match exactly what was recorded.

Monitor shape: an icontract post-condition on the real
`CylcWorkflowDBChecker.workflow_state_query` (so it also judges the calls made
from inside the `workflow_state` xtrigger / `WorkflowPoller`), evaluated
against a dictionary model of the rows that the harness wrote to the database
through the real `CylcWorkflowDAO`.  The matcher of the oracle is
vlib/models/c40_match.py ('*' = any string, everything else literal and
case-sensitive), written from the property statement.
"""
from __future__ import annotations

import ast
import contextlib
import io
import json
import os
import re

from vlib.models import c40_match as M

PID = 'C40'
META = {
    'engine': 'E2 funcmon',
    'level': 'exploration',
    'technique': 'post-condition monitor on workflow_state_query (direct and '
                 'through the workflow_state xtrigger) against a dictionary '
                 'model of databases written through the real DAO',
    'level_text': (
        'Generated public databases (task names with underscores, percent '
        'signs, mixed case and near-miss siblings; several flows, statuses '
        'and outputs) are written through the real CylcWorkflowDAO; '
        'generated status / trigger / message queries with and without "*" '
        'and flow filters are run through the real checker and the real '
        'xtrigger; every returned row set is compared with the rows the '
        'model says match. Held = no disagreement on the queries explored.'),
    'level_note': 'Reference matcher vlib/models/c40_match.py is trusted; '
                  'only current-format (8.3+) databases are generated.',
    'design_ref': 'DESIGN.md §5 C40',
    'budget': {'quick': 90, 'thorough': 900},
}
RULE = ('case = one generated database plus ~30 queries; an evaluation is '
        'one call of workflow_state_query (task pattern, cycle pattern, '
        'selector, mode, flow); distinct by (database names+cycles, query); '
        'non-trivial when the query contains "*" in task or cycle and the '
        'model answer is neither empty nor the whole table, or when a flow '
        'or selector filter removes at least one otherwise matching row')
ASSUMPTIONS = [
    'databases are in the current (8.3+) format: {trigger: message} outputs, '
    'flow_nums column; Cylc 7 / 8.0-8.2 back-compat layouts not generated',
    'status selectors are the final statuses only (others are rejected by '
    'the real code with InputError and are counted, not judged)',
    'result order is not part of the property and is ignored',
    'the flow of a returned row is read back from its documented display '
    'form "(flows=a,b)" / absent for flow 1 / "(flows=none)"',
    'empty-string task/cycle patterns are not generated',
    '":finished" means succeeded or failed (user guide); the undocumented '
    '"finish" alias is not generated',
    'xtrigger queries on datetime databases use cycle strings already in '
    'the database format, or contain "*"',
]
MIN = {
    'queries': 3000, 'queries_star_task': 800, 'queries_star_cycle': 300,
    'oracle_nonempty': 1000, 'oracle_empty': 200,
    'opportunity_underscore': 50, 'opportunity_percent': 50,
    'opportunity_case': 50,
    'mode:status': 500, 'mode:trigger': 500, 'mode:message': 300,
    'flow_filtered': 300, 'flow_filter_removed_row': 100,
    'xtrigger_calls': 200, 'xtrigger_satisfied': 40,
    'xtrigger_unsatisfied': 40,
}
NCASES = {'quick': 1600, 'thorough': 20000}
QUERIES_PER_DB = 30
XTRIG_PER_DB = 4

FINAL_STATUSES = ['succeeded', 'failed', 'expired', 'submit-failed']
ALL_STATUSES = ['waiting', 'expired', 'preparing', 'submit-failed',
                'submitted', 'running', 'failed', 'succeeded']
SEPS = ['_', '_', '_', '%', '%', '-', '', '__', '%%', '_%', '+', '@']
LETTERS = 'abcdefghijklmnopqrstuvwxyz'
UNI = ['é', 'É', 'ß', 'ω', 'Ω', '中']
HOSTILE = ['?', '[', ']', '[a-z]', '\\', '^', '.', '$', '(', '!']

_S = {'ctx': None, 'model': None, 'last': None, 'installed': False,
      'meta': None}


# ---------------------------------------------------------------- generator
def gen_word(rng):
    n = rng.randint(1, 4)
    w = ''.join(rng.choice(LETTERS) for _ in range(n))
    r = rng.random()
    if r < 0.2:
        w = w.upper()
    elif r < 0.4:
        w = w.capitalize()
    elif r < 0.5:
        w = ''.join(c.upper() if rng.random() < 0.5 else c for c in w)
    elif r < 0.55:
        w += rng.choice(UNI)
    elif r < 0.65:
        w += str(rng.randint(0, 12))
    return w


def gen_base(rng):
    nseg = rng.randint(2, 4)
    s = gen_word(rng)
    for _ in range(nseg - 1):
        s += rng.choice(SEPS) + gen_word(rng)
    if rng.random() < 0.1:
        s = '_' + s
    return s


def siblings(rng, base):
    """Names that differ from `base` in one pattern-relevant way."""
    out = []
    letters = [i for i, c in enumerate(base) if c.isascii() and c.isalpha()]
    if letters:
        out.append(base.swapcase())
        i = rng.choice(letters)
        out.append(base[:i] + base[i].swapcase() + base[i + 1:])
        out.append(base.lower())
        out.append(base.upper())
    for i, c in enumerate(base):
        if c == '_':
            out.append(base[:i] + rng.choice(['x', 'Z', '-', '%', '9', 'é'])
                       + base[i + 1:])
        if c == '%':
            out.append(base[:i] + rng.choice(['', 'ab', 'a_b', 'XYZ1', '_'])
                       + base[i + 1:])
    out.append(base + rng.choice(['x', '_1', '%', '_']))
    out.append(rng.choice(['x', 'A', '_']) + base)
    if len(base) > 2:
        i = rng.randrange(1, len(base))
        out.append(base[:i] + base[i + 1:])
        out.append(base[:i] + rng.choice(LETTERS) + base[i:])
    ok = []
    for s in out:
        # keep to valid task names: start with \w, chars \w - + % @
        if s and s != base and re.fullmatch(r'\w[\w\-+%@]*', s):
            ok.append(s)
    return ok


INT_CYCLES = ['1', '2', '3', '10', '11', '12', '21', '100', '101']
DT_FORMATS = [
    ('CCYYMMDDThhmmZ', ['20200101T0000Z', '20200101T0600Z', '20200102T0000Z',
                        '20210101T0000Z', '20201231T1800Z']),
    ('CCYY-MM-DDThhZ', ['2020-01-01T00Z', '2020-01-01T06Z', '2020-01-02T00Z',
                        '2021-01-01T00Z']),
    ('CCYYMMDDThhmm+0100', ['20200101T0000+0100', '20200102T0000+0100',
                            '20210101T1200+0100']),
]
FLOW_CHOICES = [(1,), (1,), (1,), (1,), (2,), (1, 2), (3,), (), (1, 3),
                (2, 3), (10,), (1, 10)]
CUSTOM_OUTPUTS = [
    ('x', 'the quick brown'), ('out_1', 'out_1'), ('OUT_1', 'shout'),
    ('data-ready', 'data is ready'), ('y', 'succeeded'),
    ('upper', 'Succeeded'), ('pc', '100% done'), ('u_v', 'a_b'),
]


def gen_outputs(rng, status):
    out = {}
    if status in ('submitted', 'running', 'failed', 'succeeded'):
        out['submitted'] = 'submitted'
    if status in ('running', 'failed', 'succeeded'):
        out['started'] = 'started'
    if status == 'succeeded':
        out['succeeded'] = 'succeeded'
    if status == 'failed':
        out['failed'] = 'failed'
    if status == 'submit-failed':
        out['submit-failed'] = 'submit-failed'
    if status == 'expired':
        out['expired'] = 'expired'
    if out.get('started') and rng.random() < 0.6:
        for k, v in rng.sample(CUSTOM_OUTPUTS, rng.randint(1, 3)):
            out[k] = v
    return out


def gen_db(rng):
    """Ground truth: list of rows + metadata (what the DAO is told)."""
    if rng.random() < 0.6:
        fmt, cycles = None, rng.sample(INT_CYCLES, rng.randint(2, 5))
    else:
        fmt, allc = rng.choice(DT_FORMATS)
        cycles = rng.sample(allc, rng.randint(2, len(allc)))
    bases = [gen_base(rng) for _ in range(rng.randint(2, 3))]
    names = list(bases)
    for b in bases:
        sib = siblings(rng, b)
        rng.shuffle(sib)
        names.extend(sib[:rng.randint(2, 6)])
    for _ in range(rng.randint(0, 2)):
        names.append(gen_word(rng) + gen_word(rng))
    names = list(dict.fromkeys(names))
    rows = []
    for name in names:
        for cyc in cycles:
            if rng.random() < 0.25:
                continue
            flows_here = {rng.choice(FLOW_CHOICES)}
            if rng.random() < 0.35:
                flows_here.add(rng.choice(FLOW_CHOICES))
            for flows in sorted(flows_here):
                status = rng.choice(ALL_STATUSES + ['succeeded', 'failed'])
                rows.append({
                    'name': name, 'cycle': cyc, 'flows': tuple(flows),
                    'status': status,
                    'submit_num': rng.randint(0, 3),
                    'outputs': gen_outputs(rng, status),
                })
    rng.shuffle(rows)
    return {'fmt': fmt, 'cycles': cycles, 'bases': bases, 'names': names,
            'rows': rows}


def star_pattern(rng, s):
    """Put one or two '*' into s (replacing a possibly empty substring)."""
    kind = rng.choice(['prefix', 'suffix', 'mid', 'mid', 'multi', 'insert'])
    n = len(s)
    if kind == 'prefix':
        return s[:rng.randint(0, n)] + '*'
    if kind == 'suffix':
        return '*' + s[rng.randint(0, n):]
    if kind == 'insert':
        i = rng.randint(0, n)
        return s[:i] + '*' + s[i:]
    if kind == 'multi':
        a, b, c, d = sorted(rng.randint(0, n) for _ in range(4))
        return s[:a] + '*' + s[b:c] + '*' + s[d:]
    i = rng.randint(0, n)
    j = rng.randint(i, n)
    return s[:i] + '*' + s[j:]


def hostile_pattern(rng, s):
    """A pattern with a character that is special in LIKE/GLOB/regex."""
    if not s:
        return '*'
    i = rng.randrange(len(s))
    kind = rng.choice(['us', 'us', 'pc', 'pc', 'case', 'case', 'other'])
    if kind == 'us':
        p = s[:i] + '_' + s[i + 1:]
    elif kind == 'pc':
        j = rng.randint(i, len(s))
        p = s[:i] + '%' + s[j:]
    elif kind == 'case':
        p = s.swapcase() if rng.random() < 0.5 else (
            s[:i] + s[i].swapcase() + s[i + 1:])
    else:
        h = rng.choice(HOSTILE)
        if h == '[a-z]' and rng.random() < 0.5:
            h = '[' + s[i] + ']'
        p = s[:i] + h + s[i + 1:]
    if rng.random() < 0.8:
        # keep the special character: only star the rest
        k = rng.choice(['prefix', 'suffix', 'insert'])
        if k == 'prefix' and i + 1 < len(p):
            cut = rng.randint(i + 1, len(p))
            p = p[:cut] + '*'
        elif k == 'suffix' and i > 0:
            cut = rng.randint(0, i)
            p = '*' + p[cut:]
        else:
            pos = rng.randint(0, len(p))
            p = p[:pos] + '*' + p[pos:]
    return p


def gen_task_pattern(rng, db):
    r = rng.random()
    src = rng.choice(db['names'] if rng.random() < 0.6 else db['bases'])
    if r < 0.07:
        return None
    if r < 0.14:
        return '*'
    if r < 0.28:
        return src
    if r < 0.68:
        return star_pattern(rng, src)
    return hostile_pattern(rng, src)


def gen_cycle_pattern(rng, db):
    r = rng.random()
    src = rng.choice(db['cycles'])
    if r < 0.25:
        return None
    if r < 0.40:
        return '*'
    if r < 0.65:
        return src
    if r < 0.85:
        return star_pattern(rng, src)
    if r < 0.95:
        return hostile_pattern(rng, src)
    return rng.choice(INT_CYCLES + ['9999'])


def gen_selector(rng, db, mode):
    r = rng.random()
    if mode == 'status':
        if r < 0.3:
            return None
        if r < 0.9:
            return rng.choice(FINAL_STATUSES)
        return rng.choice(ALL_STATUSES)
    if r < 0.15:
        return None
    keys, msgs = set(), set()
    for row in db['rows']:
        keys.update(row['outputs'])
        msgs.update(row['outputs'].values())
    pool = sorted(keys) if mode == 'trigger' else sorted(msgs)
    other = sorted(msgs - keys) if mode == 'trigger' else sorted(keys - msgs)
    if mode == 'trigger' and r < 0.35:
        return 'finished'
    if r < 0.8 and pool:
        return rng.choice(pool)
    if r < 0.9 and other:
        return rng.choice(other)     # exists, but in the other namespace
    return rng.choice(['nope', 'Succeeded', 'SUCCEEDED', 'out_', 'out%',
                       'x*', '*', 'finished', 'started '])


def gen_query(rng, db):
    mode = rng.choice(['status', 'status', 'trigger', 'trigger', 'message'])
    flows = sorted({f for r in db['rows'] for f in r['flows']})
    fr = rng.random()
    if fr < 0.5:
        flow = None
    elif fr < 0.9 and flows:
        flow = rng.choice(flows)
    else:
        flow = rng.choice([1, 2, 4, 99])
    return {
        'task': gen_task_pattern(rng, db),
        'cycle': gen_cycle_pattern(rng, db),
        'selector': gen_selector(rng, db, mode),
        'mode': mode,
        'flow': flow,
    }


# ------------------------------------------------------------------- oracle
def selector_ok(row, selector, mode):
    if selector is None:
        return True
    if mode == 'status':
        return row['status'] == selector
    if mode == 'trigger':
        keys = row['outputs'].keys()
        if selector == 'finished':
            return 'succeeded' in keys or 'failed' in keys
        return selector in keys
    return selector in row['outputs'].values()


def row_value(row, mode):
    return row['status'] if mode == 'status' else row['outputs']


def expected_rows(rows, q):
    out = []
    for r in rows:
        if not M.glob_match(q['task'], r['name']):
            continue
        if not M.glob_match(q['cycle'], r['cycle']):
            continue
        if q['flow'] is not None and q['flow'] not in r['flows']:
            continue
        if not selector_ok(r, q['selector'], q['mode']):
            continue
        out.append(r)
    return out


_FLOW_RE = re.compile(r'^\(flows=(none|\d+(?:,\d+)*)\)$')


def parse_result_row(row, mode):
    """[name, cycle, result, [flow]] -> (name, cycle, flows, value)."""
    if len(row) not in (3, 4):
        raise ValueError(f'row of length {len(row)}')
    name, cycle, val = row[0], row[1], row[2]
    if len(row) == 3:
        flows = (1,)
    else:
        m = _FLOW_RE.match(row[3])
        if not m:
            raise ValueError(f'flow field {row[3]!r}')
        flows = () if m.group(1) == 'none' else tuple(
            int(x) for x in m.group(1).split(','))
    if mode != 'status':
        val = ast.literal_eval(val)
    return name, cycle, flows, val


def _freeze(v):
    return json.dumps(v, sort_keys=True)


def judge(ctx, db, q, result, via):
    """Compare one observed answer with the model; record everything."""
    rows = db['rows']
    exp = expected_rows(rows, q)
    ctx.count('queries')
    ctx.count('mode:' + q['mode'])
    ctx.count('via:' + via)
    star_t = q['task'] is not None and '*' in q['task']
    star_c = q['cycle'] is not None and '*' in q['cycle']
    if star_t:
        ctx.count('queries_star_task')
    if star_c:
        ctx.count('queries_star_cycle')
    if q['selector'] is not None:
        ctx.count('with_selector')
    ctx.count('oracle_nonempty' if exp else 'oracle_empty')
    names = {r['name'] for r in rows}
    cycs = {r['cycle'] for r in rows}
    for o in M.opportunities(q['task'], names):
        ctx.count('opportunity_' + o)
    for o in M.opportunities(q['cycle'], cycs):
        ctx.count('opportunity_' + o)
        ctx.count('opportunity_cycle_' + o)
    # rows matching everything except the flow / selector filter
    loose = [r for r in rows if M.glob_match(q['task'], r['name'])
             and M.glob_match(q['cycle'], r['cycle'])]
    flow_removed = sel_removed = False
    if q['flow'] is not None:
        ctx.count('flow_filtered')
        flow_removed = any(q['flow'] not in r['flows'] for r in loose)
        if flow_removed:
            ctx.count('flow_filter_removed_row')
    if q['selector'] is not None:
        sel_removed = any(
            not selector_ok(r, q['selector'], q['mode']) for r in loose)
        if sel_removed:
            ctx.count('selector_removed_row')
    nontrivial = ((star_t or star_c) and 0 < len(exp) < len(rows)) or (
        bool(exp) and (flow_removed or sel_removed))
    qkey = (q['task'], q['cycle'], q['selector'], q['mode'], q['flow'])
    ctx.evaluated((tuple(sorted(names)), tuple(sorted(cycs)), qkey),
                  nontrivial=nontrivial)
    desc = {'query': q, 'via': via, 'db_names': sorted(names),
            'db_cycles': sorted(cycs), 'cycle_point_format': db['fmt']}

    index = {(r['name'], r['cycle'], r['flows']): r for r in rows}
    got, bad_rows = [], []
    for raw in result:
        try:
            got.append(parse_result_row(list(raw), q['mode']))
        except Exception as exc:
            bad_rows.append((list(raw), repr(exc)))
    if bad_rows:
        ctx.violation(
            'C40:malformed-result-row',
            f'query {qkey} returned a row not of the documented shape: '
            f'{bad_rows[0]}', {**desc, 'bad': bad_rows[:3]})
    want = {(r['name'], r['cycle'], r['flows']) for r in exp}
    seen = {}
    for name, cyc, flows, val in got:
        ident = (name, cyc, flows)
        seen[ident] = seen.get(ident, 0) + 1
        rec = index.get(ident)
        if rec is None:
            ctx.violation(
                'C40:unrecorded-row',
                f'query {qkey} returned {ident} which was never recorded',
                {**desc, 'row': ident})
            continue
        if _freeze(val) != _freeze(row_value(rec, q['mode'])):
            ctx.violation(
                f'C40:wrong-value:{q["mode"]}',
                f'query {qkey}: {ident} reported {val!r}, recorded '
                f'{row_value(rec, q["mode"])!r}', {**desc, 'row': ident})
        if ident in want:
            continue
        # spurious row: which criterion of the statement does it break?
        key, why = classify_extra(rec, q)
        ctx.violation(
            key,
            f'query task={q["task"]!r} cycle={q["cycle"]!r} '
            f'selector={q["selector"]!r} ({q["mode"]}) flow={q["flow"]} '
            f'returned {name!r} @ {cyc!r} flows={list(flows)}: {why}',
            {**desc, 'spurious_row': {'name': name, 'cycle': cyc,
                                      'flows': list(flows), 'value': val},
             'why': why,
             'model_rows': [[r['name'], r['cycle'], list(r['flows'])]
                            for r in exp][:12]})
    for ident, n in seen.items():
        if n > 1:
            ctx.violation(
                'C40:duplicate-row',
                f'query {qkey} returned {ident} {n} times',
                {**desc, 'row': ident})
    for ident in sorted(want - set(seen)):
        ctx.violation(
            f'C40:missing-row:{q["mode"]}',
            f'query task={q["task"]!r} cycle={q["cycle"]!r} '
            f'selector={q["selector"]!r} ({q["mode"]}) flow={q["flow"]} '
            f'did not return recorded matching instance {ident}',
            {**desc, 'missing_row': ident,
             'recorded': {'status': index[ident]['status'],
                          'outputs': index[ident]['outputs']},
             'returned': [list(g[:3]) for g in got][:12]})
    if ctx.counters.get('sampled', 0) < 3 and nontrivial:
        ctx.count('sampled')
        ctx.sample({**desc, 'model_rows': [
            [r['name'], r['cycle'], list(r['flows']),
             row_value(r, q['mode'])] for r in exp][:8],
            'returned': [list(map(str, raw)) for raw in result][:8]})
    return exp


def classify_extra(rec, q):
    """Mechanism key for a returned row the statement says must not match."""
    for field, pat, text in (('task', q['task'], rec['name']),
                             ('cycle', q['cycle'], rec['cycle'])):
        if M.glob_match(pat, text):
            continue
        rel = M.explain(pat, text)
        if rel is None:
            return (f'C40:{field}-mismatch-unexplained',
                    f'{field} pattern {pat!r} does not match {text!r}')
        first = rel[0]
        label = {'underscore': 'like-underscore-wildcard',
                 'percent': 'like-percent-wildcard',
                 'case': 'like-case-insensitive'}[first]
        what = {'underscore': "'_' in the pattern matched another character",
                'percent': "'%' in the pattern matched a string",
                'case': 'letters matched case-insensitively'}[first]
        extra = '' if len(rel) == 1 else f' (also needs: {", ".join(rel[1:])})'
        if '*' not in pat:
            # a different code path (exact comparison) misbehaving
            label = 'exact-' + label
        return (f'C40:{label}:{field}',
                f'{field} pattern {pat!r} must not match {text!r}; '
                f'{what}{extra}')
    if q['flow'] is not None and q['flow'] not in rec['flows']:
        return ('C40:flow-filter',
                f'instance is in flows {list(rec["flows"])}, not in '
                f'requested flow {q["flow"]}')
    if not selector_ok(rec, q['selector'], q['mode']):
        return (f'C40:selector:{q["mode"]}',
                f'selector {q["selector"]!r} does not hold for recorded '
                f'{row_value(rec, q["mode"])!r}')
    return ('C40:extra-row-unexplained', 'no criterion fails?')


# ---------------------------------------------------------------- contract
class C40ContractError(Exception):
    pass


def answer_equals_recorded_matches(self, task, cycle, selector, is_trigger,
                                   is_message, flow_num, result):
    """Post-condition of workflow_state_query (records, never raises)."""
    ctx, db = _S['ctx'], _S['model']
    if ctx is None or db is None:
        return True
    mode = 'trigger' if is_trigger else 'message' if is_message else 'status'
    q = {'task': task, 'cycle': cycle, 'selector': selector, 'mode': mode,
         'flow': flow_num}
    meta = _S['meta'] or {}
    exp = judge(ctx, db, q, result, meta.get('via', 'direct'))
    _S['last'] = {'q': q, 'n': len(result), 'n_expected': len(exp)}
    return True


def install_contract():
    if _S['installed']:
        return
    import icontract
    from cylc.flow.dbstatecheck import CylcWorkflowDBChecker
    orig = CylcWorkflowDBChecker.workflow_state_query
    CylcWorkflowDBChecker.workflow_state_query = icontract.ensure(
        answer_equals_recorded_matches,
        'answer equals the recorded matching instances',
        error=C40ContractError)(orig)
    _S['installed'] = True


def setup_shard(ctx):
    install_contract()
    import logging
    logging.getLogger('cylc').setLevel(logging.CRITICAL)


def ncases(tier):
    return NCASES[tier]


# ------------------------------------------------------------------ driver
def write_db(db, path):
    """Everything the checker will read goes through the real DAO."""
    from cylc.flow.rundb import CylcWorkflowDAO
    from cylc.flow.util import serialise_set
    os.makedirs(os.path.dirname(path), exist_ok=True)
    dao = CylcWorkflowDAO(path, create_tables=True)
    try:
        dao.add_insert_item(
            CylcWorkflowDAO.TABLE_WORKFLOW_PARAMS,
            {'key': 'cycle_point_format', 'value': db['fmt']})
        for r in db['rows']:
            fl = serialise_set(set(r['flows']))
            # as WorkflowDatabaseManager.put_insert_task_states/_outputs
            dao.add_insert_item(CylcWorkflowDAO.TABLE_TASK_STATES, {
                'name': r['name'], 'cycle': r['cycle'], 'flow_nums': fl,
                'time_created': '2020-01-01T00:00:00Z',
                'time_updated': '2020-01-01T00:00:00Z',
                'submit_num': r['submit_num'], 'status': 'waiting',
                'flow_wait': 0, 'is_manual_submit': 0})
            dao.add_insert_item(CylcWorkflowDAO.TABLE_TASK_OUTPUTS, {
                'name': r['name'], 'cycle': r['cycle'], 'flow_nums': fl,
                'outputs': json.dumps({})})
        dao.execute_queued_items()
        for r in db['rows']:
            fl = serialise_set(set(r['flows']))
            where = {'name': r['name'], 'cycle': r['cycle'], 'flow_nums': fl}
            # as put_update_task_state / put_update_task_outputs
            dao.add_update_item(
                CylcWorkflowDAO.TABLE_TASK_STATES,
                ({'status': r['status'],
                  'time_updated': '2020-01-01T00:00:01Z'}, dict(where)))
            dao.add_update_item(
                CylcWorkflowDAO.TABLE_TASK_OUTPUTS,
                ({'outputs': json.dumps(r['outputs'])}, dict(where)))
        dao.execute_queued_items()
    finally:
        dao.close()


def run_case(ctx, i, rng):
    from cylc.flow.dbstatecheck import CylcWorkflowDBChecker
    from cylc.flow.exceptions import InputError
    install_contract()
    _S['ctx'] = ctx
    db = gen_db(rng)
    wf = f'c40/w{i}'
    run_root = os.path.join(os.path.expanduser('~'), 'cylc-run')
    path = os.path.join(run_root, wf, 'log', 'db')
    if os.path.exists(path):
        os.remove(path)
    write_db(db, path)
    _S['model'] = db
    ctx.count('databases')
    ctx.count('db_rows', len(db['rows']))
    ctx.count('db:integer' if db['fmt'] is None else 'db:datetime')
    try:
        # path inferred from run dir + workflow name, as the poller does
        with CylcWorkflowDBChecker(run_root, wf) as checker:
            if checker.db_point_fmt != db['fmt'] or (
                    checker.c7_back_compat_mode):
                ctx.violation(
                    'C40:point-format-readback',
                    f'cycle point format recorded {db["fmt"]!r}, checker '
                    f'read {checker.db_point_fmt!r}', {'fmt': db['fmt']})
            for _ in range(QUERIES_PER_DB):
                q = gen_query(rng, db)
                _S['meta'] = {'via': 'direct'}
                _S['last'] = None
                try:
                    checker.workflow_state_query(
                        q['task'], q['cycle'], q['selector'],
                        q['mode'] == 'trigger', q['mode'] == 'message',
                        q['flow'])
                except InputError:
                    if (q['mode'] == 'status' and q['selector'] is not None
                            and q['selector'] not in FINAL_STATUSES):
                        ctx.count('rejected_transient_status')
                    else:
                        ctx.violation(
                            'C40:unexpected-InputError',
                            f'query {q} raised InputError', {'query': q})
                    continue
                if _S['last'] is None:
                    ctx.count('contract_not_evaluated')
        for _ in range(XTRIG_PER_DB):
            xtrigger_query(ctx, rng, db, wf)
    finally:
        _S['model'] = None
        _S['meta'] = None
        with contextlib.suppress(OSError):
            os.remove(path)


_ID_UNSAFE = re.compile(r'[/:\n~]')


def xtrigger_query(ctx, rng, db, wf):
    """The same oracle, reached through the real xtrigger function."""
    from cylc.flow.exceptions import InputError
    from cylc.flow.xtriggers.workflow_state import workflow_state
    q = gen_query(rng, db)
    if q['task'] is None:
        q['task'] = '*'
    if q['cycle'] is None:
        q['cycle'] = '*'
    if q['mode'] == 'status' and q['selector'] not in FINAL_STATUSES:
        q['selector'] = None if rng.random() < 0.3 else rng.choice(
            FINAL_STATUSES)
    if db['fmt'] is not None and '*' not in q['cycle'] and (
            q['cycle'] not in db['cycles']):
        ctx.count('discard_xtrigger_cycle_not_db_format')
        return
    sel = q['selector']
    for part in (q['task'], q['cycle'], sel or ''):
        if _ID_UNSAFE.search(part) or part != part.strip() or (
                part[:1] in ('"', "'")):
            ctx.count('discard_xtrigger_not_expressible_as_id')
            return
    id_ = f'{wf}//{q["cycle"]}/{q["task"]}'
    if sel is not None:
        id_ += f':{sel}'
    # what the xtrigger documents it will ask the database
    intended = dict(q)
    if sel is None:
        intended['selector'] = 'succeeded'    # documented default status
        if q['mode'] != 'status':
            # default 'succeeded' is then read as a trigger / message
            pass
    _S['meta'] = {'via': 'xtrigger'}
    _S['last'] = None
    buf = io.StringIO()
    try:
        with contextlib.redirect_stdout(buf), contextlib.redirect_stderr(buf):
            satisfied, results = workflow_state(
                id_, flow_num=q['flow'], is_trigger=q['mode'] == 'trigger',
                is_message=q['mode'] == 'message')
    except InputError as exc:
        ctx.violation('C40:xtrigger-InputError',
                      f'xtrigger {id_} raised {exc!r}', {'id': id_, 'q': q})
        return
    finally:
        _S['meta'] = None
    ctx.count('xtrigger_calls')
    last = _S['last']
    if last is None:
        ctx.violation(
            'C40:xtrigger-no-query',
            f'xtrigger {id_} returned {satisfied} without querying the '
            f'database', {'id': id_, 'q': q})
        return
    asked = last['q']
    if any(asked[k] != intended[k] for k in intended):
        ctx.violation(
            'C40:xtrigger-args',
            f'xtrigger {id_} flow={q["flow"]} {q["mode"]} asked the '
            f'database {asked}, the ID means {intended}',
            {'id': id_, 'asked': asked, 'intended': intended})
    if bool(satisfied) != (last['n'] > 0):
        ctx.violation(
            'C40:xtrigger-satisfied',
            f'xtrigger {id_} satisfied={satisfied} but the query returned '
            f'{last["n"]} rows', {'id': id_, 'q': q})
    ctx.count('xtrigger_satisfied' if satisfied else 'xtrigger_unsatisfied')
    if satisfied:
        if (results.get('task'), results.get('point')) != (
                q['task'], q['cycle']):
            ctx.violation(
                'C40:xtrigger-result-dict',
                f'xtrigger {id_} reported {results}', {'id': id_})
