"""What a generated dependency graph *means* (reference semantics).

Written from the user-level documentation of the cylc graph syntax, not from
the parser: no cylc import, no regular-expression rewriting of text.  Input is
a `vlib.gen.graphgen.Graph` AST; output is explicit data:

* per downstream task and suicide flag, the list of boolean expression trees
  (`vlib.models.boolexpr`) over *semantic atoms* ``(task, offset, output)``
  that must all hold;
* the graph edges ``(upstream atom text, downstream task, suicide, conditional)``;
* the optionality the author declared for ``(task, output)``.

Rules used (each is a sentence of the user guide):

* a plain name on the left means ``name:succeeded``; short qualifier names
  (``:fail``, ``:start`` ...) are aliases of the long ones;
* ``:finish`` is ``succeeded | failed`` and makes both outputs optional;
* ``FAM:<q>-all`` / ``FAM:<q>-any`` is the AND / OR over the family's member
  tasks of the member output for ``<q>``; a family on the right gives the
  trigger to every member and ``FAM:<q>-all?`` style marks apply to every
  member's output;
* ``a => b => c`` means ``a => b`` and ``b => c``; ``x => b & c`` means
  ``x => b`` and ``x => c``;
* ``=> !t`` is a suicide trigger; suicide triggers say nothing about output
  optionality;
* ``?`` marks an output optional, no mark on a *referenced* output means
  required; a plain task name at the right-hand end of a chain declares
  nothing about its outputs.
"""
from __future__ import annotations

from typing import Dict, List, Optional, Sequence, Set, Tuple

from vlib.models import boolexpr as B

STANDARD = ('succeeded', 'failed', 'started', 'submitted', 'submit-failed',
            'expired', 'finished')
ALIAS_TO_STD = {
    'succeed': 'succeeded', 'fail': 'failed', 'start': 'started',
    'submit': 'submitted', 'submit-fail': 'submit-failed',
    'expire': 'expired', 'finish': 'finished',
}
# family qualifier stem -> member output
FAMILY_MEMBER_OUTPUT = {
    'succeed': 'succeeded', 'fail': 'failed', 'finish': 'finished',
    'start': 'started', 'submit': 'submitted',
    'submit-fail': 'submit-failed', 'expire': 'expired',
}

Atom = Tuple[str, str, str]     # (task, offset text, standard output name)


def std_output(qual: str) -> str:
    """Standard output name of a written task qualifier ('' = succeeded)."""
    if not qual:
        return 'succeeded'
    return ALIAS_TO_STD.get(qual, qual)


def family_qualifier(qual: str) -> Optional[Tuple[str, bool]]:
    """(member output, all?) for 'fail-any' etc., None if not a family
    qualifier."""
    for mode in ('all', 'any'):
        suffix = '-' + mode
        if qual.endswith(suffix):
            stem = qual[:-len(suffix)]
            if stem in FAMILY_MEMBER_OUTPUT:
                return FAMILY_MEMBER_OUTPUT[stem], mode == 'all'
    return None


def _output_tree(task: str, offset: str, output: str) -> B.Tree:
    if output == 'finished':
        return B.or_(B.atom((task, offset, 'succeeded')),
                     B.atom((task, offset, 'failed')))
    return B.atom((task, offset, output))


def node_tree(node, families: Dict[str, Sequence[str]]) -> B.Tree:
    """Meaning of one left-hand node as a tree over semantic atoms."""
    if node.name in families:
        fq = family_qualifier(node.qual)
        if fq is None:
            raise ValueError(f'family node without family qualifier: {node}')
        output, is_all = fq
        members = [_output_tree(m, node.offset, output)
                   for m in families[node.name]]
        return B.conj(members) if is_all else B.disj(members)
    return _output_tree(node.name, node.offset, std_output(node.qual))


def left_tree(tree: B.Tree, families) -> B.Tree:
    """Meaning of a left-hand expression tree over Nodes."""
    return B.substitute(tree, lambda n: node_tree(n, families))


def node_outputs(node, families) -> List[Tuple[str, str]]:
    """The (task, real output) pairs a written node refers to.

    ':finish' refers to both succeeded and failed.  A family node refers to
    the member output of every member.  A plain family name (no qualifier)
    refers to nothing.
    """
    if node.name in families:
        fq = family_qualifier(node.qual)
        if fq is None:
            return []
        outs = ['succeeded', 'failed'] if fq[0] == 'finished' else [fq[0]]
        return [(m, o) for m in families[node.name] for o in outs]
    out = std_output(node.qual)
    outs = ['succeeded', 'failed'] if out == 'finished' else [out]
    return [(node.name, o) for o in outs]


def right_tasks(node, families) -> List[str]:
    return list(families[node.name]) if node.name in families else [node.name]


class Meaning:
    """Explicit semantics of a Graph (see module docstring)."""

    def __init__(self, graph, pairs):
        fam = graph.families
        self.families = fam
        # (task, suicide) -> [tree over semantic atoms]
        self.deps: Dict[Tuple[str, bool], List[B.Tree]] = {}
        # real edges
        self.edges: Set[Tuple[str, str, bool, bool]] = set()
        # every task that appears anywhere (families expanded)
        self.tasks: Set[str] = set()
        # tasks that appear without an offset (they get the section's
        # recurrence), by a non-suicide appearance
        self.tasks_cycling: Set[str] = set()
        # declared optionality: (task, output) -> set of flags seen
        self.declared: Dict[Tuple[str, str], Set[bool]] = {}

        for left, rnode, info in pairs:
            rtasks = right_tasks(rnode, fam)
            self.tasks.update(rtasks)
            if not rnode.offset and not rnode.suicide:
                self.tasks_cycling.update(rtasks)
            # ---- optionality declared by the right-hand occurrence
            explicit = bool(rnode.qual or rnode.opt)
            declares = (
                not rnode.suicide and
                (explicit or left is None or not info['end']))
            if rnode.name in fam and not rnode.qual:
                # plain family name: only a lone family line declares
                # (members' success, required unless '?')
                if left is None and not rnode.suicide:
                    for m in rtasks:
                        self._declare(m, 'succeeded', rnode.opt)
                declares = False
            if declares:
                if rnode.name in fam:
                    fq = family_qualifier(rnode.qual)
                    finish = bool(fq) and fq[0] == 'finished'
                else:
                    finish = std_output(rnode.qual) == 'finished'
                for task, out in node_outputs(rnode, fam):
                    self._declare(task, out, True if finish else rnode.opt)
            if left is None:
                continue
            # ---- dependency
            tree = left_tree(left, fam)
            for a in B.atoms(tree):
                self.tasks.add(a[0])
                if not a[1]:
                    self.tasks_cycling.add(a[0])
            conditional = B.has_or(left)
            if not rnode.offset:
                for t in rtasks:
                    self.deps.setdefault((t, rnode.suicide), []).append(tree)
                    for a in B.atoms(tree):
                        self.edges.add((atom_text(a), t, rnode.suicide,
                                        conditional))

    def _declare(self, task, output, optional):
        self.declared.setdefault((task, output), set()).add(bool(optional))

    # -- derived -----------------------------------------------------------
    def conj(self, task: str, suicide: bool = False) -> B.Tree:
        return B.conj(self.deps.get((task, suicide), []))

    def dependents(self) -> List[Tuple[str, bool]]:
        return sorted(self.deps)

    def consistent(self) -> bool:
        return all(len(v) == 1 for v in self.declared.values())

    def declared_flags(self) -> Dict[Tuple[str, str], bool]:
        """Single-valued declared optionality (only for consistent graphs)."""
        return {k: next(iter(v)) for k, v in self.declared.items()
                if len(v) == 1}


def atom_text(a: Atom) -> str:
    task, offset, output = a
    return f'{task}[{offset}]:{output}' if offset else f'{task}:{output}'


def parse_atom_text(text: str) -> Atom:
    """Inverse of atom_text for strings like 'foo[-P1]:succeeded'."""
    head, sep, output = text.rpartition(':')
    if not sep:
        raise ValueError(f'no output in atom {text!r}')
    if head.endswith(']') and '[' in head:
        name, _, off = head[:-1].partition('[')
        return (name, off, output)
    return (head, '', output)


def effective_optional(flags: Dict[Tuple[str, str], bool], task: str,
                       output: str) -> Optional[bool]:
    """Optionality of (task, output) given the flags a graph set, after the
    documented default: if neither success nor failure of a task is
    mentioned, success is required.  None = nothing said about it."""
    if (task, output) in flags:
        return bool(flags[(task, output)])
    if output == 'succeeded' and (task, 'failed') not in flags:
        return False
    return None


def effective_optionality(flags: Dict[Tuple[str, str], bool],
                          tasks: Sequence[str] = ()
                          ) -> Dict[Tuple[str, str], Optional[bool]]:
    """Normal form used to compare optionality between presentations:
    every set flag plus the defaulted success flag of `tasks` and of every
    task mentioned in `flags`."""
    out: Dict[Tuple[str, str], Optional[bool]] = {
        k: bool(v) for k, v in flags.items()}
    for t in set(tasks) | {t for t, _ in flags}:
        v = effective_optional(flags, t, 'succeeded')
        if v is not None:
            out[(t, 'succeeded')] = v
    return out


# -- strict single-line recogniser -----------------------------------------

_NAME_FIRST = set('abcdefghijklmnopqrstuvwxyzABCDEFGHIJKLMNOPQRSTUVWXYZ'
                  '0123456789_')
_NAME_REST = _NAME_FIRST | set('-+%@')
_QUAL = _NAME_FIRST | set('-')


def _lex(line: str) -> Optional[List[Tuple[str, str]]]:
    """Tokens (kind, text) of one graph line, None if a character fits
    nowhere.  kinds: arrow and or lpar rpar bang node."""
    toks = []
    i, n = 0, len(line)
    while i < n:
        c = line[i]
        if c in ' \t':
            i += 1
        elif line.startswith('=>', i):
            toks.append(('arrow', '=>'))
            i += 2
        elif c == '&':
            toks.append(('and', c))
            i += 1
        elif c == '|':
            toks.append(('or', c))
            i += 1
        elif c == '(':
            toks.append(('lpar', c))
            i += 1
        elif c == ')':
            toks.append(('rpar', c))
            i += 1
        elif c == '!':
            toks.append(('bang', c))
            i += 1
        elif c in _NAME_FIRST:
            j = i + 1
            while j < n and line[j] in _NAME_REST:
                j += 1
            if j < n and line[j] == '[':
                k = line.find(']', j)
                if k < 0 or k == j + 1 or any(
                        ch in ' \t' for ch in line[j:k]):
                    return None
                j = k + 1
            if j < n and line[j] == ':':
                k = j + 1
                while k < n and line[k] in _QUAL:
                    k += 1
                if k == j + 1:
                    return None
                j = k
            if j < n and line[j] == '?':
                j += 1
            toks.append(('node', line[i:j]))
            i = j
        else:
            return None
    return toks


def strictly_valid_line(line: str) -> bool:
    """Is this single physical line a well-formed graph line?

    Strict grammar (everything the generators produce satisfies it)::

        line  := lexpr ( '=>' nodes )*
        lexpr := term ( ('&'|'|') term )*          (no '!')
        term  := node | '(' lexpr ')'
        nodes := ['!'] node ( '&' ['!'] node )*    ('!' only in the last one)

    Used only to confirm that a mutant really is malformed; it errs on the
    side of calling odd-but-tolerated input malformed, so mutants come from a
    fixed catalogue of clear-cut errors rather than from this function.
    """
    toks = _lex(line)
    if not toks:
        return False
    segs: List[List[Tuple[str, str]]] = [[]]
    for t in toks:
        if t[0] == 'arrow':
            segs.append([])
        else:
            segs[-1].append(t)
    if any(not s for s in segs):
        return False

    def lexpr_ok(seg):
        pos = 0

        def term():
            nonlocal pos
            if pos >= len(seg):
                return False
            k = seg[pos][0]
            if k == 'node':
                pos += 1
                return True
            if k == 'lpar':
                pos += 1
                if not expr():
                    return False
                if pos >= len(seg) or seg[pos][0] != 'rpar':
                    return False
                pos += 1
                return True
            return False

        def expr():
            nonlocal pos
            if not term():
                return False
            while pos < len(seg) and seg[pos][0] in ('and', 'or'):
                pos += 1
                if not term():
                    return False
            return True
        return expr() and pos == len(seg)

    def nodes_ok(seg, allow_bang):
        pos = 0
        expect_node = True
        while pos < len(seg):
            k = seg[pos][0]
            if expect_node:
                if k == 'bang':
                    if not allow_bang:
                        return False
                    pos += 1
                    if pos >= len(seg) or seg[pos][0] != 'node':
                        return False
                    k = 'node'
                if k != 'node':
                    return False
                expect_node = False
            else:
                if k != 'and':
                    return False
                expect_node = True
            pos += 1
        return not expect_node

    if not lexpr_ok(segs[0]):
        return False
    for i, seg in enumerate(segs[1:], 1):
        if not nodes_ok(seg, allow_bang=(i == len(segs) - 1)):
            return False
    return True
