"""Observation hooks installed from /verif on the imported cylc.flow classes
(DESIGN §2.2). Wrappers record and return; they never change behaviour."""
from __future__ import annotations

import functools
import traceback

DRV = None  # current Driver (set by phases.run_phase)
_installed = False


def _emit(kind, **kw):
    if DRV is not None:
        try:
            return DRV.bus.emit(kind, **kw)
        except Exception:
            DRV.bus.emit_error(kind, traceback.format_exc(limit=6))


def _flags(itask):
    st = itask.state
    return [st.status, bool(st.is_held), bool(st.is_queued),
            bool(st.is_runahead)]


def install():
    global _installed
    if _installed:
        return
    _installed = True
    from cylc.flow.task_proxy import TaskProxy
    from cylc.flow.task_pool import TaskPool
    from cylc.flow.task_events_mgr import TaskEventsManager
    from cylc.flow.task_job_mgr import TaskJobManager
    from cylc.flow.flow_mgr import FlowMgr
    from cylc.flow.scheduler import Scheduler
    from cylc.flow.xtrigger_mgr import XtriggerManager

    # LOG: respawn refusals ("Not respawning P/N - task was removed") are
    # only visible in the scheduler log
    import logging
    import re as _re
    from cylc.flow import LOG as _LOG

    class _Obs(logging.Handler):
        REC = _re.compile(r'^Not respawning (\S+) - task was removed')

        def emit(self, record):
            try:
                m = self.REC.match(str(record.msg))
                if m:
                    _emit('RESPAWN_REFUSED', id=m.group(1))
            except Exception:
                pass

    _LOG.addHandler(_Obs(level=logging.INFO))

    # STATE ---------------------------------------------------------------
    orig_reset = TaskProxy.state_reset

    @functools.wraps(orig_reset)
    def state_reset(self, *a, **kw):
        before = _flags(self)
        ret = orig_reset(self, *a, **kw)
        after = _flags(self)
        if kw.get('silent'):
            # a display-only proxy the data store builds from DB history
            # for the n-window: not a task of the pool
            return ret
        if before != after:
            _emit('STATE', id=self.identity, before=before, after=after,
                  forced=bool(kw.get('forced', False)),
                  transient=bool(self.transient),
                  submit_num=self.submit_num, flows=sorted(self.flow_nums))
        return ret
    TaskProxy.state_reset = state_reset

    # MSG -------------------------------------------------------------------
    orig_pm = TaskEventsManager.process_message

    @functools.wraps(orig_pm)
    def process_message(self, itask, severity, message, event_time=None,
                        flag=TaskEventsManager.FLAG_INTERNAL,
                        submit_num=None, forced=False):
        depth = getattr(self, '_verif_depth', 0)
        self._verif_depth = depth + 1
        b_status = itask.state.status
        b_outs = sorted(itask.state.outputs.get_completed_outputs())
        b_num = itask.submit_num
        b_transient = bool(itask.transient)   # already out of the pool?
        ev = _emit('MSG_IN', id=itask.identity, message=message, flag=flag,
                   submit_num=submit_num, cur_num=b_num, forced=bool(forced),
                   status=b_status, outputs=b_outs, depth=depth,
                   transient=bool(itask.transient))
        try:
            ret = orig_pm(self, itask, severity, message, event_time, flag,
                          submit_num, forced)
        finally:
            self._verif_depth = depth
        _emit('MSG_OUT', id=itask.identity, message=message, flag=flag,
              submit_num=submit_num, cur_num=b_num, forced=bool(forced),
              ret=bool(ret), status_before=b_status,
              status_after=itask.state.status, outputs_before=b_outs,
              outputs_after=sorted(
                  itask.state.outputs.get_completed_outputs()),
              depth=depth, transient=b_transient,
              removed=bool(itask.transient) and not b_transient,
              in_seq=ev['seq'] if ev else None)
        return ret
    TaskEventsManager.process_message = process_message

    # JOB FILE FAULTS -------------------------------------------------------
    # A planned submission failure is realised, for a deterministic third of
    # the jobs concerned, as an I/O error while the job file is written
    # (disk full / unwritable job directory) instead of a failing
    # jobs-submit command: the "(prepare job file)" error path.
    from cylc.flow.job_file import JobFileWriter
    orig_write = JobFileWriter.write

    @functools.wraps(orig_write)
    def write(self, local_job_file_path, job_conf, check_syntax=True):
        drv = DRV
        jid = str(job_conf.get('job_d', ''))
        try:
            p, n, num = jid.split('/')
            plan = drv.world.plan_for(p, n, int(num)) if drv else None
        except Exception:
            plan = None
        if plan is not None and not plan['submit_ok'] and \
                drv.case.get('prep_faults', True):
            from vlib.core.ctx import stable_hash
            if stable_hash([drv.case.get('seed'), jid, 'prep']) % 3 == 0:
                _emit('PREP_FAULT', job=jid)
                raise OSError(28, 'No space left on device (injected)')
        return orig_write(self, local_job_file_path, job_conf, check_syntax)
    JobFileWriter.write = write

    # PREP ------------------------------------------------------------------
    orig_submit = TaskJobManager.submit_task_jobs

    @functools.wraps(orig_submit)
    def submit_task_jobs(self, itasks, run_mode):
        itasks = list(itasks)
        from vlib.e1.driver import snap_task
        _emit('PREP', tasks=[snap_task(t) for t in itasks])
        return orig_submit(self, itasks, run_mode)
    TaskJobManager.submit_task_jobs = submit_task_jobs

    # job-file syntax check (`bash -n`, one subprocess per job) is skipped:
    # it belongs to no scheduler-level property and dominates the run time
    orig_prep = TaskJobManager._prep_submit_task_job

    @functools.wraps(orig_prep)
    def _prep_submit_task_job(self, itask, check_syntax=True):
        return orig_prep(self, itask, check_syntax=False)
    TaskJobManager._prep_submit_task_job = _prep_submit_task_job

    # POOL_ADD / POOL_REMOVE ----------------------------------------------
    orig_add = TaskPool.add_to_pool

    @functools.wraps(orig_add)
    def add_to_pool(self, itask):
        already = itask.identity in self.active_tasks.get(itask.point, {})
        ret = orig_add(self, itask)
        if not already:
            from vlib.e1.driver import snap_task
            _emit('POOL_ADD', task=snap_task(itask))
        return ret
    TaskPool.add_to_pool = add_to_pool

    orig_remove = TaskPool.remove

    @functools.wraps(orig_remove)
    def remove(self, itask, reason=None):
        present = itask.identity in self.active_tasks.get(itask.point, {})
        from vlib.e1.driver import snap_task
        snap = snap_task(itask) if present else None
        ret = orig_remove(self, itask, reason)
        if present:
            _emit('POOL_REMOVE', task=snap, reason=reason)
        return ret
    TaskPool.remove = remove

    # SPAWN_ON_OUTPUT -------------------------------------------------------
    orig_soo = TaskPool.spawn_on_output

    @functools.wraps(orig_soo)
    def spawn_on_output(self, itask, output):
        ev = _emit('SPAWN_IN', id=itask.identity, output=output,
                   flows=sorted(itask.flow_nums),
                   flow_wait=bool(itask.flow_wait))
        ret = orig_soo(self, itask, output)
        _emit('SPAWN_OUT', id=itask.identity, output=output,
              in_seq=ev['seq'] if ev else None)
        return ret
    TaskPool.spawn_on_output = spawn_on_output

    # SET / REMOVE (command bodies) ---------------------------------------
    orig_set = TaskPool.set_prereqs_and_outputs

    @functools.wraps(orig_set)
    def set_prereqs_and_outputs(self, items, outputs, prereqs, flow,
                                flow_wait=False, flow_descr=None):
        from vlib.e1.driver import snap_pool
        ev = _emit('SET_IN', items=sorted(i.relative_id for i in items),
                   outputs=list(outputs or []), prereqs=list(prereqs or []),
                   flow=list(flow or []), pool=snap_pool(self))
        ret = orig_set(self, items, outputs, prereqs, flow, flow_wait,
                       flow_descr)
        _emit('SET_OUT', pool=snap_pool(self),
              in_seq=ev['seq'] if ev else None)
        return ret
    TaskPool.set_prereqs_and_outputs = set_prereqs_and_outputs

    from cylc.flow import commands as _commands
    orig_rm = _commands._remove_matched_tasks

    @functools.wraps(orig_rm)
    def _remove_matched_tasks(schd, ids, flow_nums, *a, **kw):
        from vlib.e1.driver import snap_pool
        ev = _emit('REMOVE_IN', ids=sorted(i.relative_id for i in ids),
                   flow_nums=sorted(flow_nums), pool=snap_pool(schd.pool))
        ret = orig_rm(schd, ids, flow_nums, *a, **kw)
        _emit('REMOVE_OUT', pool=snap_pool(schd.pool),
              in_seq=ev['seq'] if ev else None)
        return ret
    _commands._remove_matched_tasks = _remove_matched_tasks

    # RELOAD ----------------------------------------------------------------
    orig_reload = TaskPool.reload

    @functools.wraps(orig_reload)
    def reload(self, config):
        from vlib.e1.driver import snap_pool
        ev = _emit('RELOAD_IN', pool=snap_pool(self))
        ret = orig_reload(self, config)
        _emit('RELOAD_OUT', pool=snap_pool(self),
              in_seq=ev['seq'] if ev else None)
        return ret
    TaskPool.reload = reload

    # RUNAHEAD --------------------------------------------------------------
    orig_rr = TaskPool.release_runahead_tasks

    @functools.wraps(orig_rr)
    def release_runahead_tasks(self):
        before = {t.identity: (bool(t.state.is_runahead), t.state.status,
                               bool(t.is_manual_submit))
                  for t in self.get_tasks()}
        points = sorted({str(t.point) for t in self.get_tasks()},
                        key=_pkey)
        ev = _emit('RH_IN', pool_points=points,
                   limit=(str(self.runahead_limit_point)
                          if self.runahead_limit_point else None),
                   stop=str(self.stop_point) if self.stop_point else None,
                   future=[[t.identity,
                            str(t.tdef.max_future_prereq_offset)]
                           for t in self.get_tasks()
                           if t.tdef.max_future_prereq_offset is not None])
        ret = orig_rr(self)
        released = []
        for t in self.get_tasks():
            b = before.get(t.identity)
            if b and b[0] and not t.state.is_runahead:
                released.append([t.identity, b[1], b[2]])
        _emit('RH_OUT', released=released, in_seq=ev['seq'] if ev else None)
        return ret
    TaskPool.release_runahead_tasks = release_runahead_tasks

    # QUEUE -----------------------------------------------------------------
    orig_rq = TaskPool.release_queued_tasks

    @functools.wraps(orig_rq)
    def release_queued_tasks(self):
        census = [[t.identity, t.tdef.name, t.state.status,
                   bool(t.waiting_on_job_prep), bool(t.state.is_queued),
                   bool(t.state.is_held), bool(t.is_manual_submit)]
                  for t in self.get_tasks()]
        was_queued = {t.identity for t in self.get_tasks()
                      if t.state.is_queued}
        _emit('QUEUE_IN', census=census)
        ret = orig_rq(self)
        rel = [t.identity for t in self.get_tasks()
               if t.identity in was_queued and not t.state.is_queued]
        _emit('QUEUE_REL', released=rel,
              returned=sorted(t.identity for t in ret))
        return ret
    TaskPool.release_queued_tasks = release_queued_tasks

    # FLOW_NEW --------------------------------------------------------------
    orig_gf = FlowMgr.get_flow

    @functools.wraps(orig_gf)
    def get_flow(self, flow_num=None, *a, **kw):
        ret = orig_gf(self, flow_num, *a, **kw)
        _emit('FLOW_NEW', requested=flow_num, returned=ret,
              counter=self.counter)
        return ret
    FlowMgr.get_flow = get_flow

    # main loop wrapper -----------------------------------------------------
    orig_ml = Scheduler._main_loop

    @functools.wraps(orig_ml)
    async def _main_loop(self):
        if DRV is not None:
            DRV.before_iter(self)
            await DRV.run_actions(self)
        await orig_ml(self)
        if DRV is not None:
            DRV.after_iter(self)
    Scheduler._main_loop = _main_loop
    Scheduler.INTERVAL_MAIN_LOOP = 0.0
    Scheduler.INTERVAL_MAIN_LOOP_QUICK = 0.0

    # the reload command's wait-for-submission loop blocks the main loop:
    # keep the job world running from inside it
    orig_pqtm = Scheduler.process_queued_task_messages

    @functools.wraps(orig_pqtm)
    def process_queued_task_messages(self):
        if DRV is not None and self.reload_pending == (
                'waiting for pending tasks to submit'):
            DRV._safe(DRV.inner_tick, self)
        return orig_pqtm(self)
    Scheduler.process_queued_task_messages = process_queued_task_messages

    # stall decision point (C03: judged on the pool as it was when the
    # scheduler decided, not at the end of the iteration)
    orig_cws = Scheduler.check_workflow_stalled

    @functools.wraps(orig_cws)
    def check_workflow_stalled(self):
        before = bool(self.is_stalled)
        ret = orig_cws(self)
        if DRV is not None and not before and self.is_stalled:
            from vlib.e1.driver import snap_pool
            snap = snap_pool(self.pool)
            _emit('STALL_DECIDED', n=len(snap))
            for m in DRV.monitors:
                if hasattr(m, 'on_stall_decided'):
                    DRV._safe(m.on_stall_decided, DRV, snap)
        return ret
    Scheduler.check_workflow_stalled = check_workflow_stalled

    # data-store update point (C25 oracle A)
    orig_uds = Scheduler.update_data_structure

    @functools.wraps(orig_uds)
    async def update_data_structure(self, *a, **kw):
        ret = await orig_uds(self, *a, **kw)
        if DRV is not None:
            for m in DRV.monitors:
                if hasattr(m, 'after_data_store_update'):
                    DRV._safe(m.after_data_store_update, DRV, self)
        return ret
    Scheduler.update_data_structure = update_data_structure

    # xtrigger housekeeping (C33)
    orig_hk = XtriggerManager.housekeep

    @functools.wraps(orig_hk)
    def housekeep(self, itasks):
        itasks = list(itasks)
        _emit('XTRIG_HOUSEKEEP', sat=sorted(self.sat_xtrig),
              needed=sorted({
                  self.get_xtrig_ctx(t, label).get_signature()
                  for t in itasks for label, sat in t.state.xtriggers.items()
                  if not sat}))
        return orig_hk(self, itasks)
    XtriggerManager.housekeep = housekeep

    from cylc.flow.network.server import WorkflowRuntimeServer
    WorkflowRuntimeServer.STOP_SLEEP_INTERVAL = 0.005
    WorkflowRuntimeServer.OPERATE_SLEEP_INTERVAL = 0.005


def _pkey(p):
    try:
        return (0, int(p))
    except ValueError:
        return (1, p)
