"""Shared single-phase workload for ride-along E1 checks."""
from __future__ import annotations

from vlib.e1 import runner
from vlib.gen import wfgen

ALL_MON = ['c01', 'c07', 'c02', 'c09', 'c26', 'c10', 'c03', 'c04', 'c05',
           'c11', 'c31']

E1_META = {
    'engine': 'E1 schedmon',
    'level': 'exploration',
    'budget': {'quick': 120, 'thorough': 1200},
}
E1_NOTE = ('Held on the runs executed. Trusted: wfgen ground truth and '
           'reference models (vlib/models), the fake job world and its '
           'emulated jobs-submit/poll/kill output (DESIGN Appendix B), '
           'virtual clock. Not generated: job vacation, remote platforms, '
           'event handlers.')


def simple_case(ctx, i, rng, pid, feat, plan_class='mixed', hostile=0.7,
                monitors=None, script_fn=None, extra=None, policy_fn=None):
    """Generate workflow + case, run one phase, account the run.

    Returns (case, results) or (None, None) when discarded."""
    gt = wfgen.gen_workflow(rng, feat)
    case = runner.build_case(rng, gt, plan_class, hostile=hostile,
                             extra=extra)
    if policy_fn:
        policy_fn(rng, case)
    phase = {'name': 'run'}
    if script_fn:
        phase['script'] = script_fn(rng, case)
    results = runner.run_case(ctx, f'c{i}', case, [phase],
                              monitors or ALL_MON, pid)
    if results is None:
        ctx.evaluated(('discard', i), nontrivial=False)
        return None, None
    res = results[0]
    end = (res.get('monitors') or {}).get('end') or {}
    nsub = sum(len(v) for v in (end.get('submits') or {}).values())
    auto = (res.get('stop_reason') or '').endswith('AUTOMATIC')
    if auto:
        ctx.count('ended_auto_shutdown')
    elif end.get('stalled'):
        ctx.count('ended_stalled')
    if res.get('capped'):
        ctx.count('capped_runs')
    ctx.evaluated(runner.trace_key(results),
                  nontrivial=nsub >= 3 and not res.get('capped'))
    ctx.sample({'flow': gt['flow_text'], 'policy': case['policy'],
                'submits': end.get('submits'),
                'ended': res.get('stop_reason')})
    return case, results
