"""C03 No premature shutdown and no false stall; bounded readiness latency."""
from vlib.e1.common import E1_META, E1_NOTE, simple_case
from vlib.gen import wfgen

PID = 'C03'
META = dict(E1_META, **{
    'technique': 'monitor at automatic shutdown and at each stall report over '
                 'the pool snapshot with GT prerequisite/completion models; '
                 'per-iteration bounded-latency monitor for ready tasks',
    'level_text': (
        'In real scheduler runs with failing / partially completing plans: '
        'at automatic shutdown no pooled task is active, runnable, finished-'
        'but-incomplete (GT completion rule) or partially satisfied within '
        'the stop point, and the job world has no live job; at a stall '
        'report no task is active or runnable; liveness is restated as '
        'bounded progress: a task that is continuously ready (GT '
        'prerequisites true over told outputs, xtriggers satisfied, not '
        'held, within the model runahead limit, unlimited queue, workflow '
        'not paused/stopping) reaches job preparation within K=6 main-loop '
        'iterations.'),
    'level_note': E1_NOTE + ' The unbounded "never leaves a task unsubmitted '
                  'indefinitely" is decided only as the K-iteration bound.',
    'design_ref': 'DESIGN.md §5 C03',
})
RULE = ('case = generated workflow + plan with required-success failures and '
        'partial custom outputs + hostile delivery; distinct by event census')
ASSUMPTIONS = ['readiness predicate is conservative: only asserted when '
               'every gating condition is unambiguously open']
MIN = {'c03.auto_shutdown_checks': 30, 'c03.stall_checks': 30,
       'c03.ready_task_iterations': 300}
NCASES = {'quick': 1000, 'thorough': 12000}


def ncases(tier):
    return NCASES[tier]


def run_case(ctx, i, rng):
    feat = wfgen.Features(future_offsets=rng.random() < 0.3,
                          stop_after=rng.random() < 0.3,
                          retries=rng.random() < 0.3,
                          # a task waiting for an xtrigger can still make
                          # progress: no stall while one is pending
                          xtriggers=rng.random() < 0.25)
    klass = rng.choice(['with-failures', 'with-failures', 'all-complete'])
    simple_case(ctx, i, rng, PID, feat, plan_class=klass, hostile=0.5)
