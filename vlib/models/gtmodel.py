"""Reference models over the wfgen ground truth (DESIGN §4).

Pure functions of the GT and the outcome plans; never call cylc.
"""
from __future__ import annotations

from typing import Dict, List, Optional, Set, Tuple

from vlib.gen import wfgen

Fact = Tuple[str, int, str]   # (task, point, output)


def eval_expr(tree, point: int, facts: Set[Fact], initial: int) -> bool:
    """Truth of an expression tree for the instance at `point`.

    Atoms on instances before the initial point count as satisfied."""
    if tree[0] == 'atom':
        _, t, off, o = tree
        p = wfgen.atom_point(tree, point)
        if p < initial:
            return True
        if o == 'finished':
            return (t, p, 'succeeded') in facts or (t, p, 'failed') in facts
        return (t, p, o) in facts
    a = eval_expr(tree[1], point, facts, initial)
    b = eval_expr(tree[2], point, facts, initial)
    return (a and b) if tree[0] == 'and' else (a or b)


def plan_tries(case: dict, name: str, point: int) -> list:
    plans = case.get('plans', {})
    p = plans.get(f'{point}/{name}') or plans.get(name) or {}
    return p.get('tries') or [{}]


def job_plan(case: dict, name: str, point: int, num: int) -> dict:
    plans = case.get('plans', {})
    p = plans.get(f'{point}/{name}') or plans.get(name) or {}
    tries = p.get('tries')
    t = tries[min(num - 1, len(tries) - 1)] if tries else {}
    return {
        'submit_ok': t.get('submit_ok', True),
        'outputs': t.get('outputs', p.get('outputs', [])),
        'result': t.get('result', 'succeeded'),
    }


def instance_outcome(case: dict, name: str, point: int) -> dict:
    """What an instance produces if it runs with automatic retries only.

    Returns {'outputs': set, 'jobs': n, 'final': status, 'exec_fails': n}.
    """
    td = case['gt']['tasks'][name]
    N, M = td['exec_retries'], td['submit_retries']
    outs: Set[str] = set()
    exec_fail = 0
    sub_fail = 0
    num = 0
    final = None
    while num < 50:
        num += 1
        jp = job_plan(case, name, point, num)
        if not jp['submit_ok']:
            sub_fail += 1
            if sub_fail > M:
                outs.add('submit-failed')
                final = 'submit-failed'
                break
            continue
        sub_fail = 0
        outs.update(['submitted', 'started'])
        outs.update(jp['outputs'])
        if jp['result'] == 'succeeded':
            outs.add('succeeded')
            final = 'succeeded'
            break
        if jp['result'] == 'failed':
            exec_fail += 1
            if exec_fail > N:
                outs.add('failed')
                final = 'failed'
                break
            continue
        final = 'running'   # hang
        break
    return {'outputs': outs, 'jobs': num, 'final': final,
            'exec_fails': exec_fail}


def stop_point(gt) -> int:
    return gt['stop_after'] if gt.get('stop_after') is not None \
        else gt['final']


def closure(case: dict, start: Optional[int] = None,
            start_tasks=None) -> dict:
    """Spawn-on-demand closure (DESIGN §4 'Closure model').

    Returns {'run': set((task, point)), 'stuck': set, 'incomplete': set,
             'facts': set}.
    """
    gt = case['gt']
    initial = gt['initial']
    cut = initial if start is None else start
    stop = stop_point(gt)
    run: Set[Tuple[str, int]] = set()
    facts: Set[Fact] = set()
    incomplete = set()
    inst = []
    for t in gt['names']:
        for p in wfgen.task_points(gt, t):
            if cut <= p <= stop:
                inst.append((t, p))
    info = {}
    for (t, p) in inst:
        arrows = wfgen.arrows_at(gt, t, p)
        ats = [a for ar in arrows for a in wfgen.atoms(ar)]
        beyond = any(wfgen.atom_point(a, p) > stop for a in ats)
        rel = [a for a in ats if wfgen.atom_point(a, p) >= cut
               and not isinstance(a[2], tuple)]
        absol = [a for a in ats if isinstance(a[2], tuple)]
        info[(t, p)] = (arrows, rel, absol, beyond)
    seq_prev = {}
    for t in gt['names']:
        if gt['tasks'][t]['sequential']:
            pts = [p for p in wfgen.task_points(gt, t) if cut <= p]
            for a, b in zip(pts, pts[1:]):
                seq_prev[(t, b)] = (t, a)

    def sat_atom(a, p):
        t, o = a[1], a[3]
        q = wfgen.atom_point(a, p)
        if o == 'finished':
            return (t, q, 'succeeded') in facts or (t, q, 'failed') in facts
        return (t, q, o) in facts

    seeds = None
    if start_tasks is not None:
        seeds = {(n, int(p)) for p, n in (x.split('/', 1)
                                          for x in start_tasks)}
    spawned: Set[Tuple[str, int]] = set()
    changed = True
    while changed:
        changed = False
        for (t, p) in inst:
            if (t, p) in run:
                continue
            arrows, rel, absol, beyond = info[(t, p)]
            if beyond:
                continue
            parentless = not rel and (t, p) not in seq_prev
            if seeds is not None:
                # start tasks: only the seeds, and later parentless
                # instances of tasks already in the run set, auto-spawn
                parentless = ((t, p) in seeds or (
                    parentless and any((t, q) in spawned
                                       for q in range(cut, p))))
            is_spawned = parentless or any(sat_atom(a, p) for a in rel)
            if (t, p) in seq_prev and (
                    seq_prev[(t, p)] + ('succeeded',)) in facts:
                is_spawned = True
            if not is_spawned:
                continue
            if (t, p) not in spawned:
                # in the pool (even if it then waits for ever): its next
                # parentless instance is spawned from it
                spawned.add((t, p))
                changed = True
            ok = all(eval_expr(ar, p, facts, cut) for ar in arrows)
            if (t, p) in seq_prev:
                ok = ok and (seq_prev[(t, p)] + ('succeeded',)) in facts
            if seeds is not None and (t, p) in seeds:
                ok = True     # all prerequisites set satisfied at start-up
            if not ok:
                continue
            run.add((t, p))
            oc = instance_outcome(case, t, p)
            for o in oc['outputs']:
                facts.add((t, p, o))
            if not wfgen.is_complete(gt, t, oc['outputs']):
                incomplete.add((t, p))
            changed = True
    stuck = set()
    for (t, p) in inst:
        if (t, p) in run:
            continue
        arrows, rel, absol, beyond = info[(t, p)]
        if beyond:
            continue
        if any(sat_atom(a, p) for a in rel) or (
                seeds is None and not rel and (t, p) not in seq_prev) or (
                (t, p) in seq_prev and
                (seq_prev[(t, p)] + ('succeeded',)) in facts):
            stuck.add((t, p))
    return {'run': run, 'stuck': stuck, 'incomplete': incomplete,
            'facts': facts}
