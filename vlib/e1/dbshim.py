"""Counting SQLite connection handed to cylc.flow.rundb (DESIGN §3.5).

Counts write statements and commits on the *private* run database and can
kill the process (real os._exit) at a chosen index: exactly where a real
process death could interrupt a transaction.
"""
from __future__ import annotations

import sqlite3
import types


class Counter:
    def __init__(self):
        self.n = 0
        self.kill_at = None
        self.on_kill = None
        self.kinds = []


COUNTER = Counter()


def _tick(kind):
    c = COUNTER
    c.n += 1
    if c.kill_at is not None and c.n == c.kill_at:
        c.kinds.append(kind)
        if c.on_kill:
            c.on_kill(kind)


class CountingConnection(sqlite3.Connection):
    _verif_private = False

    def execute(self, sql, *a):
        if self._verif_private and not sql.lstrip().upper().startswith(
                ('SELECT', 'PRAGMA')):
            _tick('execute')
        return super().execute(sql, *a)

    def executemany(self, sql, *a):
        if self._verif_private:
            _tick('executemany')
        return super().executemany(sql, *a)

    def commit(self):
        if self._verif_private:
            _tick('commit:before')
        r = super().commit()
        if self._verif_private:
            _tick('commit:after')
        return r


def install(private_marker='.service'):
    """Replace the sqlite3 module seen by cylc.flow.rundb."""
    import cylc.flow.rundb as rundb
    shim = types.ModuleType('sqlite3_verif_shim')
    shim.__dict__.update({k: getattr(sqlite3, k) for k in dir(sqlite3)
                          if not k.startswith('__')})

    def connect(database, *a, **kw):
        kw.setdefault('factory', CountingConnection)
        conn = sqlite3.connect(database, *a, **kw)
        if isinstance(conn, CountingConnection):
            conn._verif_private = private_marker in str(database)
        return conn
    shim.connect = connect
    rundb.sqlite3 = shim
    return COUNTER
