"""C10 Stale, duplicate and out-of-order job messages cannot corrupt state."""
from vlib.e1.common import E1_META, E1_NOTE, simple_case
from vlib.gen import wfgen

PID = 'C10'
META = dict(E1_META, **{
    'technique': 'online monitor of every received job message (before/after '
                 'status and outputs) + end-of-run comparison with the job '
                 "world's latest job",
    'level_text': (
        'Real scheduler runs with every message perturbation (re-order, '
        'duplicate, delay, stale re-send from older submit numbers, poll '
        'results racing pushed messages). Monitor: a message from an older '
        'submit number changes neither status nor outputs; a received '
        'message implying an earlier lifecycle stage changes nothing and '
        'requests a poll; at quiescence the final status and outputs of each '
        'pooled task match the outcome of its latest job in the job world.'),
    'level_note': E1_NOTE,
    'design_ref': 'DESIGN.md §5 C10',
})
RULE = ('case = generated workflow + mixed plan + maximally hostile delivery '
        'policy + scripted poll commands; distinct by event census')
ASSUMPTIONS = ['stale messages are re-sent copies of earlier delivered '
               'messages (same text, old submit number)']
MIN = {'c10.received': 1500, 'c10.stale_received': 20,
       'c10.backward_messages': 20, 'c10.final_checks': 200}
NCASES = {'quick': 1000, 'thorough': 12000}


def ncases(tier):
    return NCASES[tier]


def hostile_policy(rng, case):
    case['policy'].update({
        'p_reorder': rng.choice([0.3, 0.7, 1.0]),
        'p_dup': rng.choice([0.2, 0.5]),
        'p_stale': rng.choice([0.2, 0.5]),
        'p_deliver': rng.choice([0.3, 0.6]),
    })


def polls(rng, case):
    n = rng.randint(0, 4)
    return [{'at': rng.randint(2, 25), 'cmd': 'poll_tasks',
             'args': {'tasks': ['*/*']}} for _ in range(n)]


def run_case(ctx, i, rng):
    feat = wfgen.Features(retries=rng.random() < 0.7, max_tasks=5,
                          max_final=4)
    simple_case(ctx, i, rng, PID, feat, plan_class='mixed', hostile=1.0,
                policy_fn=hostile_policy, script_fn=polls)
