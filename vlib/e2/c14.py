"""C14 Graph parsing is faithful and insensitive to presentation.

Monitor shape: a generated graph AST (vlib.gen.graphgen) is rendered in many
textual forms; every form is given to the real `GraphParser.parse_graph`
(and a sample of forms to the real `WorkflowConfig`), and what comes out is
compared with the AST's documented meaning (vlib.models.graphsem) by truth
table (vlib.models.boolexpr), and between forms.  Malformed mutants of a
line must raise GraphParseError.
"""
from __future__ import annotations

import os

from vlib.gen import graphgen as G
from vlib.models import boolexpr as B
from vlib.models import graphsem as S

PID = 'C14'
META = {
    'engine': 'E2 funcmon',
    'level': 'exploration',
    'technique': 'metamorphic + reference-semantics monitor on GraphParser / '
                 'WorkflowConfig over generated graph ASTs in many renderings',
    'level_text': (
        'Random consistent graph ASTs (chains, AND/OR/parentheses, '
        'qualifiers and aliases, offsets, suicide marks, families, colliding '
        'names) are rendered in >= 8 presentations each (pairs / joined / '
        'chains, spacing, comments, continuation lines, duplicates, '
        'shuffling, redundant parentheses, alias spelling).  For every '
        'rendering the real parser output is compared with the AST meaning '
        '(per downstream task the conjunction of its trigger expressions, by '
        'truth table; declared optionality), renderings are compared with '
        'each other, two renderings per AST go through a real '
        'WorkflowConfig load (TaskDef dependencies, edges, required-output '
        'flags), and catalogue mutants of a line must raise GraphParseError. '
        'Held = no disagreement on the ASTs explored.'),
    'level_note': 'Reference semantics vlib/models/graphsem.py and the '
                  'truth-table evaluator vlib/models/boolexpr.py are trusted.',
    'design_ref': 'DESIGN.md §5 C14',
    'budget': {'quick': 120, 'thorough': 900},
}
RULE = ('case = one generated graph AST (2-5 chains over 3-7 tasks); '
        'distinct by its canonical text; non-trivial when it has at least '
        'one arrow with an OR or a chain of >= 2 arrows and was judged in '
        '>= 8 renderings; every rendering parsed counts in renderings_parsed, '
        'every (task, rendering) dependency comparison in dep_comparisons')
ASSUMPTIONS = [
    'dependencies are compared per downstream task and suicide flag as the '
    'conjunction of that task\'s trigger expressions (the parser splits '
    'top-level ANDs into separate triggers, which means the same)',
    'edges are compared as (upstream output, downstream task, suicide); the '
    'cosmetic "conditional" flag of WorkflowConfig.edges is not compared',
    'output optionality is compared after the documented default (success '
    'required when neither success nor failure is mentioned)',
    'generated graphs are consistent (one optionality per output); a small '
    'separate class with a deliberate required/optional conflict only '
    'checks that all presentations are accepted or rejected alike',
    'GraphNodeParser\'s process-wide node cache is cleared before each '
    'config load (one scheduler process loads one workflow)',
    'parameterised names, xtriggers and inter-workflow triggers are not '
    'generated',
    'malformed mutants come from a fixed catalogue and are judged only when '
    'an independent strict recogniser also calls them malformed',
]
MIN = {
    'renderings_parsed': 1500, 'dep_comparisons': 3000,
    'config_loads_ok': 100, 'malformed_judged': 150,
    'style:chains': 100, 'style:comments': 100, 'style:cont-trailing': 50,
    'style:cont-leading': 50, 'style:dup': 50, 'style:shuffled': 50,
    'style:parens': 50, 'with_or': 200, 'multi_arrow_chain': 200,
    'input:duplicate-node': 100,
    'input:duplicate-node-with-offset-and-alias-qualifier': 3,
}

NCASES = {'quick': 1280, 'thorough': 12000}
N_RANDOM_STYLES = 4
ICP = 1


def ncases(tier):
    return NCASES[tier]


_real = {}


def setup_shard(ctx):
    from optparse import Values
    from cylc.flow.config import WorkflowConfig
    from cylc.flow.exceptions import GraphParseError
    from cylc.flow.graph_parser import GraphParser
    from cylc.flow.graphnode import GraphNodeParser
    from cylc.flow.cycling.loader import get_point
    import logging
    logging.getLogger('cylc').setLevel(logging.CRITICAL)
    _real.update(
        Values=Values, WorkflowConfig=WorkflowConfig,
        GraphParseError=GraphParseError, GraphParser=GraphParser,
        GraphNodeParser=GraphNodeParser, get_point=get_point)
    d = os.path.join(ctx.workdir, 'wf')
    os.makedirs(d, exist_ok=True)
    _real['dir'] = d


# -- mechanism keys ---------------------------------------------------------

def nodes_feeding(graph, pairs, task=None):
    """Nodes written in the arrows that end in `task` (all nodes if None)."""
    if task is None:
        return list(G._iter_nodes(graph))
    out = []
    for left, rnode, _info in pairs:
        if task in S.right_tasks(rnode, graph.families):
            out.append(rnode)
            if left is not None:
                out.extend(B.leaves(left))
    return out or list(G._iter_nodes(graph))


def key_for(symptom: str, graph, nodes=None, extra: str = '',
            respelt: bool = False, pid: str = PID) -> str:
    """Mechanism key: the textual hazard present in the failing arrows if
    there is one (these are known root-cause classes), else the symptom."""
    feats = G.hostile_features(
        nodes if nodes is not None else list(G._iter_nodes(graph)),
        graph.families, respelt)
    if len(feats) == 1:
        return f'{pid}:{feats[0]}'
    if len(feats) > 1:
        # cannot tell which one from the witness: one key, list in detail
        return f'{pid}:several-hazards'
    return f'{pid}:{symptom}' + (f':{extra}' if extra else '')


# -- observation of the real parser ----------------------------------------

class Observed:
    """Normalised result of parsing one rendering with the real parser."""

    def __init__(self, parser):
        self.problems = []
        self.deps = {}       # (task, suicide) -> [tree]
        self.atoms = {}      # (task, suicide) -> set of atoms listed
        self.tasks = set(parser.triggers)
        for right, exprs in parser.triggers.items():
            for expr, (trigs, suicide) in exprs.items():
                if not expr:
                    continue
                try:
                    tree = B.parse_infix(expr, atom_key=S.parse_atom_text)
                except (B.ExprSyntaxError, ValueError) as exc:
                    self.problems.append((
                        right,
                        f'trigger expression of {right} is not an AND/OR '
                        f'expression over outputs: {expr!r} ({exc})'))
                    continue
                self.deps.setdefault((right, bool(suicide)), []).append(tree)
                listed = set()
                for t in trigs:
                    try:
                        listed.add(S.parse_atom_text(t))
                    except ValueError:
                        self.problems.append((right, f'odd trigger {t!r}'))
                if listed != set(B.atoms(tree)):
                    self.problems.append((
                        right,
                        f'trigger list {sorted(trigs)} of {right} differs '
                        f'from the atoms of its expression {expr!r}'))
        self.opt = {k: bool(v[0]) for k, v in parser.task_output_opt.items()}

    def conj(self, key):
        return B.conj(self.deps.get(key, []))


def parse_real(text, families):
    gp = _real['GraphParser'](family_map={k: list(v)
                                          for k, v in families.items()})
    gp.parse_graph(text)
    return gp


# -- the checks -------------------------------------------------------------

class Case:
    def __init__(self, graph):
        self.graph = graph
        self.pairs = G.pairs(graph)
        self.meaning = S.Meaning(graph, self.pairs)

    respelt = False     # set while judging a rendering with alias spelling
    pid = PID           # C15 reuses these monitors under its own id

    def key(self, symptom, task=None, extra=''):
        alt = self.classify(symptom, task) if self.classify else None
        if alt:
            return alt
        return key_for(symptom, self.graph,
                       nodes_feeding(self.graph, self.pairs, task), extra,
                       self.respelt, self.pid)

    classify = None     # optional hook: (symptom, task) -> key or None
    last = None         # what the failing comparison saw (for classify)

    def detail(self, text, **kw):
        d = {'graph': text, 'families': self.graph.families}
        d.update(kw)
        return d


def check_rendering(ctx, case, text, style_label):
    """Parse one rendering, compare with the meaning.  Returns a comparable
    summary or None after a violation."""
    graph, meaning = case.graph, case.meaning
    try:
        gp = parse_real(text, graph.families)
    except _real['GraphParseError'] as exc:
        case.last = {'route': 'rejected', 'error': str(exc)}
        ctx.violation(
            case.key('valid-graph-rejected'),
            f'valid graph rejected in presentation [{style_label}]: '
            f'{str(exc)[:160]}',
            case.detail(text, style=style_label, error=str(exc)[:400]))
        return None
    except Exception as exc:
        ctx.violation(
            case.key(f'parse-raised-{type(exc).__name__}'),
            f'parse_graph raised {type(exc).__name__} on a valid graph '
            f'[{style_label}]: {exc}',
            case.detail(text, style=style_label))
        return None
    ctx.count('renderings_parsed')
    obs = Observed(gp)
    if obs.problems:
        task, msg = obs.problems[0]
        ctx.violation(
            case.key('corrupt-trigger-expression', task),
            f'[{style_label}] {msg}',
            case.detail(text, problems=[m for _, m in obs.problems[:5]]))
        return None
    keys = set(meaning.deps) | set(obs.deps)
    for key in sorted(keys):
        ctx.count('dep_comparisons')
        want, got = meaning.conj(*key), obs.conj(key)
        diff = B.first_difference(got, want)
        if diff is not None:
            case.last = {'route': 'parser', 'got': got, 'dep': key}
            ctx.violation(
                case.key('dependency-differs-from-written', key[0]),
                f'[{style_label}] {"suicide " if key[1] else ""}trigger of '
                f'{key[0]} parsed as "{B.render(got, S.atom_text)}" but the '
                f'graph says "{B.render(want, S.atom_text)}"',
                case.detail(
                    text, task=key[0], suicide=key[1],
                    witness_assignment=[S.atom_text(a)
                                        for a in diff['true_atoms']],
                    parsed_value=diff['first'],
                    written_value=diff['second']))
            return None
    # tasks: everything written without an offset must be there, nothing
    # that was not written may be
    missing = sorted(meaning.tasks_cycling - obs.tasks)
    extra = sorted(obs.tasks - meaning.tasks)
    if missing or extra:
        ctx.violation(
            case.key('task-set-differs'),
            f'[{style_label}] GraphParser.triggers lacks {missing} / has '
            f'unwritten {extra}', case.detail(text))
        return None
    # declared optionality
    if meaning.consistent():
        for (task, out), want in sorted(meaning.declared_flags().items()):
            ctx.count('opt_comparisons')
            got = S.effective_optional(obs.opt, task, out)
            if got is not want:
                ctx.violation(
                    case.key('optionality-differs-from-written', task),
                    f'[{style_label}] {task}:{out} is written '
                    f'{"optional" if want else "required"} but parsed as '
                    f'{got!r} (None = not set)',
                    case.detail(text, output=[task, out]))
                return None
    return {
        'deps': {k: B.table(obs.conj(k), sorted(B.atoms(meaning.conj(*k))))
                 for k in sorted(keys)},
        'opt': S.effective_optionality(obs.opt, meaning.tasks),
    }


def integer_offset_fn(offset: str):
    """Point arithmetic of an integer-cycling offset text (own parser)."""
    def interval(s):
        sign = -1 if s.startswith('-') else 1
        s = s.lstrip('+-')
        if not s.startswith('P') or not s[1:].isdigit():
            raise ValueError(offset)
        return sign * int(s[1:])
    if not offset:
        return lambda p: p
    if offset.startswith('^'):
        k = interval(offset[1:]) if len(offset) > 1 else 0
        return lambda p: ICP + k
    if offset.lstrip('-').isdigit():
        n = int(offset)
        return lambda p: n
    k = interval(offset)
    return lambda p: p + k


PROBE_POINTS = (3, 5)


def sem_key(atom, messages):
    task, offset, out = atom
    f = integer_offset_fn(offset)
    return (task, tuple(f(p) for p in PROBE_POINTS),
            messages.get((task, out), out))


def runtime_for(graph):
    customs = graph.meta.get('customs', {})
    messages = {}
    rt = []
    fam = graph.families
    for f in sorted(fam):
        rt.append((f, [], []))
    member_parents = {}
    for f in sorted(fam):
        for m in fam[f]:
            member_parents.setdefault(m, []).append(f)
    for m, parents in sorted(member_parents.items()):
        rt.append((m, parents, []))
    for t, outs in sorted(customs.items()):
        pairs = []
        for o in outs:
            messages[(t, o)] = f'{o} of {t} is done'
            pairs.append((o, messages[(t, o)]))
        rt.append((t, [], pairs))
    return rt, messages


def load_config(text, graph):
    rt, messages = runtime_for(graph)
    flow = G.flow_cylc(
        [('P1', text)],
        scheduling=[('cycling mode', 'integer'),
                    ('initial cycle point', str(ICP)),
                    ('final cycle point', '8')],
        runtime=rt)
    path = os.path.join(_real['dir'], 'flow.cylc')
    with open(path, 'w') as f:
        f.write(flow)
    _real['GraphNodeParser'].get_inst().clear()
    cfg = _real['WorkflowConfig']('wf', path, options=_real['Values']())
    return cfg, messages, flow


def check_config(ctx, case, text, style_label):
    graph, meaning = case.graph, case.meaning
    try:
        cfg, messages, flow = load_config(text, graph)
    except Exception as exc:
        msg = str(exc)
        if 'Undefined custom output' in msg and any(
                f'{fam}:expire-a' in msg for fam in graph.families):
            # witness names the mechanism: a family expire qualifier on a
            # node that ends a chain (or stands alone) is looked up as a
            # custom output
            key = (f'{case.pid}:family-expire-qualifier-at-chain-end-taken-'
                   f'for-custom-output')
        else:
            key = case.key('config-rejects-valid-graph', None,
                           type(exc).__name__)
        ctx.violation(
            key,
            f'WorkflowConfig raised {type(exc).__name__} on a valid graph '
            f'[{style_label}]: {str(exc)[:200]}',
            case.detail(text, style=style_label))
        return None
    ctx.count('config_loads_ok')
    gp = _real['get_point']
    pts = [gp(str(p)) for p in PROBE_POINTS]

    def leaf(trig):
        return (trig.task_name,
                tuple(int(trig.get_point(p)) for p in pts), trig.output)

    got = {}
    for name, td in cfg.taskdefs.items():
        for _seq, deps in td.dependencies.items():
            for dep in deps:
                try:
                    tree = B.from_alternating(dep._exp, leaf)
                except B.ExprSyntaxError as exc:
                    ctx.violation(
                        case.key('config-corrupt-dependency', name),
                        f'[{style_label}] Dependency of {name} is not an '
                        f'expression over TaskTriggers: {dep._exp!r} ({exc})',
                        case.detail(text))
                    return None
                got.setdefault((name, bool(dep.suicide)), []).append(tree)
    tables = {}
    for key in sorted(set(got) | set(meaning.deps)):
        ctx.count('config_dep_comparisons')
        want = B.rekey(meaning.conj(*key), lambda a: sem_key(a, messages))
        have = B.conj(got.get(key, []))
        diff = B.first_difference(have, want)
        if diff is not None:
            case.last = {'route': 'config', 'got': have, 'dep': key,
                         'messages': messages}
            ctx.violation(
                case.key('config-dependency-differs-from-written', key[0]),
                f'[{style_label}] TaskDef {key[0]} '
                f'{"suicide " if key[1] else ""}dependencies are '
                f'"{B.render(have, repr)}" but the graph says '
                f'"{B.render(want, repr)}"',
                case.detail(text, witness=diff))
            return None
        tables[key] = B.table(have, sorted(B.atoms(want)))
    # edges
    real_edges = set()
    for _seq, edges in cfg.edges.items():
        for left, right, suicide, _cond in edges:
            if right is not None and left is not None:
                real_edges.add((left, right, bool(suicide)))
    want_edges = {(l, r, s) for l, r, s, _c in meaning.edges}
    ctx.count('edge_set_comparisons')
    if real_edges != want_edges:
        case.last = {'route': 'config-edges', 'got': real_edges}
        ctx.violation(
            case.key('config-edges-differ-from-written'),
            f'[{style_label}] edges differ: missing '
            f'{sorted(want_edges - real_edges)[:4]} unexpected '
            f'{sorted(real_edges - want_edges)[:4]}',
            case.detail(text))
        return None
    if set(cfg.taskdefs) != meaning.tasks:
        ctx.violation(
            case.key('config-task-set-differs'),
            f'[{style_label}] task definitions {sorted(cfg.taskdefs)} but '
            f'the graph mentions {sorted(meaning.tasks)}',
            case.detail(text))
        return None
    outputs = {
        name: {o: req for o, (_m, req) in td.outputs.items()}
        for name, td in cfg.taskdefs.items()}
    if meaning.consistent():
        for (task, out), opt in sorted(meaning.declared_flags().items()):
            ctx.count('config_opt_comparisons')
            req = outputs.get(task, {}).get(out, 'missing')
            if req is not (not opt):
                ctx.violation(
                    case.key('config-required-flag-differs-from-written',
                             task),
                    f'[{style_label}] {task}:{out} is written '
                    f'{"optional" if opt else "required"} but TaskDef has '
                    f'required={req!r}', case.detail(text))
                return None
    return {'outputs': outputs, 'edges': real_edges, 'deps': tables}


# -- case -------------------------------------------------------------------

# family qualifier *semantics* are C15's subject; the one qualifier C15 finds
# mis-mapped is left out here so that it does not mask presentation findings
C14_FAMILY_QUALIFIERS = tuple(
    q for q in G.FAMILY_QUALIFIERS if q != 'submit-fail-any')


def make_spec(rng):
    r = rng.random()
    names = 'word'
    fam_names = 'word'
    if r < 0.06:
        names = 'nonword-inner'
    elif r < 0.10:
        names = 'nonword-trailing'
    fams = rng.choice([0, 0, 0, 1, 1, 2])
    if fams and rng.random() < 0.08:
        fam_names = 'nonword'
    return G.GraphSpec(names=names, families=fams, family_names=fam_names,
                       family_qualifiers=C14_FAMILY_QUALIFIERS)


def add_conflict(graph, rng):
    """Make one output both required and optional: a plain name inside a
    chain (success required) and the same task's failure marked optional
    elsewhere (failure optional needs success optional)."""
    mids = []
    for ch in graph.chains:
        for link in ch.links[:-1]:
            mids += [n for n in link if not n.qual and not n.opt
                     and n.name not in graph.families]
    if not mids:
        return False
    victim = rng.choice(mids)
    others = [t for t in graph.meta['tasks'] if t != victim.name]
    sink = rng.choice(others) if others else 'zz_sink'
    kind = rng.choice(['fail', 'opt'])
    left = G.Node(victim.name, '', 'fail' if kind == 'fail' else '', True)
    graph.chains.append(G.Chain(B.atom(left), [[G.Node(sink)]]))
    graph.meta['conflict'] = f'{victim.name} required in a chain, ' \
        f'{left.text()} elsewhere'
    return True


def unsuitable(case):
    """Reasons to discard a generated graph (outside the property)."""
    m = case.meaning
    fam = case.graph.families
    for left, rnode, _info in case.pairs:
        if left is None:
            continue
        ups = {a[0] for a in B.atoms(S.left_tree(left, fam)) if not a[1]}
        if ups & set(S.right_tasks(rnode, fam)):
            return 'self_edge'
    for (task, suicide), trees in m.deps.items():
        if suicide and (task, False) in m.deps:
            a = {x for t in trees for x in B.atoms(t)}
            b = {x for t in m.deps[(task, False)] for x in B.atoms(t)}
            if a & b:
                # "X can't trigger both t and !t" is a documented error
                return 'suicide_and_trigger_share_an_output'
    if any(len(B.atoms(m.conj(*k))) > 12 for k in m.deps):
        return 'too_many_atoms'
    return None


def run_case(ctx, i, rng):
    spec = make_spec(rng)
    graph = G.random_graph(rng, spec)
    conflict = False
    if spec.names == 'word' and rng.random() < 0.05:
        conflict = add_conflict(graph, rng)
    case = Case(graph)
    meaning, pairs = case.meaning, case.pairs
    why = unsuitable(case)
    if why:
        ctx.count('discard_' + why)
        return
    if not conflict and not meaning.consistent():
        ctx.count('discard_inconsistent_generator_output')
        return
    canonical = G.graph_text(graph, rng, G.CANONICAL)
    has_or = any(left is not None and B.has_or(left) for left, _, _ in pairs)
    multi = any(len(ch.links) >= 2 for ch in graph.chains)
    feats = G.hostile_features(G._iter_nodes(graph), graph.families)
    for f in feats or ['none']:
        ctx.count('hazard:' + f)
    if has_or:
        ctx.count('with_or')
    if multi:
        ctx.count('multi_arrow_chain')
    if graph.families:
        ctx.count('with_family')
    if any(n.suicide for n in G._iter_nodes(graph)):
        ctx.count('with_suicide')
    if any(n.offset for n in G._iter_nodes(graph)):
        ctx.count('with_offset')
    for left, _r, _i in pairs:
        if left is not None:
            for cls in G.duplicate_node_classes(B.leaves(left)):
                ctx.count('input:' + cls)

    styles = [G.CANONICAL] + G.systematic_styles() + [
        G.random_style(rng) for _ in range(N_RANDOM_STYLES)]
    if conflict:
        ctx.count('conflict_cases')
        run_conflict(ctx, graph, rng, styles, canonical)
        ctx.evaluated(('conflict', canonical), nontrivial=True)
        return

    results = []
    for st in styles:
        text = G.graph_text(graph, rng, st)
        label = st.label()
        for bit in label.split('+'):
            ctx.count('style:' + bit)
        case.respelt = 'respelt' in label
        res = check_rendering(ctx, case, text, label)
        case.respelt = False
        if res is None:
            ctx.evaluated(canonical, nontrivial=False)
            return
        results.append((label, text, res))
    # between presentations (implied for deps by the above; optionality is
    # compared in full here, including outputs nobody declared)
    base_label, base_text, base = results[0]
    for label, text, res in results[1:]:
        ctx.count('presentation_comparisons')
        if res['opt'] != base['opt'] or res['deps'] != base['deps']:
            diffk = sorted(
                k for k in set(res['opt']) | set(base['opt'])
                if res['opt'].get(k) != base['opt'].get(k))
            ctx.violation(
                case.key('presentations-differ'),
                f'[{label}] and [{base_label}] of the same graph give '
                f'different optionality for {diffk[:4]}',
                {'first': base_text, 'second': text,
                 'families': graph.families})
            ctx.evaluated(canonical, nontrivial=False)
            return
    # through WorkflowConfig: canonical + one random other rendering
    if ctx.tier == 'thorough' or i % 2 == 0:
        cfg_results = []
        picks = [results[0], results[1 + rng.randrange(len(results) - 1)]]
        for label, text, _ in picks:
            case.respelt = 'respelt' in label
            r = check_config(ctx, case, text, label)
            case.respelt = False
            if r is None:
                ctx.evaluated(canonical, nontrivial=False)
                return
            cfg_results.append((label, text, r))
        (l1, t1, r1), (l2, t2, r2) = cfg_results
        ctx.count('config_presentation_comparisons')
        if r1 != r2:
            what = [k for k in r1 if r1[k] != r2[k]]
            ctx.violation(
                case.key('config-presentations-differ'),
                f'WorkflowConfig gives different {what} for [{l1}] and '
                f'[{l2}] of the same graph',
                {'first': t1, 'second': t2, 'families': graph.families})
            ctx.evaluated(canonical, nontrivial=False)
            return
    ctx.evaluated(canonical, nontrivial=(has_or or multi)
                  and len(results) >= 8)
    ctx.sample({'canonical': canonical, 'families': graph.families,
                'another_rendering': results[-1][1],
                'renderings': [r[0] for r in results],
                'dependents': {
                    f'{"!" if s else ""}{t}': B.render(meaning.conj(t, s),
                                                       S.atom_text)
                    for t, s in meaning.dependents()}})
    if not feats:
        run_malformed(ctx, graph, rng)


def outcome(text, graph, tasks):
    try:
        gp = parse_real(text, graph.families)
    except _real['GraphParseError'] as exc:
        return ('rejected', str(exc).split('\n')[0][:120])
    except Exception as exc:
        return ('raised', type(exc).__name__)
    return ('accepted', tuple(sorted(S.effective_optionality(
        {k: bool(v[0]) for k, v in gp.task_output_opt.items()},
        tasks).items())))


def run_conflict(ctx, graph, rng, styles, canonical):
    """All presentations of a graph with an optionality conflict must be
    treated alike (all rejected, or all accepted with the same result)."""
    seen = {}
    tasks = sorted({n.name for n in G._iter_nodes(graph)})
    for st in styles:
        text = G.graph_text(graph, rng, st)
        out = outcome(text, graph, tasks)
        ctx.count('conflict_renderings')
        ctx.count('conflict_outcome:' + out[0])
        seen.setdefault(out[0], (st.label(), text, out))
    if len(seen) > 1:
        a, b = sorted(seen)[:2]
        ctx.violation(
            'C14:optionality-conflict-accepted-or-rejected-by-presentation',
            f'graph with {graph.meta["conflict"]} is {a} as [{seen[a][0]}] '
            f'but {b} as [{seen[b][0]}]',
            {'first': seen[a][1], 'first_outcome': seen[a][2][:2],
             'second': seen[b][1], 'second_outcome': seen[b][2][:2]})


def run_malformed(ctx, graph, rng):
    lines = G.logical_lines(graph, 'chains')
    kind = rng.choice(G.MUTATIONS)
    order = list(range(len(lines)))
    rng.shuffle(order)
    for li in order:
        mutant = G.mutate(lines[li], kind, rng)
        if mutant is None:
            continue
        if S.strictly_valid_line(mutant):
            ctx.count('discard_mutant_still_valid')
            return
        others = [' '.join(ln) for j, ln in enumerate(lines) if j != li]
        rng.shuffle(others)
        others = others[:rng.randint(0, 2)]
        if kind in ('leading-arrow',):
            text_lines = [mutant] + others
        elif kind in ('trailing-arrow', 'dangling-operator'):
            text_lines = others + [mutant]
        else:
            k = rng.randint(0, len(others))
            text_lines = others[:k] + [mutant] + others[k:]
        text = '\n'.join('    ' + t for t in text_lines)
        is_last = text_lines[-1] == mutant
        if kind == 'missing-operator':
            # which kind of token ends just before the gap
            toks = mutant.split(' ')
            prev = ''
            for a, b in zip(toks, toks[1:]):
                if a not in ('=>', '&', '|', '(', ')') and b not in (
                        '=>', '&', '|', '(', ')'):
                    prev = a
                    break
            kind += (':after-optional-mark' if prev.endswith('?') else
                     ':after-offset' if prev.endswith(']') else
                     ':after-name-or-qualifier')
        ctx.count('malformed_judged')
        ctx.count('malformed:' + kind)
        if kind.startswith(('missing-operator', 'bad-node')):
            # node-level syntax errors: one mechanism when the line is not
            # the last one of the graph string (witness: position)
            kind = (kind + ':last-line' if is_last
                    else 'node-syntax-error-not-on-last-line')
        try:
            gp = parse_real(text, graph.families)
        except _real['GraphParseError']:
            ctx.count('malformed_rejected')
            return
        except Exception as exc:
            ctx.violation(
                f'C14:malformed-wrong-exception:{kind}:{type(exc).__name__}',
                f'malformed line "{mutant}" ({kind}) raised '
                f'{type(exc).__name__} instead of GraphParseError: {exc}',
                {'text': text, 'mutant': mutant, 'kind': kind})
            return
        parsed = {r: sorted(e for e in exprs if e)
                  for r, exprs in gp.triggers.items()
                  if any(e for e in exprs)}
        ctx.violation(
            f'C14:malformed-accepted:{kind}',
            f'malformed line "{mutant}" ({kind}) was parsed into {parsed}',
            {'text': text, 'mutant': mutant, 'kind': kind,
             'parsed_triggers': parsed})
        return
    ctx.count('discard_mutation_not_applicable')
