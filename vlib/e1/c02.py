"""C02 No task instance runs twice in a flow; retries bounded."""
from vlib.e1.common import E1_META, E1_NOTE, simple_case
from vlib.gen import wfgen

PID = 'C02'
META = dict(E1_META, **{
    'technique': 'online monitor of job-submit commands and output '
                 'completions against the job-world ledger and GT retry '
                 'counts',
    'level_text': (
        'Generated workflows with execution/submission retries run on the '
        'real Scheduler with failing, submit-failing, duplicated, stale and '
        're-ordered job events. Monitor: no job id in two submit commands, '
        'submit numbers strictly increase, submissions per instance <= '
        '(N+1)(M+1), failed/submit-failed completes only when the job world '
        'shows N+1 failed executions / M+1 submission failures.'),
    'level_note': E1_NOTE,
    'design_ref': 'DESIGN.md §5 C02',
})
RULE = ('case = generated workflow with retry delays + failing outcome plan '
        '+ hostile delivery policy; distinct by event census; non-trivial '
        'when >= 3 submissions happened')
ASSUMPTIONS = ['no manual intervention', 'retry delays PT1S under a virtual '
               'clock advancing 1-5 s per main-loop iteration']
MIN = {'c02.submissions': 400, 'c02.resubmissions': 30,
       'c02.failed_completions': 20}
NCASES = {'quick': 1000, 'thorough': 12000}


def ncases(tier):
    return NCASES[tier]


def run_case(ctx, i, rng):
    feat = wfgen.Features(retries=True, submit_fail=rng.random() < 0.5,
                          max_tasks=5, max_final=4)
    simple_case(ctx, i, rng, PID, feat, plan_class='mixed', hostile=0.8)
