"""C31 Sequential tasks never overlap and run in cycle order."""
from vlib.e1.common import E1_META, E1_NOTE, simple_case
from vlib.gen import wfgen

PID = 'C31'
META = dict(E1_META, **{
    'technique': 'online monitor: per-iteration overlap census and '
                 'submission-order check against the job-world ledger',
    'level_text': (
        'For ground-truth sequential tasks in real scheduler runs: never two '
        'instances preparing/submitted/running after any iteration, and each '
        'first submission of an instance follows an actual success of the '
        'previous instance on the task\'s recurrences.'),
    'level_note': E1_NOTE,
    'design_ref': 'DESIGN.md §5 C31',
})
RULE = ('case = generated workflow with sequential tasks on 1-3 recurrences, '
        'runahead P0-P4, mixed plans; distinct by event census')
ASSUMPTIONS = []
MIN = {'c31.sequential_submits': 300, 'c31.order_checks': 150,
       'c31.overlap_checks': 2000,
       'warm_starts_into_two_digit_cycles': 100}
NCASES = {'quick': 1000, 'thorough': 12000}


def ncases(tier):
    return NCASES[tier]


def run_case(ctx, i, rng):
    # a quarter of the runs are warm starts of workflows with more than
    # nine cycles (start point and later points of different widths)
    wide = rng.random() < 0.25
    feat = wfgen.Features(sequential=True, retries=rng.random() < 0.3,
                          max_tasks=4 if wide else 5,
                          min_final=10 if wide else 2,
                          max_final=12 if wide else 5)

    def warm(rng, case):
        if wide:
            start = rng.randint(2, 9)
            case['options'] = {'startcp': str(start)}
            case['start_point'] = start
            ctx.count('warm_starts_into_two_digit_cycles')

    simple_case(ctx, i, rng, PID, feat,
                plan_class=rng.choice(['all-complete', 'mixed']),
                hostile=0.5, policy_fn=warm)
