"""Sandbox tree model, glob matcher and snapshots for C38 (cylc clean).

Everything here is written from the property statement and the user-level
meaning of shell-style globs; nothing is imported from cylc.flow.

Vocabulary
----------
* lexical path: a path relative to the run directory as the user would type
  it after --rm (components separated by '/').
* standard symlink dir: a symbolic link at one of the lexical locations
  '', 'log', 'log/job', 'share', 'share/cycle', 'work' of the run directory
  whose fully resolved target ends with the path components
  ('cylc-run', <id components>, <location components>).  These are
  transparent: the workflow continues inside their targets.
* any other symbolic link is "non-standard": it can be selected and removed
  as a link, but nothing may ever be reached through it.
"""
from __future__ import annotations

import hashlib
import os

STD_LOCS = ('', 'log', 'log/job', 'share', 'share/cycle', 'work')


class Node:
    __slots__ = ('kind', 'phys', 'children', 'text', 'std', 'tnode',
                 'tphys', 'tisdir', 'note')

    def __init__(self, kind, phys):
        self.kind = kind            # 'dir' | 'file' | 'link'
        self.phys = phys            # absolute physical path of the node
        self.children = {} if kind == 'dir' else None
        self.text = None            # link text
        self.std = False            # standard symlink dir (conforming)
        self.tnode = None           # target Node of a std link (if exists)
        self.tphys = None           # resolved physical target (None=broken)
        self.tisdir = False
        self.note = None            # generator's label for this node


# ---------------------------------------------------------------------------
# building on disk


def mkdir(parent, name):
    n = Node('dir', os.path.join(parent.phys, name))
    os.mkdir(n.phys)
    parent.children[name] = n
    return n


def mkfile(parent, name, content):
    n = Node('file', os.path.join(parent.phys, name))
    with open(n.phys, 'w') as f:
        f.write(content)
    parent.children[name] = n
    return n


def mklink(parent, name, text, tphys, tisdir):
    n = Node('link', os.path.join(parent.phys, name))
    os.symlink(text, n.phys)
    n.text = text
    n.tphys = tphys
    n.tisdir = tisdir
    parent.children[name] = n
    return n


def ensure_dirs(root, rel):
    """Create (or walk) real directories root/rel; return the last Node."""
    node = root
    for part in [p for p in rel.split('/') if p]:
        nxt = node.children.get(part)
        if nxt is None:
            nxt = mkdir(node, part)
        node = nxt
    return node


# ---------------------------------------------------------------------------
# pattern handling (own implementation)


def normalise_part(part):
    """Lexical meaning of one --rm item.

    Returns (status, comps, dironly); status in
    'blank' | 'absolute' | 'escapes' | 'ok'.
    """
    part = part.strip()
    if not part:
        return 'blank', [], False
    if part.startswith('/'):
        return 'absolute', [], False
    dironly = part.endswith('/')
    comps = []
    for c in part.split('/'):
        if c in ('', '.'):
            continue
        if c == '..':
            if not comps:
                return 'escapes', [], dironly
            comps.pop()
            continue
        comps.append(c)
    if not comps:
        return 'escapes', [], dironly     # the run directory itself
    return 'ok', comps, dironly


def split_items(items):
    """Split the raw --rm items on ':' into parts."""
    out = []
    for it in items:
        out.extend(it.split(':'))
    return out


MAGIC = set('*?[')


def has_magic(comp):
    return any(ch in MAGIC for ch in comp)


def _class_end(pat, i):
    """pat[i] == '['; return index of the closing ']' or -1."""
    j = i + 1
    if j < len(pat) and pat[j] == '!':
        j += 1
    if j < len(pat) and pat[j] == ']':
        j += 1
    while j < len(pat) and pat[j] != ']':
        j += 1
    return j if j < len(pat) else -1


def _in_class(body, ch):
    neg = body.startswith('!')
    if neg:
        body = body[1:]
    hit = False
    k = 0
    while k < len(body):
        if k + 2 < len(body) and body[k + 1] == '-':
            if body[k] <= ch <= body[k + 2]:
                hit = True
            k += 3
        else:
            if body[k] == ch:
                hit = True
            k += 1
    return hit != neg


def wild_match(pat, name):
    """Shell wildcard match of one component (no hidden-file rule)."""
    memo = {}

    def go(i, j):
        key = (i, j)
        if key in memo:
            return memo[key]
        if i == len(pat):
            r = j == len(name)
        elif pat[i] == '*':
            r = go(i + 1, j) or (j < len(name) and go(i, j + 1))
        elif pat[i] == '?':
            r = j < len(name) and go(i + 1, j + 1)
        elif pat[i] == '[':
            e = _class_end(pat, i)
            if e < 0:
                r = j < len(name) and name[j] == '[' and go(i + 1, j + 1)
            else:
                r = (j < len(name) and _in_class(pat[i + 1:e], name[j])
                     and go(e + 1, j + 1))
        else:
            r = j < len(name) and name[j] == pat[i] and go(i + 1, j + 1)
        memo[key] = r
        return r
    return go(0, 0)


def comp_match(pat, name):
    if not has_magic(pat):
        return pat == name
    if name.startswith('.') and not pat.startswith('.'):
        return False
    return wild_match(pat, name)


def escape_literal(name):
    """Pattern text that matches exactly `name`."""
    return ''.join('[' + ch + ']' if ch in MAGIC else ch for ch in name)


class Selection:
    """Lexical entries selected by patterns."""

    def __init__(self):
        self.must = {}       # lexrel tuple -> (node, how)
        self.optional = {}   # lexrel tuple -> node


def traversable(node):
    """Directory reached at this node without following other links."""
    if node.kind == 'dir':
        return node
    if node.kind == 'link' and node.std and node.tnode is not None:
        return node.tnode
    return None


def dirish(node):
    if node.kind == 'dir':
        return True
    if node.kind == 'link':
        if node.std:
            return node.tnode is not None
        return bool(node.tphys) and node.tisdir
    return False


def select(rootdir, comps, dironly, sel, soft_dironly_links=False,
           root_entry=None):
    """Add to `sel` every lexical entry the pattern selects."""

    def take(lexrel, node, via_std):
        if dironly and not dirish(node):
            return
        if (dironly and soft_dironly_links and node.kind == 'link'
                and not node.std):
            sel.optional.setdefault(lexrel, node)
            return
        sel.must.setdefault(lexrel, (node, via_std))

    def walk(i, d, lexrel, via_std, entry):
        """d: directory being listed; entry: node through which it was
        reached (the dir itself or a standard symlink dir)."""
        c = comps[i]
        last = i == len(comps) - 1
        if c == '**':
            # zero directories
            if last:
                # 'x/**' also names x itself in some shells: optional
                sel.optional.setdefault(lexrel, entry)
            else:
                walk(i + 1, d, lexrel, via_std, entry)
            for name, child in d.children.items():
                if name.startswith('.'):
                    continue
                lx = lexrel + (name,)
                vs = via_std or (child.kind == 'link' and child.std)
                if last:
                    take(lx, child, via_std)
                t = traversable(child)
                if t is not None:
                    walk(i, t, lx, vs, child)
            return
        for name, child in d.children.items():
            if not comp_match(c, name):
                continue
            lx = lexrel + (name,)
            if last:
                take(lx, child, via_std)
            else:
                t = traversable(child)
                if t is not None:
                    walk(i + 1, t, lx,
                         via_std or (child.kind == 'link' and child.std),
                         child)
                elif all(x == '**' for x in comps[i + 1:]):
                    # 'x/**' names x itself (a link, a broken link, even a
                    # file) in implementations where ** matches zero
                    # directories without checking that x is a directory
                    sel.optional.setdefault(lx, child)

    walk(0, rootdir, (), False, root_entry or rootdir)


def closure(node, out, kinds=None):
    """Physical paths that vanish when `node` is deleted as the workflow
    understands it (standard symlink dirs transparent, others not)."""
    out.add(node.phys)
    if kinds is not None:
        kinds[node.phys] = (
            'file' if node.kind == 'file' else
            'dir' if node.kind == 'dir' else
            'std-symlink' if node.std else
            'broken-symlink' if not node.tphys else 'nonstd-symlink')
    if node.kind == 'dir':
        for ch in node.children.values():
            closure(ch, out, kinds)
    elif node.kind == 'link' and node.std and node.tnode is not None:
        closure(node.tnode, out, kinds)
        if kinds is not None:
            kinds[node.tnode.phys] = 'std-symlink-target'


# ---------------------------------------------------------------------------
# snapshots


def _digest(p):
    try:
        with open(p, 'rb') as f:
            return hashlib.sha1(f.read()).hexdigest()[:10]
    except OSError as exc:
        return 'unreadable:' + type(exc).__name__


def snapshot(roots):
    """{physical path: (kind, digest|link text)}; links never followed."""
    out = {}
    stack = [r for r in roots if os.path.lexists(r)]
    while stack:
        p = stack.pop()
        if os.path.islink(p):
            out[p] = ('link', os.readlink(p))
        elif os.path.isdir(p):
            out[p] = ('dir', '')
            try:
                names = os.listdir(p)
            except OSError:
                names = []
            for n in names:
                stack.append(os.path.join(p, n))
        else:
            out[p] = ('file', _digest(p))
    return out


def under(p, root):
    return p == root or p.startswith(root + '/')
