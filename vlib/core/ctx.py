"""Shard-side recording context shared by every check module.

A check module exposes::

    PID = "C16"
    META = {...}                      # see vlib/core/registry.py
    def ncases(tier) -> int
    def run_case(ctx, i, rng) -> None # records through ctx
    MIN = {"counter": minimum, ...}   # optional: below => inconclusive
    def setup_shard(ctx) -> None      # optional

The same `run_case(ctx, i, rng)` is used for replay: a case is fully
identified by (seed, tier, i).
"""
from __future__ import annotations

import hashlib
import json
import random
import time
from typing import Any, Dict, List, Optional


def stable_hash(*parts: Any) -> int:
    h = hashlib.blake2b(digest_size=8)
    for p in parts:
        h.update(repr(p).encode('utf8', 'backslashreplace'))
        h.update(b'\0')
    return int.from_bytes(h.digest(), 'big')


def case_rng(seed: int, pid: str, tier: str, i: int) -> random.Random:
    return random.Random(stable_hash('case', seed, pid, tier, i))


def jsonable(obj: Any, depth: int = 0) -> Any:
    """Best-effort conversion to JSON-serialisable data."""
    if depth > 12:
        return repr(obj)
    if obj is None or isinstance(obj, (bool, int, str)):
        return obj
    if isinstance(obj, float):
        if obj != obj or obj in (float('inf'), float('-inf')):
            return repr(obj)
        return obj
    if isinstance(obj, dict):
        return {
            (k if isinstance(k, str) else repr(k)): jsonable(v, depth + 1)
            for k, v in obj.items()
        }
    if isinstance(obj, (list, tuple)):
        return [jsonable(v, depth + 1) for v in obj]
    if isinstance(obj, (set, frozenset)):
        return sorted((jsonable(v, depth + 1) for v in obj), key=repr)
    return repr(obj)


class CaseTimeout(BaseException):
    """Raised by the per-case wall-clock watchdog (never a verdict)."""


class Ctx:
    MAX_SAMPLES = 4
    MAX_VIOLATIONS = 400  # per shard, per key capped below

    def __init__(self, pid: str, tier: str, seed: int, shard: int,
                 nshards: int, workdir: str, budget_s: float):
        self.pid = pid
        self.tier = tier
        self.seed = seed
        self.shard = shard
        self.nshards = nshards
        self.workdir = workdir
        self.t0 = time.monotonic()
        self.deadline = self.t0 + budget_s
        self.evaluations = 0
        self.nontrivial: set = set()
        self.counters: Dict[str, int] = {}
        self.samples: List[Any] = []
        self.violations: List[dict] = []
        self._vio_per_key: Dict[str, int] = {}
        self.timeouts = 0
        self.errors: List[str] = []
        self.truncated = False
        self.cur_case: Optional[int] = None
        self.replaying = False

    # -- recording -------------------------------------------------------
    def time_left(self) -> float:
        return self.deadline - time.monotonic()

    def count(self, name: str, n: int = 1) -> None:
        self.counters[name] = self.counters.get(name, 0) + n

    def maxc(self, name: str, v: int) -> None:
        """Record a running maximum (merged with max across shards)."""
        k = 'max:' + name
        if v > self.counters.get(k, -10**18):
            self.counters[k] = v

    def evaluated(self, key: Any = None, nontrivial: bool = True,
                  n: int = 1) -> None:
        """Count one explored case; `key` identifies distinct ones."""
        self.evaluations += n
        if nontrivial and key is not None:
            self.nontrivial.add(stable_hash(key))

    def sample(self, obj: Any, force: bool = False) -> None:
        if force or len(self.samples) < self.MAX_SAMPLES:
            self.samples.append(jsonable(obj))

    def violation(self, key: str, what: str, detail: Any = None) -> None:
        """Record a violation.

        key: mechanism key ("C16:clip-misaligned-start"), used to match
        known findings; what: one-line human description; detail: witness.
        """
        self.count('violations_raw')
        n = self._vio_per_key.get(key, 0)
        self._vio_per_key[key] = n + 1
        if n >= 3 or len(self.violations) >= self.MAX_VIOLATIONS:
            return
        self.violations.append({
            'key': key,
            'what': what,
            'detail': jsonable(detail),
            'case': {
                'pid': self.pid, 'seed': self.seed, 'tier': self.tier,
                'index': self.cur_case,
            },
        })

    def to_json(self) -> dict:
        return {
            'pid': self.pid, 'shard': self.shard,
            'evaluations': self.evaluations,
            'nontrivial': sorted(self.nontrivial),
            'counters': self.counters,
            'samples': self.samples,
            'violations': self.violations,
            'vio_per_key': self._vio_per_key,
            'timeouts': self.timeouts,
            'errors': self.errors[:10],
            'truncated': self.truncated,
            'wall_s': time.monotonic() - self.t0,
        }


def dump(obj: Any) -> str:
    return json.dumps(jsonable(obj), sort_keys=True)
