"""C36 Configuration processing is idempotent.

Monitor shape: the real `cylc.flow.parsec.fileparse.parse(src,
output_fname=P)` is run on generated source trees (flow.cylc + %include files
+ Jinja2 includes), then `parse(P)` on the processed file it wrote; the
post-condition is that both return equal nested dictionaries (same keys in the
same order, same values, same types).
"""
from __future__ import annotations

import os
import re
import shutil

from vlib.gen.c36_flowgen import FlowGen

PID = 'C36'
META = {
    'engine': 'E2 funcmon',
    'level': 'exploration',
    'technique': 'round-trip post-condition on fileparse.parse: parse(src, '
                 'output_fname=P) versus parse(P), structural equality of '
                 'the nested dicts, on generated hostile sources',
    'level_text': (
        'Random source trees exercising multi-line strings, lists, quoting, '
        'comments, continuation lines, %include (nested, repeated, inside '
        'multi-line strings, ending in a continuation) and Jinja2 (set, '
        'for, if, macros, raw, whitespace control, Jinja2 includes, '
        'template variables, Jinja2-made continuations) are parsed with the '
        'real parser, which also dumps the processed file into another '
        'directory; the dump is parsed again and the two configurations '
        'compared exactly.  Held = no difference on the files explored.'),
    'level_note': 'The comparison is exact; the generator '
                  '(vlib/gen/c36_flowgen.py) decides which sources are '
                  'explored; sources the parser rejects are discarded.',
    'design_ref': 'DESIGN.md §5 C36',
    'budget': {'quick': 90, 'thorough': 900},
}
RULE = ('case = one generated source tree (flow.cylc plus include files); '
        'distinct by the text of all its files; non-trivial when the first '
        'parse succeeds with >= 5 leaf items and at least two of '
        '{multi-line value, continuation joined, include inlined, Jinja2 '
        'rendered} are visible in the parsed result')
ASSUMPTIONS = [
    'only sources the first parse accepts are judged (others: discard)',
    'the processed file is written to a different directory than the source '
    '(as cylc does under log/config/), and parsed without template variables',
    'Jinja2 code that itself emits "%include" lines or a "#!jinja2" line is '
    'not generated',
    'legal-but-rare input classes (a backslash followed by white space at '
    'the end of a comment or of a continued line) are generated in a '
    'minority of files and flagged as such in the evidence',
]
MIN = {
    'quick': {'files_checked': 1500, 'nontrivial_files': 1000,
              'with_jinja': 400, 'include_effective': 500,
              'jinja_effective': 400, 'continuation_effective': 1200,
              'multiline_values': 2000, 'leaf_items': 20000,
              'feat:nested-include': 50, 'feat:include-in-multiline': 50,
              'feat:jinja-for': 100, 'feat:repeated-graph-key': 200,
              'jinja_made_continuation_effective': 40},
    'thorough': {'files_checked': 20000, 'nontrivial_files': 15000,
                 'with_jinja': 6000, 'include_effective': 10000,
                 'jinja_effective': 6000, 'continuation_effective': 15000,
                 'multiline_values': 40000, 'leaf_items': 300000,
                 'feat:nested-include': 1000,
                 'feat:include-in-multiline': 1000,
                 'feat:jinja-for': 2000, 'feat:repeated-graph-key': 4000},
}
NCASES = {'quick': 64, 'thorough': 512}
FILES_PER_CASE = {'quick': 34, 'thorough': 60}
CASE_TIMEOUT = 600


def ncases(tier):
    return NCASES[tier]


def setup_shard(ctx):
    import logging
    logging.getLogger('cylc').setLevel(logging.CRITICAL)


# --------------------------------------------------------------- compare --
def first_difference(a, b, path=()):
    """None when equal, else (path, what, a-part, b-part)."""
    if isinstance(a, dict) or isinstance(b, dict):
        if not (isinstance(a, dict) and isinstance(b, dict)):
            return path, 'section-vs-item', _short(a), _short(b)
        ka, kb = list(a.keys()), list(b.keys())
        if ka != kb:
            if sorted(map(str, ka)) == sorted(map(str, kb)):
                return path, 'key-order', ka, kb
            return (path, 'keys',
                    [k for k in ka if k not in kb][:5],
                    [k for k in kb if k not in ka][:5])
        for k in ka:
            d = first_difference(a[k], b[k], path + (k,))
            if d:
                return d
        return None
    if type(a) is not type(b):
        return path, 'type', _short(a), _short(b)
    if isinstance(a, list):
        if len(a) != len(b):
            return path, 'list-length', _short(a), _short(b)
        for i, (x, y) in enumerate(zip(a, b)):
            d = first_difference(x, y, path + (i,))
            if d:
                return d
        return None
    if a != b:
        return path, 'value', _short(a), _short(b)
    return None


def _short(x):
    r = repr(x)
    return r if len(r) < 300 else r[:300] + '…'


def leaves(cfg, out=None):
    if out is None:
        out = []
    for v in cfg.values():
        if isinstance(v, dict):
            leaves(v, out)
        elif isinstance(v, list):
            out.extend(v)
        else:
            out.append(v)
    return out


def plain(cfg):
    if isinstance(cfg, dict):
        return {k: plain(v) for k, v in cfg.items()}
    if isinstance(cfg, list):
        return [plain(v) for v in cfg]
    return cfg


# -------------------------------------------------------------- classify --
_INCLUDE = re.compile(r'\s*%include\s+\S')
_BS_SPACE = re.compile(r'\\[ \t]+$')


def _logical(text):
    """Lines joined at trailing backslashes (classifier only: finds a
    backslash that is followed by white space at the end of a whole line)."""
    out = []
    cur = None
    for ln in text.split('\n'):
        cur = ln if cur is None else cur + ln
        if cur.endswith('\\'):
            cur = cur[:-1]
        else:
            out.append(cur)
            cur = None
    if cur is not None:
        out.append(cur)
    return out


def classify(processed, files):
    """Mechanism key from the dumped file and the sources (no values)."""
    lines = processed.split('\n')
    bs = [ln for ln in lines if ln.endswith('\\')]
    if bs:
        # a source line ending in backslash + white space explains it
        src = [ln for text in files.values() for ln in _logical(text)
               if _BS_SPACE.search(ln)]
        if src and all('#' in ln for ln in src):
            return 'C36:dump-strips-space-after-backslash:in-comment'
        if src and not any('#' in ln for ln in src):
            return 'C36:dump-strips-space-after-backslash:in-continued-line'
        if src:
            return 'C36:dump-strips-space-after-backslash:mixed'
        return 'C36:dump-line-ends-with-backslash'
    if any(_INCLUDE.match(ln) for ln in lines):
        return 'C36:include-line-in-dump'
    if lines and lines[0].lower().startswith('#!jinja2'):
        return 'C36:jinja2-hashbang-in-dump'
    return 'C36:other'


def check_file(ctx, rng, serial):
    from cylc.flow.exceptions import CylcError
    from cylc.flow.parsec.exceptions import ParsecError
    from cylc.flow.parsec.fileparse import parse
    r = rng.random()
    hazard = None
    if r < 0.04:
        hazard = 'comment-bs'
    elif r < 0.07:
        hazard = 'continued-bs'
    jinja = rng.random() < 0.4
    gen = FlowGen(rng, jinja=jinja, hazard=hazard)
    files = gen.generate()
    base = os.path.join(ctx.workdir, 'c36', f's{serial % 8}')
    shutil.rmtree(base, ignore_errors=True)
    src = os.path.join(base, 'src')
    out = os.path.join(base, 'run', 'log', 'config')
    os.makedirs(out)
    for rel, text in files.items():
        p = os.path.join(src, rel)
        os.makedirs(os.path.dirname(p), exist_ok=True)
        with open(p, 'w', encoding='utf-8') as f:
            f.write(text)
    fpath = os.path.join(src, 'flow.cylc')
    ppath = os.path.join(out, 'flow-processed.cylc')
    cwd = os.getcwd()
    try:
        try:
            c1 = parse(fpath, ppath,
                       template_vars=dict(gen.tvars) if jinja else None)
        except (ParsecError, CylcError) as exc:
            ctx.count('discard_first_parse_rejected')
            ctx.count('discard:' + type(exc).__name__)
            if hazard:
                ctx.count('discard_hazard_case')
            return
        finally:
            os.chdir(cwd)
        with open(ppath, encoding='utf-8') as f:
            processed = f.read()
        lv = leaves(c1)
        flat = repr(plain(c1))
        n_ml = sum(1 for v in lv if isinstance(v, str) and '\n' in v)
        eff = set()
        if n_ml:
            eff.add('multiline')
        inc_markers = [m for m in gen.markers if m.startswith(
            ('incmark', 'jincmark'))]
        if inc_markers and any(m in flat for m in inc_markers):
            eff.add('include')
            ctx.count('include_effective')
        ctx.count('markers_expected', len(gen.markers))
        ctx.count('markers_found', sum(1 for m in gen.markers if m in flat))
        if jinja and 'jm_42' in flat:
            eff.add('jinja')
            ctx.count('jinja_effective')
        if 'CONTaCONTb' in flat:
            eff.add('continuation')
            ctx.count('continuation_effective')
        if 'JCONTaJCONTb' in flat:
            ctx.count('jinja_made_continuation_effective')
        nontrivial = len(lv) >= 5 and len(eff) >= 2
        ctx.evaluated(('file', tuple(sorted(files.items()))),
                      nontrivial=nontrivial)
        ctx.count('files_checked')
        if nontrivial:
            ctx.count('nontrivial_files')
        if jinja:
            ctx.count('with_jinja')
        if hazard:
            ctx.count('hazard:' + hazard)
        for ft in gen.features:
            ctx.count('feat:' + ft)
        ctx.count('leaf_items', len(lv))
        ctx.count('multiline_values', n_ml)
        ctx.count('list_values', sum(1 for v in leaves_raw_lists(c1)))
        ctx.count('source_lines', sum(t.count('\n') + 1
                                      for t in files.values()))
        ctx.maxc('leaf_items_per_file', len(lv))
        desc = {'files': files, 'processed': processed,
                'template_vars': gen.tvars if jinja else None}
        try:
            try:
                c2 = parse(ppath)
            finally:
                os.chdir(cwd)
        except Exception as exc:
            ctx.violation(
                classify(processed, files),
                f'the processed file cylc wrote cannot be parsed back: '
                f'{type(exc).__name__}: {str(exc)[:160]}', desc)
            return
        d = first_difference(c1, c2)
        ctx.count('configs_compared')
        if d:
            path, what, x, y = d
            ctx.violation(
                classify(processed, files),
                f'item {list(path)} differs ({what}): source gives {x}, '
                f'processed file gives {y}',
                {**desc, 'path': list(path), 'difference': what,
                 'from_source': x, 'from_processed': y})
            return
        if nontrivial and (len(eff) >= 3 or len(ctx.samples) < 2):
            ctx.sample({'files': files, 'processed': processed[:1500],
                        'leaf_items': len(lv), 'visible': sorted(eff)})
    finally:
        shutil.rmtree(base, ignore_errors=True)


def leaves_raw_lists(cfg):
    for v in cfg.values():
        if isinstance(v, dict):
            yield from leaves_raw_lists(v)
        elif isinstance(v, list):
            yield v


def run_case(ctx, i, rng):
    for k in range(FILES_PER_CASE[ctx.tier]):
        if ctx.time_left() < 3:
            ctx.count('files_skipped_budget')
            break
        check_file(ctx, rng, i * 1000 + k)
