"""Online monitors for E1 runs (one class per property or property part).

Each monitor gets every bus event through `on_event(ev)` and may implement
`before_iter(drv)`, `after_iter(drv, pool_snap)`, `after_start(drv, schd)`,
`on_shutdown(drv, schd, reason)`, `on_phase_end(drv)`, `summary(drv)`.
Violations are recorded with `drv.violation(pid, key, what, detail)`.
All oracles work on the GT (vlib.gen.wfgen / vlib.models.gtmodel) and on the
job world's ledger, never on cylc's own evaluation of the same fact.
"""
from __future__ import annotations

import os
import sqlite3
from collections import Counter, defaultdict
from typing import Dict, List, Optional, Set, Tuple

from vlib.gen import wfgen
from vlib.models import gtmodel

RANK = {'waiting': 0, 'preparing': 1, 'submitted': 2, 'running': 3,
        'succeeded': 4, 'failed': 4, 'submit-failed': 4, 'expired': 4}
ACTIVE = ('preparing', 'submitted', 'running')
FINAL = ('succeeded', 'failed', 'submit-failed', 'expired')


def split_id(tid: str) -> Tuple[int, str]:
    p, n = tid.split('/', 1)
    return int(p), n


def match_ids(patterns, pool_snap, gt, future=True):
    """Instance ids selected by command id patterns.

    Globs select pooled tasks only; an explicit CYCLE/NAME also selects a
    task that is not (yet) in the pool when `future`."""
    import fnmatch
    out = set()
    pooled = {t['id'] for t in pool_snap}
    for pat in patterns:
        pat = pat.split(':')[0]
        if any(c in pat for c in '*?['):
            c, _, n = pat.partition('/')
            for tid in pooled:
                p, name = tid.split('/', 1)
                if fnmatch.fnmatchcase(p, c) and fnmatch.fnmatchcase(
                        name, n or '*'):
                    out.add(tid)
        elif pat in pooled or future:
            out.add(pat)
    return out


class Base:
    NAME = 'base'
    PID = None

    def __init__(self, case, phase):
        self.case = case
        self.gt = case['gt']
        self.phase = phase
        self.n: Counter = Counter()
        self.drv = None

    def install(self, drv):
        self.drv = drv

    def v(self, key, what, detail=None):
        self.drv.violation(self.PID, f'{self.PID}:{key}', what, detail)

    def summary(self, drv):
        return dict(self.n)

    def msg_to_output(self, name, message):
        """Output name for a message text (GT)."""
        base = message.split('/', 1)[0] if message.startswith(
            ('failed/', 'aborted/')) else message
        if base == 'aborted':
            base = 'failed'
        if base in wfgen.STD:
            return base
        for o, spec in self.gt['tasks'].get(name, {}).get(
                'outputs', {}).items():
            if spec['message'] == message:
                return o
        return None


class Ledger(Base):
    """Shared observation state: what the job world actually did, which
    instances were manually intervened on, told outputs per instance."""
    NAME = 'ledger'

    def __init__(self, case, phase):
        super().__init__(case, phase)
        # instance ids touched by commands (carried across incarnations)
        st = (phase.get('carry') or {}).get('ledger') or {}
        self.manual: Set[str] = set(st.get('manual', []))
        self.commands = 0
        self.submits: Dict[str, List[str]] = defaultdict(list)  # id -> [NN]
        self.late_polled: List[list] = []
        self.late_msgs: List[list] = []
        self.respawn_refused: List[str] = []
        self.repolled_known: List[list] = []

    def on_event(self, ev):
        k = ev['k']
        if k == 'RESPAWN_REFUSED':
            self.respawn_refused.append(ev['id'])
        elif k == 'CMD':
            self.commands += 1
            if ev['cmd'] in ('force_trigger_tasks', 'set', 'remove_tasks',
                             'kill_tasks'):
                for tid in match_ids(ev['args'].get('tasks') or [],
                                     ev.get('pool') or [], self.gt):
                    self.manual.add(tid)
        elif k == 'SUBMIT_CMD':
            for j in ev['jobs']:
                p, n, num = j.split('/')
                self.submits[f'{p}/{n}'].append(num)
        elif k == 'DELIVER':
            # a job message arriving for a task that has already left the
            # pool (its final message overtook this one): the output is not
            # recorded and its children are not spawned
            tid = ev['job'].rsplit('/', 1)[0]
            schd = self.drv.schd
            if tid in self.submits and schd is not None and \
                    schd.pool._get_task_by_id(tid) is None:
                self.late_msgs.append([tid, ev['message']])
        elif k == 'MSG_OUT' and ev.get('flag') == '(polled)' and \
                self.phase.get('restart') and not ev.get('transient') and \
                ev['status_before'] in ACTIVE and set(
                    ev['outputs_before']) & ({ev['message']} | {
                        'submitted', 'started'}) - {'submitted'}:
            # the restart poll reports an output the DB already had on
            # record: nothing is propagated again for it
            self.repolled_known.append([ev['id'], sorted(
                set(ev['outputs_before']) - {'submitted'})])
        elif k == 'MSG_OUT' and ev.get('transient') and \
                not ev.get('forced') and ev.get('flag') in (
                    '(polled)', '(received)'):
            new = set(ev['outputs_after']) - set(ev['outputs_before'])
            if new:
                # an output learnt (from a poll, or from a job message that
                # the job's final message overtook) for a task that has
                # already left the pool: its children are not spawned
                if ev['flag'] == '(polled)':
                    self.late_polled.append([ev['id'], sorted(new)])
                else:
                    self.late_msgs.append([ev['id'], sorted(new)])

        elif k == 'MSG_OUT' and not ev.get('transient') and \
                not ev.get('forced') and \
                ev['status_before'] == 'waiting' and \
                ev['outputs_after'] == ev['outputs_before'] and \
                self._output_of(ev) not in ev['outputs_before'] and \
                ev.get('submit_num') in (None, ev.get('cur_num')) and \
                ev['message'] not in (
                    'submitted', 'started', 'succeeded', 'failed',
                    'submission failed') and \
                not ev['message'].startswith(('failed/', 'vacated/')):
            # the same with a retry lined up: the job's failure was
            # processed first (task waiting for its retry), the output
            # message - received late, or reported by a poll - is ignored
            self.late_msgs.append([ev['id'], ev['message']])
            self.n_ignored_on_retry = getattr(
                self, 'n_ignored_on_retry', 0) + 1

    def _output_of(self, ev):
        name = ev['id'].split('/', 1)[1]
        texts = (self.case.get('messages') or {}).get(name) or {}
        for o, t in texts.items():
            if t == ev['message']:
                return o
        return ev['message']

    def summary(self, drv):
        return {'late_polled_outputs_on_removed_tasks': self.late_polled,
                'n_late_polled': len(self.late_polled),
                'messages_after_task_left_pool': self.late_msgs,
                'n_late_msgs': len(self.late_msgs),
                'respawn_refused': self.respawn_refused,
                'repolled_known_outputs': self.repolled_known,
                '_state': {'manual': sorted(self.manual)}}

    def actual_facts(self) -> Set[Tuple[str, int, str]]:
        """Outputs actually completed by jobs so far (the world's truth),
        as (task, point, output) facts; see DESIGN §5 C01."""
        w = self.drv.world
        facts = set()
        fails = Counter()
        subfails = Counter()
        for j in w.jobs.values():
            try:
                p = int(j.point)
            except ValueError:
                continue
            key = (j.name, p)
            if j.state == 'submit-failed':
                subfails[key] += 1
                continue
            facts.add((j.name, p, 'submitted'))
            if j.started:
                facts.add((j.name, p, 'started'))
            for o in j.emitted:
                facts.add((j.name, p, o))
            if j.state == 'succeeded':
                facts.add((j.name, p, 'succeeded'))
            if j.state in ('failed', 'killed'):
                fails[key] += 1
        for (n, p), c in fails.items():
            N = self.gt['tasks'][n]['exec_retries']
            if c >= N + 1:
                facts.add((n, p, 'failed'))
        for (n, p), c in subfails.items():
            M = self.gt['tasks'][n]['submit_retries']
            if c >= M + 1:
                facts.add((n, p, 'submit-failed'))
        return facts


class C26Pool(Base):
    """Pool bookkeeping: structure after every iteration + DB table."""
    NAME = 'c26'
    PID = 'C26'

    def after_iter(self, drv, pool_snap):
        pool = drv.schd.pool
        self.n['struct_checks'] += 1
        ids = []
        for point, bucket in pool.active_tasks.items():
            if not bucket:
                self.v('empty-bucket', f'empty cycle bucket {point} in pool',
                       {'point': str(point)})
            for ident, itask in bucket.items():
                ids.append((str(itask.point), itask.tdef.name))
                if ident != itask.identity or itask.point != point:
                    self.v('bucket-mismatch',
                           f'{itask.identity} filed under {point}/{ident}')
        dup = [i for i, c in Counter(ids).items() if c > 1]
        if dup:
            self.v('duplicate-proxy', f'two proxies for {dup[:3]}',
                   {'dups': dup})
        cached = sorted(t.identity for t in pool.get_tasks())
        true = sorted(t.identity for b in pool.active_tasks.values()
                      for t in b.values())
        if cached != true:
            self.v('stale-task-list',
                   f'get_tasks() {cached[:6]} != contents {true[:6]}',
                   {'cached': cached, 'true': true})
        # DB part: read through a separate connection
        path = drv.schd.workflow_db_mgr.pri_path
        if not os.path.exists(path):
            return
        try:
            con = sqlite3.connect(f'file:{path}?mode=ro', uri=True,
                                  timeout=5)
            rows = con.execute(
                'SELECT cycle, name, flow_nums, status, is_held '
                'FROM task_pool').fetchall()
            con.close()
        except sqlite3.Error as exc:
            self.n['db_read_errors'] += 1
            return
        self.n['db_checks'] += 1
        import json as _json
        db = {}
        for cyc, name, flows, status, held in rows:
            key = (cyc, name)
            if key in db:
                # one row per (cycle, name, flow_nums)
                self.v('db-duplicate-row', f'task_pool has two rows for '
                       f'{cyc}/{name}', {'rows': [list(r) for r in rows]})
            try:
                fl = sorted(_json.loads(flows))
            except Exception:
                fl = flows
            db[key] = (fl, status, bool(held))
        mem = {(t['point'], t['name']): (t['flows'], t['status'], t['held'])
               for t in pool_snap}
        if db != mem:
            only_db = sorted(set(db) - set(mem))
            only_mem = sorted(set(mem) - set(db))
            diff = sorted(k for k in set(db) & set(mem) if db[k] != mem[k])
            kind = ('missing-row' if only_mem else
                    'extra-row' if only_db else 'row-differs')
            self.v(f'db-{kind}',
                   f'task_pool table != pool after iteration: only in DB '
                   f'{only_db[:3]}, only in pool {only_mem[:3]}, differing '
                   f'{[(k, db[k], mem[k]) for k in diff[:2]]}',
                   {'only_db': only_db, 'only_pool': only_mem,
                    'differ': [[list(k), db[k], mem[k]] for k in diff]})
        self.n['rows_compared'] += len(mem)


class C09Lifecycle(Base):
    """Status transitions and output monotonicity (Appendix E.4)."""
    NAME = 'c09'
    PID = 'C09'

    def __init__(self, case, phase):
        super().__init__(case, phase)
        self.outs: Dict[str, Set[str]] = {}
        self.fail_msgs = Counter()   # per instance: failures told so far

    def on_event(self, ev):
        k = ev['k']
        if k == 'STATE':
            b, a = ev['before'][0], ev['after'][0]
            if b == a or ev.get('forced') or ev.get('transient'):
                return
            self.n['transitions'] += 1
            self.n[f'{b}>{a}'] += 1
            tid = ev['id']
            p, n = split_id(tid)
            td = self.gt['tasks'].get(n)
            ok = True
            why = ''
            if a == 'waiting':
                # automatic retry only
                if b not in ('preparing', 'submitted', 'running', 'failed',
                             'submit-failed'):
                    ok, why = False, 'back to waiting from ' + b
                elif td is not None and not (
                        td['exec_retries'] or td['submit_retries']):
                    ok, why = False, 'return to waiting with no retries ' \
                        'configured'
            elif a == 'submit-failed':
                ok = b in ('preparing', 'submitted')
                why = f'submit-failed from {b}'
            elif a == 'expired':
                ok = b == 'waiting'
                why = f'expired from {b}'
            else:
                ok = RANK[a] > RANK[b]
                why = f'{b} -> {a} goes backwards or sideways'
            if not ok:
                self.v(f'transition:{b}>{a}',
                       f'{tid} status {b} -> {a}: {why}', ev)
        elif k == 'MSG_OUT' and not ev.get('forced'):
            tid = ev['id']
            before = set(ev['outputs_before'])
            after = set(ev['outputs_after'])
            self.n['output_checks'] += 1
            if not before <= after:
                self.v('outputs-shrank',
                       f'{tid} outputs {sorted(before)} -> {sorted(after)} '
                       f'on message {ev["message"]!r}', ev)
            for fin in ('succeeded', 'failed'):
                if fin in after and not {'submitted', 'started'} <= after:
                    self.v('final-without-started',
                           f'{tid} has {fin} complete but outputs are '
                           f'{sorted(after)}', ev)


class C07Bounds(Base):
    NAME = 'c07'
    PID = 'C07'

    def on_event(self, ev):
        k = ev['k']
        if k == 'POOL_ADD':
            t = ev['task']
            self.n['adds'] += 1
            p, n = int(t['point']), t['name']
            gt = self.gt
            if p < gt['initial'] or p > gt['final']:
                self.v('out-of-bounds', f'{t["id"]} added to the pool outside'
                       f' [{gt["initial"]}, {gt["final"]}]', t)
            elif p not in wfgen.task_points(gt, n):
                self.v('off-sequence', f'{t["id"]} added to the pool but '
                       f'{n} cycles on {wfgen.task_points(gt, n)}', t)
        elif k == 'SUBMIT_CMD':
            stop = self.gt.get('stop_after')
            led = self.drv.ledger
            for j in ev['jobs']:
                p, n, _ = j.split('/')
                self.n['submits'] += 1
                if stop is not None and int(p) > stop \
                        and f'{p}/{n}' not in led.manual:
                    self.v('beyond-stop-point',
                           f'{j} submitted beyond stop point {stop}', ev)


class C02Once(Base):
    NAME = 'c02'
    PID = 'C02'

    def __init__(self, case, phase):
        super().__init__(case, phase)
        self.jobs_seen: Dict[str, int] = {}
        self.by_inst: Dict[str, List[int]] = defaultdict(list)
        self.preps: Counter = Counter()
        self.prep_faults: Counter = Counter()

    def on_event(self, ev):
        k = ev['k']
        led = self.drv.ledger
        if k == 'PREP_FAULT':
            self.prep_faults[ev['job'].rsplit('/', 1)[0]] += 1
            self.n['job_file_faults_injected'] += 1
        elif k == 'PREP':
            # every entry into job preparation from a non-preparing status
            # is a (re)submission attempt, whether or not a job results
            for t in ev['tasks']:
                if t['status'] == 'preparing' or t['manual'] or \
                        t['id'] in led.manual or \
                        t['name'] not in self.gt['tasks']:
                    continue
                self.preps[t['id']] += 1
                self.n['preparations'] += 1
                td = self.gt['tasks'][t['name']]
                bound = (td['exec_retries'] + 1) * (td['submit_retries'] + 1)
                if self.preps[t['id']] > bound:
                    self.v('too-many-preparations',
                           f'{t["id"]} entered job preparation '
                           f'{self.preps[t["id"]]} times, bound (N+1)(M+1) = '
                           f'{bound}', t)
        elif k == 'SUBMIT_CMD':
            for j in ev['jobs']:
                p, n, num = j.split('/')
                tid = f'{p}/{n}'
                self.n['submissions'] += 1
                if tid in led.manual:
                    continue
                if j in self.jobs_seen:
                    self.v('same-job-twice', f'job {j} appears in two submit '
                           'commands', ev)
                self.jobs_seen[j] = ev['seq']
                lst = self.by_inst[tid]
                if lst and int(num) <= lst[-1]:
                    self.v('submit-num-not-increasing',
                           f'{tid} submit numbers {lst + [int(num)]}', ev)
                lst.append(int(num))
                td = self.gt['tasks'][n]
                bound = (td['exec_retries'] + 1) * (td['submit_retries'] + 1)
                if len(lst) > bound:
                    self.v('too-many-submissions',
                           f'{tid} submitted {len(lst)} times, bound '
                           f'(N+1)(M+1) = {bound}', {'nums': lst})
                if len(lst) > 1:
                    self.n['resubmissions'] += 1
        elif k == 'MSG_OUT' and not ev.get('forced'):
            new = set(ev['outputs_after']) - set(ev['outputs_before'])
            tid = ev['id']
            if tid in led.manual:
                return
            p, n = split_id(tid)
            td = self.gt['tasks'].get(n)
            if td is None:
                return
            w = self.drv.world
            if 'failed' in new:
                self.n['failed_completions'] += 1
                nf = sum(1 for j in w.jobs.values()
                         if j.name == n and j.point == str(p)
                         and j.state in ('failed', 'killed'))
                if nf < td['exec_retries'] + 1:
                    self.v('failed-before-retries-exhausted',
                           f'{tid} completed failed after {nf} failed jobs '
                           f'with {td["exec_retries"]} retries configured',
                           ev)
            if 'submit-failed' in new:
                self.n['submit_failed_completions'] += 1
                ns = sum(1 for j in w.jobs.values()
                         if j.name == n and j.point == str(p)
                         and j.state == 'submit-failed'
                         ) + self.prep_faults[tid]
                if ns < td['submit_retries'] + 1:
                    self.v('submit-failed-before-retries-exhausted',
                           f'{tid} completed submit-failed after {ns} '
                           f'submit failures with {td["submit_retries"]} '
                           'retries configured', ev)


class C10Messages(Base):
    NAME = 'c10'
    PID = 'C10'
    KPOLL = 6      # iterations for the confirmation poll to be started

    def __init__(self, case, phase):
        super().__init__(case, phase)
        self.need_poll: Dict[str, int] = {}

    def on_event(self, ev):
        if ev['k'] == 'POLL_CMD':
            for j in ev['jobs']:
                self.need_poll.pop(j.rsplit('/', 1)[0], None)
            return
        if ev['k'] == 'POOL_REMOVE':
            self.need_poll.pop(ev['task']['id'], None)
            return
        if ev['k'] != 'MSG_OUT' or ev.get('forced') or ev.get('transient'):
            return
        if ev['flag'] != '(received)' or ev['depth'] != 0:
            return
        self.n['received'] += 1
        tid = ev['id']
        if ev['submit_num'] is not None and ev['submit_num'] != ev['cur_num']:
            self.n['stale_received'] += 1
            if (ev['status_before'] != ev['status_after'] or
                    ev['outputs_before'] != ev['outputs_after']):
                self.v('stale-message-changed-state',
                       f'{tid}: message {ev["message"]!r} from job '
                       f'{ev["submit_num"]} (current {ev["cur_num"]}) changed '
                       f'status {ev["status_before"]}->{ev["status_after"]} '
                       f'or outputs', ev)
            return
        sb, sa = ev['status_before'], ev['status_after']
        if RANK.get(sa, 0) < RANK.get(sb, 0) and sa != 'waiting':
            self.v('message-moved-status-backwards',
                   f'{tid}: received {ev["message"]!r} moved status '
                   f'{sb}->{sa}', ev)
        # a message that would move status backwards => poll, no change
        p, n = split_id(tid)
        out = self.msg_to_output(n, ev['message'])
        implied_rank = {'submitted': 2, 'started': 3, 'succeeded': 4,
                        'failed': 4, 'submit-failed': 4}.get(out)
        if implied_rank is not None and sb in RANK and \
                implied_rank < RANK[sb] and sb != 'waiting':
            self.n['backward_messages'] += 1
            if sb != sa:
                self.v('backward-message-changed-status',
                       f'{tid}: {ev["message"]!r} received in status {sb} '
                       f'changed it to {sa}', ev)
            if not ev['ret']:
                self.v('backward-message-no-poll',
                       f'{tid}: {ev["message"]!r} received in status {sb} '
                       'did not request a poll', ev)
            else:
                # ... and the poll must really be issued
                self.need_poll.setdefault(tid, self.drv.bus.it)
                self.n['polls_expected'] += 1

    def after_iter(self, drv, pool_snap):
        schd = drv.schd
        if schd.stop_mode:
            self.need_poll.clear()
            return
        for tid, it in list(self.need_poll.items()):
            if drv.bus.it - it >= self.KPOLL:
                del self.need_poll[tid]
                self.v('backward-message-poll-not-issued',
                       f'{tid}: a received message that would have moved '
                       f'its status backwards (iteration {it}) asked for a '
                       f'confirmation poll, but no poll of its job was '
                       f'started in {self.KPOLL} iterations', {'id': tid})

    def on_phase_end(self, drv):
        """At quiescence, final status/outputs match the latest job."""
        if drv.capped or getattr(drv, 'phase', {}).get('kill_at_iter'):
            return
        led = drv.ledger
        w = drv.world
        if any(j.outbox for j in w.jobs.values()) or w.live_jobs():
            self.n['not_quiescent_at_end'] += 1
            return
        latest: Dict[str, object] = {}
        for j in w.jobs.values():
            tid = f'{j.point}/{j.name}'
            if tid not in latest or j.num > latest[tid].num:
                latest[tid] = j
        pool = {t['id']: t for t in (drv.last_pool or [])} \
            if hasattr(drv, 'last_pool') else {}
        for tid, j in latest.items():
            if tid in led.manual:
                continue
            self.n['final_checks'] += 1
            t = pool.get(tid)
            if t is None:
                continue   # removed as complete: checked by C11/C01
            want = {'succeeded': 'succeeded', 'failed': 'failed',
                    'submit-failed': 'submit-failed'}.get(j.state)
            if want is None:
                continue
            td = self.gt['tasks'][j.name]
            if t['status'] == 'waiting' and (td['exec_retries'] or
                                             td['submit_retries']):
                continue
            if t['status'] != want:
                self.v('final-status-differs-from-latest-job',
                       f'{tid}: latest job {j.jid} ended {j.state} but task '
                       f'is {t["status"]}', {'task': t, 'job': j.to_json()})
            for o in j.emitted:
                msg = w.message_texts(j.name).get(o, o)
                if msg not in t['outputs'] and o not in t['outputs']:
                    self.v('final-outputs-miss-latest-job-output',
                           f'{tid}: job emitted {o} but task outputs are '
                           f'{t["outputs"]}', {'task': t})


class C01Graph(Base):
    """Online: every non-manual submission has its GT prerequisites true
    over outputs actually completed; offline: closure (all-complete plans)."""
    NAME = 'c01'
    PID = 'C01'

    def __init__(self, case, phase):
        super().__init__(case, phase)
        self.submitted: Set[Tuple[str, int]] = set()

    def on_event(self, ev):
        if ev['k'] != 'SUBMIT_CMD':
            return
        led = self.drv.ledger
        gt = self.gt
        facts = None
        for j in ev['jobs']:
            p, n, num = j.split('/')
            p = int(p)
            self.submitted.add((n, p))
            if f'{p}/{n}' in led.manual:
                continue
            self.n['submit_checks'] += 1
            if self.case.get('start_point') and p < self.case['start_point']:
                self.n['submitted_before_start_point'] += 1
            if p not in wfgen.task_points(gt, n) or not (
                    gt['initial'] <= p <= gt['final']):
                self.v('submitted-off-sequence',
                       f'{j} submitted but {n} cycles on '
                       f'{wfgen.task_points(gt, n)} within '
                       f'[{gt["initial"]},{gt["final"]}]', ev)
                continue
            if int(num) > 1:
                continue     # a retry: prerequisites were judged at 01
            if facts is None:
                facts = led.actual_facts()
            start = self.case.get('start_point', gt['initial'])
            for ar in wfgen.arrows_at(gt, n, p):
                self.n['exprs_evaluated'] += 1
                if not gtmodel.eval_expr(ar, p, facts, start):
                    self.v('submitted-with-unsatisfied-prerequisite',
                           f'{j} submitted but "{wfgen.render_expr(gt, ar)}'
                           f' => {n}" is false over the outputs actually '
                           'completed upstream',
                           {'job': j, 'expr': wfgen.render_expr(gt, ar),
                            'facts': sorted(f for f in facts
                                            if abs(f[1] - p) <= 3)})
            if gt['tasks'][n]['sequential']:
                pts = [q for q in wfgen.task_points(gt, n) if q < p
                       and q >= start]
                if pts and (n, pts[-1], 'succeeded') not in facts:
                    # judged by C31
                    pass


class EndState(Base):
    """Collects how the run ended (for offline closure comparisons)."""
    NAME = 'end'

    def __init__(self, case, phase):
        super().__init__(case, phase)
        self.submit_iters = []
        self.succeeded_iters = []

    def on_event(self, ev):
        if ev['k'] == 'SUBMIT_CMD':
            for j in ev['jobs']:
                self.submit_iters.append([j.rsplit('/', 1)[0], ev['it']])
        elif ev['k'] == 'STATE' and ev['after'][0] == 'succeeded' \
                and ev['before'][0] != 'succeeded':
            self.succeeded_iters.append([ev['id'], ev['it']])

    def summary(self, drv):
        led = drv.ledger
        return {
            'submit_iters': self.submit_iters,
            'succeeded_iters': self.succeeded_iters,
            'submitted': sorted(f'{t}' for t in led.submits),
            'submits': {k: v for k, v in led.submits.items()},
            'manual': sorted(led.manual),
            'stop_reason': drv.stop_reason,
            'ended_by_harness': drv.ended_by_harness,
            'stalled': bool(drv.stall_seen),
            'final_pool': getattr(drv, 'last_pool', None),
        }


class StopWatch(Base):
    """Which jobs of pooled active tasks were live when the scheduler
    exited (C43 clean / --now)."""
    NAME = 'stopw'

    def __init__(self, case, phase):
        super().__init__(case, phase)
        self.live = None

    def on_phase_end(self, drv):
        pool = {t['id']: t for t in (getattr(drv, 'last_pool', None) or [])}
        live = []
        for j in drv.world.live_jobs():
            t = pool.get(f'{j.point}/{j.name}')
            if t and t['status'] in ACTIVE and t['submit_num'] == j.num:
                live.append(j.jid)
        self.live = live

    def summary(self, drv):
        return {'live_at_exit': self.live}
