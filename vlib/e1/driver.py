"""E1 driver: runs a real Scheduler in-process against the fake job world.

One *phase* = one scheduler incarnation (start or restart → shutdown/kill),
always executed in a freshly forked child of a warmed parent (see phases.py).
"""
from __future__ import annotations

import asyncio
import json
import os
import random
import sys
import time as _real_time
import traceback
from typing import Any, Dict, List, Optional

from vlib.e1 import world as W
from vlib.e1.vclock import VClock

WF_NAME = 'wf'


def warm_imports():
    """Import everything heavy once (in the shard parent)."""
    import cylc.flow.scheduler  # noqa: F401
    import cylc.flow.scheduler_cli  # noqa: F401
    import cylc.flow.commands  # noqa: F401
    import cylc.flow.network.resolvers  # noqa: F401
    import cylc.flow.network.server  # noqa: F401
    import cylc.flow.task_job_mgr  # noqa: F401
    import cylc.flow.xtriggers.wall_clock  # noqa: F401
    import cylc.flow.run_modes.simulation  # noqa: F401
    import cylc.flow.run_modes.skip  # noqa: F401
    import cylc.flow.job_runner_handlers.background  # noqa: F401
    import cylc.flow.main_loop.health_check  # noqa: F401
    import cylc.flow.main_loop.reset_bad_hosts  # noqa: F401
    from cylc.flow.cfgspec.glbl_cfg import glbl_cfg
    glbl_cfg()


class Bus:
    """Event recorder (DESIGN §2.2). Events are dicts with k(ind), it, seq."""

    def __init__(self):
        self.events: List[dict] = []
        self.seq = 0
        self.it = 0
        self.counts: Dict[str, int] = {}
        self.listeners = []

    def emit(self, kind: str, **payload):
        self.seq += 1
        ev = {'k': kind, 'it': self.it, 'seq': self.seq}
        ev.update(payload)
        self.events.append(ev)
        self.counts[kind] = self.counts.get(kind, 0) + 1
        for fn in self.listeners:
            try:
                fn(ev)
            except Exception:
                self.emit_error('listener', traceback.format_exc(limit=6))
        return ev

    def emit_error(self, where, text):
        self.counts['HARNESS_ERROR'] = self.counts.get('HARNESS_ERROR', 0) + 1
        self.events.append({'k': 'HARNESS_ERROR', 'it': self.it,
                            'where': where, 'text': text[-1500:]})


def snap_task(itask) -> dict:
    """Plain-data snapshot of a task proxy (read-only access)."""
    st = itask.state
    outs = sorted(st.outputs.get_completed_outputs())
    prereqs = []
    pgroups = []
    for gi, pr in enumerate(st.prerequisites):
        gsat = bool(pr.is_satisfied())
        for key, val in pr.items():
            prereqs.append([str(key.point), key.task, key.output,
                            bool(val), val if isinstance(val, str) else None])
            pgroups.append([str(key.point), key.task, key.output, gi, gsat])
    return {
        'id': itask.identity, 'point': str(itask.point),
        'name': itask.tdef.name, 'status': st.status,
        'held': bool(st.is_held), 'queued': bool(st.is_queued),
        'runahead': bool(st.is_runahead),
        'flows': sorted(itask.flow_nums), 'submit_num': itask.submit_num,
        'outputs': outs, 'prereqs': sorted(prereqs, key=repr),
        'prereqs_sat': bool(itask.prereqs_are_satisfied()),
        'prereq_groups': pgroups,
        'xtriggers': dict(st.xtriggers),
        'manual': bool(itask.is_manual_submit),
        'wojp': bool(itask.waiting_on_job_prep),
        'flow_wait': bool(itask.flow_wait),
        'transient': bool(itask.transient),
        'try': {str(k): v.num for k, v in itask.try_timers.items()},
    }


def snap_pool(pool) -> List[dict]:
    out = []
    for point, d in pool.active_tasks.items():
        for itask in d.values():
            out.append(snap_task(itask))
    return sorted(out, key=lambda t: (t['point'], t['name']))


class _ExecNotify:
    """Wraps a queued command generator: emits CMD_EXEC (with the pool as
    it is then) right before the scheduler executes the command."""

    def __init__(self, drv, schd, name, args, gen):
        self.drv, self.schd, self.name, self.args, self.gen = (
            drv, schd, name, args, gen)

    def __aiter__(self):
        return self

    async def __anext__(self):
        self.drv.bus.emit('CMD_EXEC', cmd=self.name, args=self.args,
                          pool=snap_pool(self.schd.pool))
        try:
            return await self.gen.__anext__()
        finally:
            self.drv.bus.emit('CMD_EXEC_END', cmd=self.name)

    def __getattr__(self, k):
        return getattr(self.gen, k)


class Driver:
    def __init__(self, case: dict, rundir_home: str, world: W.JobWorld,
                 phase: dict, monitors: list):
        self.case = case
        self.home = rundir_home
        self.world = world
        self.phase = phase
        self.monitors = monitors
        self.bus = Bus()
        self.policy = {
            'p_cmd_done': 0.7, 'max_cmd_age': 3, 'p_deliver': 0.75,
            'max_msg_age': 4, 'p_reorder': 0.0, 'p_dup': 0.0,
            'p_drop': 0.0, 'speed': 0.6, 'dt': 2.0, 'p_stale': 0.0,
            'iter_cap': 400, 'idle_cap': 12,
        }
        self.policy.update(case.get('policy', {}))
        self.rng = random.Random(
            case['seed'] * 1009 + 17 * world.incarnation + 5)
        self.vclock = VClock(world.vtime)
        self.schd = None
        self.violations: List[dict] = []
        self.stop_reason = None
        self.stop_exc = None
        self.capped = False
        self.ended_by_harness = None
        self.idle = 0
        self.procs: List[W.FakeProc] = []
        self.cmd_results: List[dict] = []
        self.kill_at_iter = phase.get('kill_at_iter')
        self.stall_seen = False
        self.script = list(phase.get('script', []))
        self.extra: Dict[str, Any] = {}

    # -- violations ----------------------------------------------------
    def violation(self, pid, key, what, detail=None):
        self.violations.append({
            'pid': pid, 'key': key, 'what': what, 'detail': detail,
            'it': self.bus.it, 'inc': self.world.incarnation})

    # -- fake pool callbacks -------------------------------------------
    def on_command_start(self, pool, ctx):
        key = ctx.cmd_key
        kind = key if isinstance(key, str) else type(key).__name__
        proc = W.FakeProc(ctx, kind)
        self.procs.append(proc)
        if kind == 'jobs-submit':
            jobs = list(ctx.cmd_kwargs.get('job_log_dirs') or [])
            self.bus.emit('SUBMIT_CMD', jobs=jobs, pid=proc.pid)
        elif kind in ('jobs-poll', 'jobs-kill'):
            jobs = [a for a in proc.args if a.count('/') == 2
                    and a.rsplit('/', 1)[1].isdigit()]
            self.bus.emit('POLL_CMD' if kind == 'jobs-poll' else 'KILL_CMD',
                          jobs=jobs, pid=proc.pid)
            proc.jobs = jobs
        elif kind == 'xtrigger-func':
            self.bus.emit('XTRIG_CALL', sig=ctx.get_signature(),
                          label=ctx.label,
                          vtime=getattr(ctx, '_verif_put_vtime',
                                        self.vclock.now),
                          started_vtime=self.vclock.now,
                          intvl=ctx.intvl, pid=proc.pid)
        else:
            self.bus.emit('OTHER_CMD', kind=str(kind), pid=proc.pid)
        return proc

    def on_pool_process(self, pool):
        """One tick: decide which running fake commands complete now."""
        for running in pool.runnings:
            proc = running[0]
            if not isinstance(proc, W.FakeProc) or proc.done:
                continue
            proc.age += 1
            if (proc.age >= self.policy['max_cmd_age']
                    or self.rng.random() < self.policy['p_cmd_done']
                    or proc.killed):
                self.complete(proc)

    def complete(self, proc: W.FakeProc):
        ctx = proc.ctx
        w = self.world
        lines = []
        if proc.killed:
            # the command process was killed (pool terminate): it did
            # nothing observable
            proc.out = ''
            proc.ret = -9
            proc.done = True
            self.bus.emit('CMD_KILLED', kind=proc.kind, pid=proc.pid)
            return
        if proc.kind == 'jobs-submit':
            for jid in ctx.cmd_kwargs.get('job_log_dirs') or []:
                point, name, num = jid.split('/')
                j = w.launch(point, name, int(num))
                if j.state == W.J_SUBMIT_FAILED:
                    lines.append(f'[TASK JOB SUMMARY]{W.TS}|{jid}|1|None')
                    lines.append(f'[TASK JOB COMMAND]{W.TS}|{jid}|'
                                 '[STDERR] submit refused')
                else:
                    lines.append(
                        f'[TASK JOB SUMMARY]{W.TS}|{jid}|0|{10000 + proc.pid}')
                self.bus.emit('LAUNCH', job=jid, ok=j.state !=
                              W.J_SUBMIT_FAILED, count=j.launch_count)
        elif proc.kind == 'jobs-poll':
            for jid in getattr(proc, 'jobs', []):
                lines.extend(w.poll_lines(jid))
                self.bus.emit('POLL_ANSWER', job=jid,
                              truth=(w.jobs[jid].state if jid in w.jobs
                                     else None))
        elif proc.kind == 'jobs-kill':
            for jid in getattr(proc, 'jobs', []):
                rc = w.kill(jid)
                lines.append(f'[TASK JOB SUMMARY]{W.TS}|{jid}|{rc}')
        elif proc.kind == 'xtrigger-func':
            res = self.xtrig_result(ctx)
            lines.append(json.dumps(res))
            self.bus.emit('XTRIG_RET', sig=ctx.get_signature(),
                          ok=bool(res[0]), vtime=self.vclock.now)
        proc.out = '\n'.join(lines) + ('\n' if lines else '')
        proc.ret = 0
        proc.done = True

    def xtrig_result(self, ctx):
        """Result of an xtrigger call according to the case's plan."""
        sig = ctx.get_signature()
        plan = self.case.get('xtrig_plan', {})
        calls = [c for c in self.world.xtrig_calls if c['sig'] == sig]
        nth = len(calls)
        self.world.xtrig_calls.append({'sig': sig, 'vtime': self.vclock.now,
                                       'inc': self.world.incarnation})
        need = plan.get(ctx.label, plan.get('*', 1))
        ok = nth + 1 >= need
        return [ok, {'n': nth + 1} if ok else {}]

    # -- iteration callbacks -------------------------------------------
    def before_iter(self, schd):
        self.bus.it += 1
        it = self.bus.it
        self.vclock.advance(self.policy['dt'])
        self.world.vtime = self.vclock.now
        self.world.advance(self.policy['speed'])
        self.deliver_messages(schd)
        for m in self.monitors:
            if hasattr(m, 'before_iter'):
                self._safe(m.before_iter, self)
        if self.kill_at_iter is not None and it >= self.kill_at_iter:
            self.hard_kill('iter')

    def inner_tick(self, schd):
        """One pass of the loop in which `cylc reload` waits for preparing
        tasks to be submitted: that loop blocks the main loop, so the job
        world has to keep going from here (jobs finish, messages arrive),
        or a reload issued during a clean stop would wait for ever for
        jobs that cannot end."""
        self.inner_ticks = getattr(self, 'inner_ticks', 0) + 1
        self.vclock.advance(self.policy['dt'])
        self.world.vtime = self.vclock.now
        self.world.advance(self.policy['speed'])
        self.deliver_messages(schd)
        if self.inner_ticks >= self.policy['iter_cap']:
            self.capped = True
            self.end_by_harness(schd, 'iter_cap')

    def deliver_messages(self, schd):
        pol = self.policy
        batch = []
        for j in sorted(self.world.jobs.values(), key=lambda x: x.jid):
            keep = []
            for idx, m in enumerate(j.outbox):
                age = self.world.tick_no - m['tick']
                if pol['p_drop'] and self.rng.random() < pol['p_drop']:
                    self.bus.emit('MSG_DROPPED', job=m['job'],
                                  message=m['message'])
                    continue
                # in-order unless reordering enabled: an earlier message of
                # this job still waiting blocks later ones
                blocked = bool(keep) and not (
                    pol['p_reorder'] and self.rng.random() < pol['p_reorder'])
                if not blocked and (age >= pol['max_msg_age']
                                    or self.rng.random() < pol['p_deliver']):
                    batch.append(m)
                    if pol['p_dup'] and self.rng.random() < pol['p_dup']:
                        batch.append(dict(m, dup=True))
                else:
                    keep.append(m)
            j.outbox[:] = keep
        # stale injection: re-send an old message of an older submit number
        if pol['p_stale'] and self.world.delivered and \
                self.rng.random() < pol['p_stale']:
            old = self.rng.choice(self.world.delivered)
            same = [m for m in self.world.delivered
                    if any(b['job'] == m['job'] for b in batch)]
            if same and self.rng.random() < 0.5:
                # an old message of a job that also reports something new
                # in this batch, delivered ahead of the new message
                old = self.rng.choice(same)
                idx = min(i for i, b in enumerate(batch)
                          if b['job'] == old['job'])
                batch.insert(idx, dict(old, stale=True))
            else:
                batch.append(dict(old, stale=True))
        if pol['p_reorder'] and len(batch) > 1 and \
                self.rng.random() < pol['p_reorder']:
            self.rng.shuffle(batch)
        for m in batch:
            self.bus.emit('DELIVER', job=m['job'], message=m['message'],
                          dup=bool(m.get('dup')), stale=bool(m.get('stale')))
            if not m.get('stale') and not m.get('dup'):
                self.world.delivered.append(
                    {k: m[k] for k in ('job', 'message', 'severity', 'tick')})
            schd.server.resolvers.put_messages(
                m['job'], W.TS, [[m['severity'], m['message']]])

    def after_iter(self, schd):
        pool_snap = snap_pool(schd.pool)
        self.last_pool = pool_snap
        self.bus.emit('LOOP', n=len(pool_snap), stalled=bool(schd.is_stalled),
                      paused=bool(schd.is_paused),
                      stop_mode=str(schd.stop_mode) if schd.stop_mode else None)
        if schd.is_stalled and not self.stall_seen:
            self.stall_seen = True
            self.bus.emit('STALL', pool=pool_snap)
        if not schd.is_stalled:
            self.stall_seen = False
        for m in self.monitors:
            if hasattr(m, 'after_iter'):
                self._safe(m.after_iter, self, pool_snap)
        # termination control
        busy = (bool(self.world.live_jobs())
                or any(j.outbox for j in self.world.jobs.values())
                or bool(schd.proc_pool.is_not_done())
                or schd.message_queue.qsize() > 0
                or schd.command_queue.qsize() > 0)
        if busy or any(a['at'] > self.bus.it for a in self.script):
            self.idle = 0
        else:
            self.idle += 1
        if self.bus.it >= self.policy['iter_cap']:
            self.capped = True
            self.end_by_harness(schd, 'iter_cap')
        elif self.idle >= self.policy['idle_cap'] and not schd.stop_mode:
            # nothing can happen any more without intervention
            self.end_by_harness(
                schd, 'stalled' if schd.is_stalled else 'idle')

    def end_by_harness(self, schd, why):
        if self.ended_by_harness:
            return
        from cylc.flow.workflow_status import StopMode
        self.ended_by_harness = why
        self.bus.emit('HARNESS_END', why=why, pool=self.last_pool)
        schd._set_stop(StopMode.REQUEST_NOW_NOW)

    def hard_kill(self, where):
        """Abrupt death of the scheduler process (kill -9)."""
        self.bus.emit('KILLED', where=where)
        self.finish(killed=True)
        os._exit(137)

    def _safe(self, fn, *a):
        try:
            fn(*a)
        except Exception:
            self.bus.emit_error(getattr(fn, '__qualname__', str(fn)),
                                traceback.format_exc(limit=8))

    # -- scripted actions ----------------------------------------------
    async def run_actions(self, schd):
        """Issue the scripted commands due at this iteration through the
        real mutation entry point (validation, then the command queue)."""
        it = self.bus.it
        for act in [a for a in self.script if a['at'] == it]:
            await self.do_action(schd, act)

    async def do_action(self, schd, act):
        name = act['cmd']
        args = dict(act.get('args', {}))
        if name == 'stop':
            from cylc.flow.workflow_status import StopMode
            args['mode'] = {'clean': StopMode.REQUEST_CLEAN,
                            'now': StopMode.REQUEST_NOW,
                            'now-now': StopMode.REQUEST_NOW_NOW,
                            'kill': StopMode.REQUEST_KILL,
                            None: None}[args.get('mode')]
        if any(str(t).startswith('@') for t in args.get('tasks') or []):
            # ids resolved against the pool when the command is issued:
            # '@runahead' = the runahead-limited waiting tasks (at most 2)
            ids = []
            for t in args['tasks']:
                if t == '@runahead':
                    ids += [i.identity for i in schd.pool.get_tasks()
                            if i.state.is_runahead
                            and i.state.status == 'waiting'][-2:]
                elif t == '@finished-group':
                    # a pooled finished (retained) task and up to two
                    # instances that have a prerequisite on it
                    fin = [i for i in schd.pool.get_tasks()
                           if i.state.status in ('failed', 'succeeded',
                                                 'submit-failed')]
                    gt = self.case['gt']
                    if fin and gt.get('sections'):
                        from vlib.e1.monitors2 import gt_children
                        x = fin[-1]
                        kids = set()
                        td = gt['tasks'].get(x.tdef.name) or {}
                        for o in ['submitted', 'started', 'succeeded',
                                  'failed'] + list(td.get('outputs') or []):
                            kids |= gt_children(gt, x.tdef.name,
                                                int(str(x.point)), o)
                        ids.append(x.identity)
                        ids += sorted(f'{q}/{c}' for c, q in kids)[:2]
                elif t == '@pooled-chain':
                    # a pooled task that has a parent instance in the graph,
                    # with that parent (and sometimes a second child of it)
                    gt = self.case['gt']
                    if gt.get('sections'):
                        from vlib.e1.monitors2 import gt_children
                        from vlib.gen import wfgen as _wf
                        pooled = sorted(
                            (i for i in schd.pool.get_tasks()
                             if i.tdef.name in gt['tasks']),
                            key=lambda i: i.identity)
                        self.rng.shuffle(pooled)
                        for x in pooled:
                            n, q = x.tdef.name, int(str(x.point))
                            pars = sorted({
                                (_wf.atom_point(a, q), a[1])
                                for ar in _wf.arrows_at(gt, n, q)
                                for a in _wf.atoms(ar)
                                if _wf.atom_point(a, q) >= gt['initial']
                                and (_wf.atom_point(a, q), a[1]) != (q, n)})
                            if pars:
                                pq, pn = self.rng.choice(pars)
                                ids += [f'{pq}/{pn}', x.identity]
                                break
                elif not str(t).startswith('@'):
                    ids.append(t)
            if not ids:
                return
            args['tasks'] = ids
            act = dict(act, args=dict(act.get('args', {}), tasks=ids))
        if name == 'reload_workflow' and act.get('new_flow'):
            # a changed definition is installed before the reload request
            import os as _os
            with open(_os.path.join(self.home, 'cylc-run', WF_NAME,
                                    'flow.cylc'), 'w') as f:
                f.write(act['new_flow'])
        if name == 'broadcast':
            import types
            args['mode'] = types.SimpleNamespace(value=args['mode'])
            args['settings'] = [dict(x) for x in args.get('settings') or []]
        ev = self.bus.emit('CMD', cmd=name, args=act.get('args', {}),
                           pool=snap_pool(schd.pool))
        for m in self.monitors:
            if hasattr(m, 'on_command'):
                self._safe(m.on_command, self, schd, act)
        try:
            ok, msg = await schd.server.resolvers._mutation_mapper(
                name, args, {})
        except Exception as exc:
            ok, msg = False, f'{type(exc).__name__}: {exc}'
        if ok:
            # tell monitors when the queued command is actually executed
            # (never, if the scheduler stops first)
            q = schd.command_queue.queue
            if q and q[-1][0] == msg:
                uuid, cname, gen = q[-1]
                q[-1] = (uuid, cname, _ExecNotify(self, schd, name,
                                                  act.get('args', {}), gen))
        self.cmd_results.append({'cmd': name, 'args': act.get('args', {}),
                                 'it': self.bus.it, 'ok': bool(ok),
                                 'msg': str(msg)[:200]})
        if not ok:
            self.bus.emit('CMD_REJECTED', cmd=name, args=act.get('args', {}),
                          err=str(msg)[:300])

    # -- run ---------------------------------------------------------------
    def finish(self, killed=False):
        res = {
            'phase': self.phase.get('name'),
            'incarnation': self.world.incarnation,
            'iterations': self.bus.it,
            'killed': killed,
            'stop_reason': self.stop_reason,
            'ended_by_harness': self.ended_by_harness,
            'capped': self.capped,
            'violations': self.violations,
            'counts': self.bus.counts,
            'final_pool': getattr(self, 'last_pool', None),
            'cmd_results': self.cmd_results,
            'extra': self.extra,
            'db_stmts': getattr(getattr(self, 'db_counter', None), 'n', None),
        }
        for m in self.monitors:
            if hasattr(m, 'summary'):
                try:
                    res.setdefault('monitors', {})[m.NAME] = m.summary(self)
                except Exception:
                    self.bus.emit_error('summary', traceback.format_exc())
        res['harness_errors'] = [e for e in self.bus.events
                                 if e['k'] == 'HARNESS_ERROR'][:5]
        if self.phase.get('keep_events'):
            res['events'] = self.bus.events
        self.world.save(self.phase['world_path'])
        with open(self.phase['result_path'], 'w') as f:
            json.dump(_plain(res), f)
        return res


def _plain(o):
    from vlib.core.ctx import jsonable
    return jsonable(o)
