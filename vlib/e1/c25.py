"""C25 The published data store reflects the task pool."""
from vlib.e1 import scripts
from vlib.e1.common import E1_META, E1_NOTE, simple_case
from vlib.gen import wfgen

PID = 'C25'
META = dict(E1_META, **{
    'technique': 'invariant hook at the exit of every data-store update '
                 '(pool vs store) + client-mirror replay of every published '
                 'delta with protobuf equality and checksum comparison',
    'level_text': (
        'In real scheduler runs with commands, reloads and graph-window '
        'resizing: (A) at the exit of every Scheduler.update_data_structure '
        'each pooled task must have a task-proxy node with equal status, '
        'held/queued/runahead flags, flow numbers, completed outputs and '
        'prerequisite satisfaction; (B) a client mirror initialised from the '
        'first entire-workflow snapshot applies every published "all" delta '
        '(after a serialise/parse round trip) with the library\'s own '
        'client-side apply_delta; after each batch every element of the '
        "mirror equals the scheduler's store and recomputed checksums equal "
        'the published ones.'),
    'level_note': E1_NOTE + ' apply_delta (client side) is trusted as the '
                  'reference consumer.',
    'design_ref': 'DESIGN.md §5 C25',
})
RULE = ('case = generated workflow + mixed plan + command script incl. '
        'reload and set_graph_window_extent; one oracle-A evaluation per '
        'store update and one mirror comparison per publish')
ASSUMPTIONS = []
MIN = {'c25.store_updates': 1500, 'c25.pool_tasks_checked': 6000,
       'c25.mirror_comparisons': 2000, 'c25.elements_compared': 50000,
       'c25.checksums_compared': 2000}
NCASES = {'quick': 800, 'thorough': 10000}


def ncases(tier):
    return NCASES[tier]


def script(rng, case):
    sc = scripts.random_script(rng, case, max_cmds=5, horizon=20)
    if rng.random() < 0.4:
        sc.append({'at': rng.randint(2, 15), 'cmd': 'set_graph_window_extent',
                   'args': {'n_edge_distance': rng.choice([0, 1, 2, 3])}})
    if rng.random() < 0.3:
        # a pooled task triggered together with one of its parents
        sc.append({'at': rng.randint(2, 15), 'cmd': 'force_trigger_tasks',
                   'args': {'tasks': ['@pooled-chain'],
                            'flow': rng.choice([['all'], ['none'], ['none'],
                                                ['new']])}})
    trig = [a for a in sc if a['cmd'] == 'force_trigger_tasks']
    merge = [a for a in trig if a['args']['flow'][0] in ('new', '2')]
    if merge and rng.random() < 0.5:
        # flows merged into pooled tasks and one flow taken away again
        # within the same iteration
        a = rng.choice(merge)
        sc.insert(sc.index(a) + 1, {
            'at': a['at'], 'cmd': 'remove_tasks',
            'args': {'tasks': list(a['args']['tasks']), 'flow': ['1']}})
    if trig and rng.random() < 0.3:
        # a reload requested in the iteration of a trigger, or the next one
        a = rng.choice(trig)
        rl = {'at': a['at'] + rng.choice([0, 0, 1]),
              'cmd': 'reload_workflow', 'args': {}}
        if rl['at'] == a['at'] and rng.random() < 0.5:
            sc.insert(sc.index(a), rl)      # queued ahead of the trigger
        else:
            sc.append(rl)
    return sorted(sc, key=lambda a: a['at'])


def run_case(ctx, i, rng):
    feat = wfgen.Features(retries=rng.random() < 0.3, max_tasks=5)
    simple_case(ctx, i, rng, PID, feat, plan_class='mixed', hostile=0.4,
                monitors=['c25', 'c26'], script_fn=script)
