"""C43 Stop point, stop task and stop modes behave as documented."""
from __future__ import annotations

from vlib.e1 import phases, runner
from vlib.e1.common import E1_META, E1_NOTE
from vlib.gen import wfgen
from vlib.models import gtmodel

PID = 'C43'
META = dict(E1_META, **{
    'technique': 'stop-request injection of every kind at main-loop '
                 'iterations of real scheduler runs, followed by restarts; '
                 'per-kind oracle over submit commands, shutdown reason, job-'
                 'world liveness and restart snapshots',
    'level_text': (
        'Stop requests (cycle point, task, clean, --now) are issued through '
        'the real command path at random iterations of generated runs and '
        'the scheduler is restarted afterwards. Oracle per kind. Cycle '
        'point: no non-manual submission beyond it after the request; with '
        'an all-complete plan the scheduler shuts down by itself having run '
        'exactly the closure up to that point; the stop point is forgotten '
        'after such a shutdown (the restart continues to the final point) '
        'and restored on restart otherwise. Stop task: automatic shutdown '
        'happens only after that task succeeded, and does happen once it '
        'has (also when it finishes incomplete). Clean stop: the scheduler '
        'does not exit while the job world has live jobs of pooled tasks, '
        'and (bounded progress) a requested clean or --now stop has '
        'completed before the 400-iteration cap (no job hangs here). '
        '--now: exits leaving live jobs; the restart re-attaches (polls) and '
        'launches no job a second time; final job set equals the '
        'uninterrupted run.'),
    'level_note': E1_NOTE,
    'design_ref': 'DESIGN.md §5 C43',
    'budget': {'quick': 150, 'thorough': 1500},
})
RULE = ('case = generated workflow + all-complete plan x stop kind x '
        'iteration + restart; distinct by (case, kind, iteration); '
        'non-trivial when the request arrived while tasks were active')
ASSUMPTIONS = ['stop --now --now and stop --kill not exercised here',
               'hanging jobs are not generated (a clean stop would wait '
               'forever)']
MIN = {'kind:cycle_point': 25, 'kind:task': 20, 'kind:clean': 25,
       'kind:now': 25, 'restarts': 60,
       'stop_task_planned_to_finish_incomplete': 5}
NCASES = {'quick': 500, 'thorough': 6000}
MONS = ['c26', 'rsnap']


def ncases(tier):
    return NCASES[tier]


def submitted_ids(res):
    end = (res.get('monitors') or {}).get('end') or {}
    return end.get('submits') or {}


def run_case(ctx, i, rng):
    feat = wfgen.Features(max_tasks=5, min_final=3, max_final=5,
                          optional_outputs=False, custom_outputs=False,
                          runahead=['P1', 'P2', 'P4', None])
    kind = ['cycle_point', 'task', 'clean', 'now'][i % 4]
    loose = kind == 'task' and rng.random() < 0.4
    if loose:
        # stop-task cases also with custom outputs and jobs that succeed
        # without a required output (the stop task may finish incomplete)
        feat = wfgen.Features(max_tasks=5, min_final=3, max_final=5,
                              optional_outputs=False, custom_outputs=True,
                              runahead=['P1', 'P2', 'P4', None])
    gt = wfgen.gen_workflow(rng, feat)
    case = runner.build_case(rng, gt, 'mixed' if loose else 'all-complete',
                             hostile=0.2)
    model = gtmodel.closure(case)
    if (model['stuck'] or model['incomplete']) and not loose:
        ctx.evaluated(('discard-stuck', i), nontrivial=False)
        ctx.count('discard_model_stuck')
        return
    at = rng.randint(1, 12)
    detail = {'flow': gt['flow_text'], 'kind': kind, 'at': at}
    ctx.count(f'kind:{kind}')
    if kind == 'cycle_point':
        P = rng.randint(gt['initial'], gt['final'])
        detail['stop_point'] = P
        sc = [{'at': at, 'cmd': 'stop', 'args': {'cycle_point': str(P)}}]
        results = runner.run_case(ctx, f'c{i}', case, [
            {'name': 'p0', 'script': sc}, {'name': 'p1'}], MONS, PID)
        if not results:
            ctx.evaluated(('discard', i), nontrivial=False)
            return
        r0, r1 = results
        if r0.get('iterations', 0) <= at:
            # (== at: the run was ending by itself in the very iteration
            # that executed the request)
            ctx.count('discard_run_ended_before_request')
            ctx.evaluated(('early', i), nontrivial=False)
            return
        ctx.count('restarts')
        ev_sub = submitted_ids(r0)
        # after the request no submission beyond P: judged via submit
        # iterations recorded in the end monitor
        late = [(tid, it) for tid, it in (((r0.get('monitors') or {}).get(
            'end') or {}).get('submit_iters') or [])
            if int(tid.split('/')[0]) > P and it > at + 1]
        if late:
            ctx.violation('C43:submitted-beyond-stop-point',
                          f'{late[:4]} submitted after the stop point {P} '
                          f'was set at iteration {at}', detail)
        auto0 = (r0.get('stop_reason') or '').endswith('AUTOMATIC')
        want0 = {f'{p}/{n}' for n, p in model['run'] if p <= P}
        got0 = set(ev_sub)
        beyond_before = {t for t in got0 if int(t.split('/')[0]) > P}
        if not auto0:
            ctx.violation('C43:no-shutdown-at-stop-point',
                          f'stop point {P}: the scheduler did not shut down '
                          f'by itself ({r0.get("stop_reason")}, harness: '
                          f'{r0.get("ended_by_harness")})',
                          dict(detail, submitted=sorted(got0)))
        elif not want0 <= got0:
            ctx.violation('C43:shutdown-before-stop-point-reached',
                          f'stop point {P}: shut down with '
                          f'{sorted(want0 - got0)[:4]} (at or before it) '
                          'never run', dict(detail, submitted=sorted(got0)))
        # the stop point is forgotten once reached: the restart carries on
        if auto0:
            sb = ((r1.get('monitors') or {}).get('rsnap') or {}).get(
                'after_start') or {}
            sp = (sb.get('extras') or {}).get('pool_stop_point')
            if sp is not None and int(sp) == P and P < gt['final']:
                ctx.violation('C43:stop-point-not-forgotten',
                              f'stop point {P} was reached and the '
                              'scheduler shut down, but the restart still '
                              f'has stop point {sp}', detail)
            allsub = got0 | set(submitted_ids(r1))
            wantall = {f'{p}/{n}' for n, p in model['run']}
            if (r1.get('stop_reason') or '').endswith('AUTOMATIC') and \
                    not wantall <= allsub and not known_c01(
                        case, wantall - allsub, results):
                ctx.violation('C43:restart-after-stop-point-incomplete',
                              f'after restarting past stop point {P} '
                              f'{sorted(wantall - allsub)[:4]} never ran',
                              dict(detail, submitted=sorted(allsub)))
        ctx.evaluated((i, kind, at), nontrivial=bool(got0))
    elif kind == 'task':
        inst = sorted(model['run'], key=lambda x: (x[1], x[0]))
        n, p = rng.choice(inst)
        if loose:
            # prefer an instance whose job succeeds without a required
            # custom output used in the graph (finishes incomplete)
            def incomplete(x):
                plan = (case['plans'].get(f'{x[1]}/{x[0]}') or {}).get(
                    'tries') or [{}]
                req = {o for o, spec in (gt['tasks'][x[0]].get('outputs')
                                         or {}).items()
                       if spec.get('required') and spec.get('used')}
                return plan[-1].get('result') == 'succeeded' and bool(
                    req - set(plan[-1].get('outputs') or []))
            inc = [x for x in inst if incomplete(x)]
            if not inc:
                # make one: a job that succeeds without its required output
                cand = [x for x in inst if any(
                    spec.get('required') and spec.get('used')
                    for spec in (gt['tasks'][x[0]].get('outputs')
                                 or {}).values())]
                if cand:
                    x = rng.choice(cand)
                    tries = case['plans'][f'{x[1]}/{x[0]}']['tries']
                    tries[-1] = dict(tries[-1], result='succeeded',
                                     outputs=[], submit_ok=True)
                    model = gtmodel.closure(case)
                    inst = sorted(model['run'], key=lambda y: (y[1], y[0]))
                    inc = [y for y in inst if incomplete(y)]
            if inc:
                n, p = rng.choice(inc)
                ctx.count('stop_task_planned_to_finish_incomplete')
        tid = f'{p}/{n}'
        detail['stop_task'] = tid
        sc = [{'at': at, 'cmd': 'stop', 'args': {'task': tid}}]
        # also stop-restart in between to check the stop task persists
        midstop = rng.random() < 0.4
        plist = [{'name': 'p0', 'script': sc + ([
            {'at': at + 1, 'cmd': 'stop', 'args': {'mode': 'now'}}]
            if midstop else [])}]
        if midstop:
            plist.append({'name': 'p1'})
        results = runner.run_case(ctx, f'c{i}', case, plist, MONS, PID)
        if not results:
            ctx.evaluated(('discard', i), nontrivial=False)
            return
        if results[0].get('iterations', 0) < at:
            ctx.count('discard_run_ended_before_request')
            ctx.evaluated(('early', i), nontrivial=False)
            return
        ctx.count('restarts', len(results) - 1)
        last = results[-1]
        jobs = last.get('world_jobs') or {}
        succeeded = any(j['state'] == 'succeeded' for k, j in jobs.items()
                        if k.startswith(tid + '/'))
        auto = any((r.get('stop_reason') or '').endswith('AUTOMATIC')
                   for r in results)
        ran_all = {f'{q}/{m}' for m, q in model['run']} <= {
            k.rsplit('/', 1)[0] for k in jobs}
        if auto and not succeeded and not ran_all and not loose:
            # (with failing jobs the run may legitimately end without the
            # stop task ever becoming runnable: only judged for all-complete
            # plans, where "everything ran" is known)
            ctx.violation('C43:stopped-before-stop-task-succeeded',
                          f'stop task {tid}: automatic shutdown although it '
                          'has not succeeded', dict(detail, jobs=jobs))
        # did it succeed after the request (the statement's "stops after
        # that task succeeds"; a stop task that had already finished when
        # it was named is never seen again and constrains nothing)
        after_req = False
        for k, r in enumerate(results):
            for sid, it in (((r.get('monitors') or {}).get('end') or {}).get(
                    'succeeded_iters') or []):
                if sid == tid and (k > 0 or it > at):
                    if k == 0 and midstop and it >= at + 1:
                        # (the `stop --now` issued at iteration at+1 is
                        # executed before that iteration's messages)
                        # it succeeded while the scheduler was already
                        # shutting down on the later `stop --now`
                        ctx.count('stop_task_succeeded_during_shutdown')
                        continue
                    after_req = True
        if succeeded and not after_req:
            ctx.count('stop_task_had_already_succeeded')
        if succeeded and after_req and not auto and not last.get('capped'):
            ctx.violation('C43:no-shutdown-after-stop-task',
                          f'stop task {tid} succeeded but the scheduler did '
                          f'not shut down ({last.get("stop_reason")}, '
                          f'{last.get("ended_by_harness")})', detail)
        if midstop:
            sa = ((results[0].get('monitors') or {}).get('rsnap') or {}
                  ).get('end') or {}
            sb = ((results[1].get('monitors') or {}).get('rsnap') or {}
                  ).get('after_start') or {}
            ta = (sa.get('extras') or {}).get('stop_task')
            tb = (sb.get('extras') or {}).get('stop_task')
            if ta and ta != tb:
                ctx.violation('C43:stop-task-not-restored',
                              f'stop task {ta} at stop, {tb} after restart',
                              detail)
        ctx.evaluated((i, kind, at), nontrivial=bool(jobs))
    else:
        sc = [{'at': at, 'cmd': 'stop', 'args': {'mode': kind}}]
        offline = rng.choice([0, 3, 8])

        def between(idx, res, home):
            phases.advance_world_offline(case, home, offline)
        results = runner.run_case(ctx, f'c{i}', case, [
            {'name': 'p0', 'script': sc}, {'name': 'p1'}], MONS + ['stopw'],
            PID, between=between)
        if not results:
            ctx.evaluated(('discard', i), nontrivial=False)
            return
        r0, r1 = results
        if r0.get('iterations', 0) <= at:
            # (== at: the run was ending by itself in the very iteration
            # that executed the request)
            ctx.count('discard_run_ended_before_request')
            ctx.evaluated(('early', i), nontrivial=False)
            return
        ctx.count('restarts')
        if r0.get('capped'):
            # bounded progress: no job hangs in these workloads (every job
            # ends within a few dozen iterations), so the stop requested at
            # iteration `at` must have completed long before the cap
            ctx.violation(f'C43:stop-{kind}-never-completed',
                          f'stop --{kind} requested at iteration {at}: the '
                          f'scheduler was still running at iteration '
                          f'{r0.get("iterations")} (harness cap)', detail)
        live = ((r0.get('monitors') or {}).get('stopw') or {}).get(
            'live_at_exit') or []
        if kind == 'clean' and live:
            ctx.violation('C43:clean-stop-left-live-jobs',
                          f'clean stop exited while jobs {live[:4]} of '
                          'pooled active tasks were still live', detail)
        if kind == 'now' and live:
            ctx.count('now_stop_left_jobs_running')
        jobs = r1.get('world_jobs') or {}
        twice = [k for k, j in jobs.items() if j['launches'] > 1]
        if twice:
            ctx.violation('C43:job-relaunched-after-stop',
                          f'jobs {twice[:4]} were launched again after stop '
                          f'--{kind} and restart', detail)
        want = {f'{p}/{n}' for n, p in model['run']}
        got = {k.rsplit('/', 1)[0] for k in jobs}
        if (r1.get('stop_reason') or '').endswith('AUTOMATIC') and \
                want != got and not known_c01(case, want - got, results):
            ctx.violation('C43:different-work-after-stop-restart',
                          f'after stop --{kind} and restart: missing '
                          f'{sorted(want - got)[:4]}, extra '
                          f'{sorted(got - want)[:4]}', detail)
        ctx.evaluated((i, kind, at), nontrivial=bool(live) or bool(jobs))
    ctx.sample(detail)


def explain_missing(case, missing, results=()):
    """Root mechanism ('parentless-after-parented-point' or
    'output-message-after-final-message') if every missing instance is
    explained by the C01 known findings, else None.

    Directly explained: an instance at a parentless point after a parented
    point whose chain was never started, or one downstream of an output
    message that arrived after its task had left the pool. Indirectly:
    downstream of an explained instance, or at a later point than one (it
    holds the runahead base)."""
    from vlib.e1.c01 import classify_missing
    from vlib.e1.c20 import child_of_late
    if not missing:
        return 'nothing-missing'
    late = []
    for r in results or ():
        led = (r.get('monitors') or {}).get('ledger') or {}
        late += led.get('messages_after_task_left_pool') or []
        # (the same through a poll: the poll reports an output of a task
        # that its final status has already taken out of the pool)
        late += led.get('late_polled_outputs_on_removed_tasks') or []
    gt = case['gt']
    roots = {}
    for tid in missing:
        p, n = tid.split('/', 1)
        if classify_missing(case, n, int(p)) == \
                'parentless-after-parented-point':
            roots[tid] = 'parentless-after-parented-point'
        elif late and child_of_late(gt, f'{tid}/01', late):
            roots[tid] = 'output-message-after-final-message'
    if not roots:
        return None
    rest = [t for t in missing if t not in roots]
    seeds = [[t, None] for t in roots]
    pmin = min(int(t.split('/')[0]) for t in roots)
    for tid in rest:
        if child_of_late(gt, f'{tid}/01', seeds):
            continue
        if int(tid.split('/')[0]) > pmin:
            continue
        return None
    kinds = set(roots.values())
    return ('output-message-after-final-message'
            if 'output-message-after-final-message' in kinds
            else 'parentless-after-parented-point')


def known_c01(case, missing, results=()):
    """Missing instances explained by the C01 known findings only."""
    return explain_missing(case, missing, results) is not None
