"""C26 Task pool bookkeeping is internally consistent."""
from vlib.e1.common import E1_META, E1_NOTE, simple_case
from vlib.gen import wfgen

PID = 'C26'
META = dict(E1_META, **{
    'technique': 'invariant hook after every main-loop iteration: pool '
                 'structure walk + task_pool table read through a separate '
                 'read-only SQLite connection',
    'level_text': (
        'After every main-loop iteration of real scheduler runs (with '
        'commands) the pool dictionary is walked (no duplicate identity, no '
        'empty cycle bucket, cached task list equals contents) and the '
        'task_pool table of the private DB, read through an independent '
        'connection, must list exactly the pooled tasks with their status, '
        'flow numbers and held flag.'),
    'level_note': E1_NOTE,
    'design_ref': 'DESIGN.md §5 C26',
})
RULE = ('case = generated workflow + mixed plan + command script (hold, '
        'release, trigger, set, remove, pause/resume, reload); one oracle '
        'evaluation per main-loop iteration; distinct by event census')
ASSUMPTIONS = ['the DB is compared at the end of each iteration, after the '
               "loop's own process_workflow_db_queue()"]
MIN = {'c26.struct_checks': 3000, 'c26.db_checks': 3000,
       'c26.rows_compared': 10000}
NCASES = {'quick': 1000, 'thorough': 12000}


def ncases(tier):
    return NCASES[tier]


def run_case(ctx, i, rng):
    from vlib.e1 import scripts
    feat = wfgen.Features(retries=rng.random() < 0.4,
                          # (tasks with future triggers make pool additions
                          # recompute the runahead offset from the task list)
                          future_offsets=rng.random() < 0.4,
                          mixed_parent_sections=rng.random() < 0.3)
    def script_fn(rng, case):
        extra = []
        if rng.random() < 0.3:
            # remove whatever is runahead-limited at that moment: the
            # removal itself spawns the next parentless instance
            extra = [{'at': rng.randint(2, 20), 'cmd': 'remove_tasks',
                      'args': {'tasks': ['@runahead'], 'flow': []}}
                     for _ in range(rng.choice([1, 2]))]
        return sorted(extra + scripts.random_script(rng, case, kinds=[
            'hold', 'release', 'trigger', 'set', 'remove', 'pause', 'poll',
            'kill', 'hold_point', 'reload', 'stop_flow', 'stop_flow']),
            key=lambda a: a['at'])
    simple_case(ctx, i, rng, PID, feat, plan_class='mixed', hostile=0.5,
                script_fn=script_fn)
