"""C23 Universal identifiers round-trip.

Monitor shape: generated token dictionaries are formatted by an independent
model of the documented ID syntax (vlib/models/c23_ids.py).  The real
`detokenise` (and the `Tokens` properties built on it) must produce the
model's string; the real `tokenise` / `Tokens(str)` / `cli_tokenise` /
`_parse_cli` must turn the model's string back into the generated tokens
(job zero-padded); relative and absolute spellings must agree; legacy
`task.cycle` / `cycle/task` IDs must upgrade to the same tokens; `==`,
`hash` and `duplicate` must agree with dictionary equality.
"""
from __future__ import annotations

from vlib.models import c23_ids as M

PID = 'C23'
META = {
    'engine': 'E2 funcmon',
    'level': 'exploration',
    'technique': 'call-then-compare monitor on tokenise/detokenise/Tokens/'
                 'legacy upgrade against an independent formatter of the '
                 'documented ID syntax over generated token combinations',
    'level_text': (
        'Token dictionaries for every hierarchical shape (user, workflow, '
        'cycle, task, job, with and without selectors) are generated over '
        'value pools and random strings that put every character a field '
        'allows next to a separator; each is formatted by the model and by '
        'the real code, parsed back by the real parsers, and compared field '
        'by field. Legacy Cylc 7 IDs are generated separately. Held = no '
        'disagreement on the identifiers explored.'),
    'level_note': 'The model of the syntax (vlib/models/c23_ids.py) is '
                  'trusted. Identifier validity is the documented one '
                  '(workflow/task name rules, integer or ISO8601 points, '
                  'globs), not the regexes of id.py.',
    'design_ref': 'DESIGN.md §5 C23',
    'budget': {'quick': 90, 'thorough': 900},
}
RULE = ('case = a batch of generated token dictionaries and legacy IDs; an '
        'evaluation is one token dictionary (all formatting, parsing, '
        'relative/absolute, equality checks on it) or one legacy ID list; '
        'distinct by canonical ID string with selectors; non-trivial when '
        'the ID has at least two token levels and at least one of: a '
        'selector, a non-alphanumeric character at a field edge, a job '
        'needing padding, a hierarchical workflow, a glob, a long-format '
        '(colon) datetime, unicode; legacy IDs are always non-trivial')
ASSUMPTIONS = [
    'valid tokens are hierarchical (no level missing between the highest '
    'and the lowest present one); gaps are covered only by the documented '
    '"missing tokens expand to *" rule',
    'long-format datetime cycles (containing ":") are re-parsed with '
    'id_cli.cli_tokenise, the documented parser for them; plain tokenise '
    'is not judged on them',
    'selectors are status/output-like words starting with a letter or '
    'underscore; job tokens are decimal numbers or NN',
    'legacy IDs: cycle starts with a digit and contains none of "~.:/" '
    '(documented limitation); lists are all-legacy or all-contemporary',
    'Tokens(job="1") == Tokens(job="01") is not demanded either way',
    'whitespace stripping of non-canonical input is not judged',
]
MIN = {
    'ids': 20000, 'oracle_evals': 400000,
    'format_checks': 60000, 'parse_checks': 60000,
    'relative_checks': 10000, 'eq_hash_checks': 40000,
    'duplicate_checks': 20000,
    'feat:selectors': 4000, 'feat:colon-cycle': 1000,
    'feat:job-needs-padding': 1000, 'feat:wf-hier': 2000,
    'feat:unicode': 2000, 'feat:edge-char': 3000,
    'legacy_ids': 5000, 'legacy_form:dot': 2000, 'legacy_form:slash': 2000,
    'legacy_feat:single-char-cycle': 300, 'gap_checks': 1000,
    'parse_cli_checks': 5000,
}
NCASES = {'quick': 480, 'thorough': 8000}
IDS_PER_CASE = 120
LEGACY_PER_CASE = 40

_A = {}


def setup_shard(ctx):
    import logging
    logging.getLogger('cylc').setLevel(logging.CRITICAL)
    from cylc.flow import id as idmod, id_cli
    _A.update(
        Tokens=idmod.Tokens, tokenise=idmod.tokenise,
        detokenise=idmod.detokenise, legacy_tokenise=idmod.legacy_tokenise,
        upgrade_legacy_ids=idmod.upgrade_legacy_ids,
        cli_tokenise=id_cli.cli_tokenise, parse_cli=id_cli._parse_cli)
    from cylc.flow.exceptions import InputError
    _A['InputError'] = InputError


def ncases(tier):
    return NCASES[tier]


def as_full(tokens):
    """Observed Tokens -> dict over the nine keys (None if absent)."""
    return {k: tokens[k] for k in M.KEYS}


def first_diff(got, want):
    for k in M.KEYS:
        if got.get(k) != want.get(k):
            return k
    return None


def run_case(ctx, i, rng):
    if not _A:
        setup_shard(ctx)
    for _ in range(IDS_PER_CASE):
        t, feat, shape = M.gen_tokens(rng)
        check_tokens(ctx, rng, t, feat, shape)
    for _ in range(LEGACY_PER_CASE):
        check_legacy(ctx, rng)
    for _ in range(10):
        check_gaps(ctx, rng)


def _call(fn, *a, **kw):
    try:
        return fn(*a, **kw), None
    except Exception as exc:   # judged by the caller
        return None, exc


def check_tokens(ctx, rng, t, feat, shape):
    Tokens, tokenise, detokenise = _A['Tokens'], _A['tokenise'], _A[
        'detokenise']
    s_sel = M.fmt(t, selectors=True)
    s_nosel = M.fmt(t, selectors=False)
    want = M.canon(t)
    colon = 'colon-cycle' in feat
    nlevels = sum(1 for k in M.LEVELS if t.get(k))
    ctx.count('ids')
    ctx.count('shape:' + shape)
    for f in feat:
        ctx.count('feat:' + f)
    ctx.evaluated(s_sel, nontrivial=nlevels >= 2 and bool(feat))
    if ctx.counters.get('sampled', 0) < 4 and len(feat) >= 2:
        ctx.count('sampled')
        ctx.sample({'tokens': t, 'canonical_id': s_sel,
                    'without_selectors': s_nosel, 'features': sorted(feat)})
    desc = {'tokens': t, 'model_id': s_sel, 'features': sorted(feat)}

    def ev(n=1):
        ctx.count('oracle_evals', n)

    # ---- formatting: real detokenise vs the model's string -------------
    tok = Tokens(**t)
    fmt_checks = [
        ('detokenise-selectors', lambda: detokenise(tok, selectors=True),
         s_sel),
        ('detokenise', lambda: detokenise(tok), s_nosel),
        ('Tokens.id', lambda: tok.id, s_nosel),
        ('str', lambda: str(tok), s_nosel),
    ]
    if t.get('cycle'):
        tp = M.task_part(t)
        fmt_checks += [
            ('relative_id', lambda: tok.relative_id,
             M.fmt(tp, selectors=False, relative=True)),
            ('relative_id_with_selectors',
             lambda: tok.relative_id_with_selectors,
             M.fmt(tp, selectors=True, relative=True)),
            ('detokenise-task-part',
             lambda: detokenise(tok.task, selectors=True),
             M.fmt(tp, selectors=True)),
        ]
    if t.get('user') or t.get('workflow'):
        fmt_checks.append(
            ('workflow_id', lambda: tok.workflow_id,
             M.fmt(M.workflow_part(t), selectors=False)))
    for api, fn, exp in fmt_checks:
        got, exc = _call(fn)
        ctx.count('format_checks')
        ev()
        if exc is not None:
            ctx.violation(
                f'C23:format:{api}:raised-{type(exc).__name__}',
                f'{api} of tokens {t} raised {exc!r}; the ID is {exp!r}',
                {**desc, 'api': api, 'want': exp})
        elif got != exp:
            mech = 'mismatch'
            if t.get('job') and M.canon_job(t['job']) != t['job']:
                raw = exp.replace('/' + M.canon_job(t['job']),
                                  '/' + t['job'])
                if got == raw:
                    mech = 'job-not-padded'
            ctx.violation(
                f'C23:format:{api}:{mech}',
                f'{api} of tokens {t} gave {got!r}, the ID is {exp!r}',
                {**desc, 'api': api, 'got': got, 'want': exp})

    # ---- parsing: real parsers on the model's string --------------------
    parsers = [('cli_tokenise', _A['cli_tokenise'])]
    if not colon:
        parsers += [('tokenise', tokenise), ('Tokens(str)', Tokens)]
    else:
        ctx.count('tokenise_not_judged_colon_cycle')
    parsed = None
    for api, fn in parsers:
        for label, s, exp in (('sel', s_sel, want),
                              ('nosel', s_nosel,
                               {**want, **{k: None for k in M.KEYS
                                           if k.endswith('_sel')}})):
            if label == 'nosel' and s == s_sel:
                continue
            got, exc = _call(fn, s)
            ctx.count('parse_checks')
            ev()
            tag = 'colon-cycle:' if colon else ''
            if exc is not None:
                if (api == 'cli_tokenise' and 'cycle' in t and not colon
                        and type(exc).__name__ not in ('ValueError',)):
                    # datetime parser choking on a non-datetime cycle
                    ctx.count('discard_cli_tokenise_parser_error')
                    continue
                ctx.violation(
                    f'C23:parse:{api}:{tag}raised-{type(exc).__name__}',
                    f'{api}({s!r}) raised {exc!r}; tokens are {t}',
                    {**desc, 'api': api, 'input': s})
                continue
            gotd = as_full(got)
            if gotd != exp:
                k = first_diff(gotd, exp)
                ctx.violation(
                    f'C23:parse:{api}:{tag}{k}',
                    f'{api}({s!r}) gave {k}={gotd[k]!r}, formatted from '
                    f'{k}={exp[k]!r}',
                    {**desc, 'api': api, 'input': s, 'got': gotd,
                     'want': exp})
            elif label == 'sel':
                parsed = got

    # ---- the two round trips, composed on the real functions -----------
    if parsed is not None:
        back, exc = _call(detokenise, parsed, selectors=True)
        ctx.count('roundtrip_string')
        ev()
        if exc is not None or back != s_sel:
            ctx.violation(
                'C23:roundtrip:string' + (':colon-cycle' if colon else ''),
                f'detokenise(parse({s_sel!r})) gave '
                f'{back!r}{"" if exc is None else repr(exc)}',
                {**desc, 'got': back})
        # tokens -> string -> tokens compared with Tokens.__eq__
        want_tok = Tokens(**{k: v for k, v in want.items()})
        ctx.count('roundtrip_tokens')
        ctx.count('eq_hash_checks')
        ev()
        if not (parsed == want_tok) or (parsed != want_tok):
            ctx.violation(
                'C23:roundtrip:tokens-not-equal',
                f'parse(format(T)) != T for T={want}',
                {**desc, 'parsed': as_full(parsed)})
        elif hash(parsed) != hash(want_tok):
            ctx.violation(
                'C23:hash:equal-tokens-different-hash',
                f'parse(format(T)) == T but hashes differ, T={want}', desc)

    # ---- relative and absolute forms agree on the task part -------------
    if t.get('cycle') and not colon:
        tp = M.canon(M.task_part(t))
        rel = M.fmt(M.task_part(t), selectors=True, relative=True)
        forms = [
            ('tokenise(rel,relative=True)', lambda: tokenise(rel, True)),
            ('tokenise(//rel)', lambda: tokenise('//' + rel)),
            ('tokenise(//rel,relative=True)',
             lambda: tokenise('//' + rel, True)),
            ('Tokens(rel,relative=True)',
             lambda: Tokens(rel, relative=True)),
        ]
        if t.get('workflow'):
            forms.append(('tokenise(abs).task', lambda: tokenise(s_sel).task))
            forms.append(('Tokens(**T).task', lambda: tok.task))
        for api, fn in forms:
            got, exc = _call(fn)
            ctx.count('relative_checks')
            ev()
            exp = tp if api != 'Tokens(**T).task' else M.full(
                M.task_part(t))
            if exc is not None:
                ctx.violation(
                    f'C23:relative:{api}:raised-{type(exc).__name__}',
                    f'{api} with rel={rel!r} raised {exc!r}',
                    {**desc, 'rel': rel})
                continue
            gotd = as_full(got)
            if gotd != exp:
                k = first_diff(gotd, exp)
                ctx.violation(
                    f'C23:relative:{api}:{k}',
                    f'{api} with rel={rel!r} (absolute {s_sel!r}) gave '
                    f'{k}={gotd[k]!r}, expected {exp[k]!r}',
                    {**desc, 'rel': rel, 'got': gotd, 'want': exp})
        if t.get('workflow'):
            got, exc = _call(lambda: as_full(tok.workflow))
            ctx.count('relative_checks')
            ev()
            exp = M.full(M.workflow_part(t))
            if exc is not None or got != exp:
                ctx.violation(
                    'C23:relative:Tokens.workflow',
                    f'Tokens(**{t}).workflow gave {got} {exc!r}', desc)

    # ---- CLI list parsing: "wf //rel" == "wf//rel" ----------------------
    if t.get('workflow'):
        check_parse_cli(ctx, t, want, s_sel, colon, desc)

    # ---- ==, !=, hash, duplicate ---------------------------------------
    check_eq_hash_dup(ctx, rng, t, tok, desc)


def check_parse_cli(ctx, t, want, s_sel, colon, desc):
    parse_cli = _A['parse_cli']
    variants = [('abs', (s_sel,))]
    if t.get('cycle'):
        head = M.fmt(M.workflow_part(t), selectors=True)
        rel = '//' + M.fmt(M.task_part(t), selectors=True, relative=True)
        variants.append(('partial+relative', (head, rel)))
    for label, args in variants:
        got, exc = _call(parse_cli, *args)
        ctx.count('parse_cli_checks')
        ctx.count('oracle_evals')
        tag = 'colon-cycle:' if colon else ''
        if exc is not None:
            ctx.violation(
                f'C23:parse_cli:{label}:{tag}raised-{type(exc).__name__}',
                f'_parse_cli{args} raised {exc!r}', {**desc, 'args': args})
            continue
        gl = [as_full(g) for g in got]
        if gl != [want]:
            k = first_diff(gl[0], want) if len(gl) == 1 else 'count'
            ctx.violation(
                f'C23:parse_cli:{label}:{tag}{k}',
                f'_parse_cli{args} gave {gl}, expected [{want}]',
                {**desc, 'args': args, 'got': gl})


def mutate_tokens(rng, t):
    """A token dict differing from t in exactly one key (or equal)."""
    t2 = dict(t)
    r = rng.random()
    if r < 0.25:
        return t2, None
    k = rng.choice(M.KEYS)
    old = t.get(k)
    choices = ['x', 'failed', '01', '02', 'w', None]
    if old:
        choices += [old + 'x', old[:-1] or 'y', old.swapcase(), old + ' ']
    new = rng.choice(choices)
    if k == 'job' and new is not None and not (
            new.isdigit() or new == 'NN'):
        new = '7'
    t2[k] = new
    return t2, k


def check_eq_hash_dup(ctx, rng, t, tok, desc):
    Tokens = _A['Tokens']

    def norm(d):
        return {k: d.get(k) for k in M.KEYS}

    # explicit None values vs absent keys
    tok_none = Tokens(**M.full(t))
    ctx.count('eq_hash_checks', 2)
    ctx.count('oracle_evals', 2)
    if not (tok == tok_none) or tok != tok_none:
        ctx.violation('C23:eq:explicit-none-vs-absent',
                      f'Tokens(**T) != Tokens(**T, absent=None) for {t}',
                      desc)
    elif hash(tok) != hash(tok_none):
        ctx.violation('C23:hash:explicit-none-vs-absent',
                      f'equal tokens hash differently for {t}', desc)
    # comparison with a one-key mutation
    t2, k = mutate_tokens(rng, t)
    tok2, exc = _call(lambda: Tokens(**t2))
    if exc is None:
        model_eq = norm(t) == norm(t2)
        eq, ne = (tok == tok2), (tok != tok2)
        ctx.count('eq_hash_checks', 2)
        ctx.count('oracle_evals', 2)
        ctx.count('eq_model_equal' if model_eq else 'eq_model_unequal')
        if eq != model_eq or ne == eq:
            ctx.violation(
                'C23:eq:disagrees-with-token-equality',
                f'Tokens(**{t}) == Tokens(**{t2}) gave {eq} (!= gave {ne}), '
                f'the dictionaries are {"equal" if model_eq else "unequal"}',
                {**desc, 'other': t2, 'changed_key': k})
        elif eq and hash(tok) != hash(tok2):
            ctx.violation('C23:hash:equal-tokens-different-hash',
                          f'equal tokens {t} / {t2} hash differently', desc)
    # the same fields given in another order (keyword order is not part
    # of an identifier)
    ks = [k for k in t]
    rng.shuffle(ks)
    tok_sh, exc = _call(lambda: Tokens(**{k: t[k] for k in ks}))
    ctx.count('eq_hash_checks', 2)
    ctx.count('oracle_evals', 2)
    if ks != [k for k in t]:
        ctx.count('fields_given_in_another_order')
    if exc is not None or not (tok_sh == tok) or tok_sh != tok:
        ctx.violation('C23:eq:field-order',
                      f'Tokens built from {ks} differs from the one built '
                      f'from {list(t)}: {exc!r}', desc)
    elif hash(tok_sh) != hash(tok):
        ctx.violation('C23:hash:equal-tokens-different-hash',
                      f'equal tokens hash differently when the fields '
                      f'{t} are given in the order {ks}', desc)
    # duplicate
    dup, exc = _call(tok.duplicate)
    ctx.count('duplicate_checks')
    ctx.count('oracle_evals')
    if exc is not None or dup is tok or as_full(dup) != norm(t) or not (
            dup == tok) or hash(dup) != hash(tok):
        ctx.violation(
            'C23:duplicate:plain',
            f'Tokens(**{t}).duplicate() gave {dup!r} {exc!r}', desc)
    key = rng.choice(M.KEYS)
    newv = rng.choice(['x', 'y1', '03', None, t.get(key)])
    if key == 'job' and newv not in (None, '03', t.get(key)):
        newv = '12'
    before = as_full(tok)
    dup2, exc = _call(lambda: tok.duplicate(**{key: newv}))
    ctx.count('duplicate_checks')
    ctx.count('oracle_evals')
    exp = {**norm(t), key: newv}
    if exc is not None or as_full(dup2) != exp:
        ctx.violation(
            'C23:duplicate:with-change',
            f'Tokens(**{t}).duplicate({key}={newv!r}) gave '
            f'{None if exc else as_full(dup2)} {exc!r}, expected {exp}',
            {**desc, 'key': key, 'value': newv})
    elif as_full(tok) != before:
        ctx.violation('C23:duplicate:mutated-original',
                      f'duplicate({key}={newv!r}) changed the original {t}',
                      desc)
    elif hash(dup2) != hash(Tokens(**exp)) or dup2 != Tokens(**exp):
        ctx.violation('C23:hash:equal-tokens-different-hash',
                      f'duplicate({key}={newv!r}) of {t} is not the same '
                      f'dictionary key as Tokens(**{exp})', desc)
    elif (dup2 == tok) != (exp == norm(t)):
        ctx.violation('C23:duplicate:eq-after-change',
                      f'duplicate({key}={newv!r}) == original is '
                      f'{dup2 == tok} for {t}', desc)
    # merging several token sets: later ones override
    other = {'cycle': 'c', 'task': 'a', 'job': '01'}
    dup3, exc = _call(lambda: tok.duplicate(Tokens(**other), task='b'))
    ctx.count('duplicate_checks')
    ctx.count('oracle_evals')
    exp = {**norm(t), **other, 'task': 'b'}
    if exc is not None or as_full(dup3) != exp:
        ctx.violation(
            'C23:duplicate:merge-order',
            f'duplicate(Tokens(**{other}), task="b") on {t} gave '
            f'{None if exc else as_full(dup3)} {exc!r}', desc)


def check_gaps(ctx, rng):
    """Documented: missing intermediate tokens are written as '*'."""
    Tokens, tokenise, detokenise = _A['Tokens'], _A['tokenise'], _A[
        'detokenise']
    t, feat, shape = M.gen_tokens(rng)
    present = [k for k in ('cycle', 'task', 'job') if t.get(k)]
    if len(present) < 2 or 'colon-cycle' in feat:
        ctx.count('discard_gap_too_shallow')
        return
    lowest = present[-1]
    removable = [k for k in present if k != lowest]
    gone = rng.choice(removable)
    tg = {k: v for k, v in t.items() if k not in (gone, gone + '_sel')}
    filled = {**tg, gone: '*'}
    exp_s = M.fmt(filled, selectors=True)
    got, exc = _call(detokenise, Tokens(**tg), selectors=True)
    ctx.count('gap_checks')
    ctx.count('oracle_evals')
    ctx.evaluated(('gap', exp_s, gone), nontrivial=True)
    if exc is not None or got != exp_s:
        ctx.violation(
            f'C23:format:gap-{gone}',
            f'detokenise of {tg} (no {gone}) gave {got!r} {exc!r}, '
            f'documented form is {exp_s!r}', {'tokens': tg, 'want': exp_s})
        return
    back, exc = _call(tokenise, got)
    ctx.count('oracle_evals')
    if exc is not None or as_full(back) != M.canon(filled):
        ctx.violation(
            f'C23:parse:gap-{gone}',
            f'tokenise({got!r}) gave {None if exc else as_full(back)} '
            f'{exc!r}', {'tokens': tg, 'want': M.canon(filled)})


def legacy_mech(feats):
    for f in ('single-char-cycle', 'dotted-task', 'cycle-glob', 'task-glob',
              'selector'):
        if f in feats:
            return f
    return 'plain'


def check_legacy(ctx, rng):
    Tokens = _A['Tokens']
    legacy_tokenise = _A['legacy_tokenise']
    upgrade = _A['upgrade_legacy_ids']
    parse_cli = _A['parse_cli']
    n = rng.choice([1, 1, 2, 3])
    form = rng.choice(['dot', 'slash', 'mixed'])
    items = []
    for _ in range(n):
        task, cycle, sel, feat = M.gen_legacy(rng)
        f = form if form != 'mixed' else rng.choice(['dot', 'slash'])
        s = f'{task}.{cycle}' if f == 'dot' else f'{cycle}/{task}'
        if sel:
            s += ':' + sel
        items.append({'form': f, 'id': s, 'task': task, 'cycle': cycle,
                      'sel': sel, 'feat': feat})
    wf = rng.choice(['wf', 'a/b', 'my.flow/run1', 'é'])
    ids = [it['id'] for it in items]
    ctx.evaluated(('legacy', wf, tuple(ids)), nontrivial=True)
    ctx.count('legacy_lists')
    for it in items:
        ctx.count('legacy_ids')
        ctx.count('legacy_form:' + it['form'])
        for f in it['feat']:
            ctx.count('legacy_feat:' + f)
        if it['form'] == 'slash' and 'single-char-cycle' in it['feat']:
            ctx.count('legacy_slash_single_char_cycle')
    if ctx.counters.get('legacy_sampled', 0) < 1:
        ctx.count('legacy_sampled')
        ctx.sample({'legacy_ids': ids, 'workflow': wf, 'upgraded_model': [
            f'//{it["cycle"]}/{it["task"]}' + (
                f':{it["sel"]}' if it['sel'] else '') for it in items]})

    def key(api, it):
        # one key per root cause: the API that exposed it is in the text;
        # "not-recognised" = the real legacy parser rejects the ID outright
        _, rejected = _call(legacy_tokenise, it['id'])
        outcome = 'not-recognised' if rejected is not None else 'wrong-result'
        return (f'C23:legacy:{it["form"]}:{legacy_mech(it["feat"])}:'
                f'{outcome}')

    # 1. legacy_tokenise on each
    for it in items:
        got, exc = _call(legacy_tokenise, it['id'])
        ctx.count('legacy_checks')
        ctx.count('oracle_evals')
        exp = {'task': it['task'], 'cycle': it['cycle'],
               'task_sel': it['sel']}
        if exc is not None:
            ctx.violation(
                key('legacy_tokenise', it),
                f'legacy_tokenise({it["id"]!r}) raised {exc!r}; it is '
                f'{"task.cycle" if it["form"] == "dot" else "cycle/task"} '
                f'with task={it["task"]!r} cycle={it["cycle"]!r}',
                {'item': it})
        elif dict(got) != exp:
            ctx.violation(
                key('legacy_tokenise', it),
                f'legacy_tokenise({it["id"]!r}) gave {dict(got)}, expected '
                f'{exp}', {'item': it, 'got': dict(got)})
    # 2. upgrade of the whole list, absolute and relative
    model_rel = [f'{it["cycle"]}/{it["task"]}' + (
        f':{it["sel"]}' if it['sel'] else '') for it in items]
    worst = max(items, key=lambda it: (
        'single-char-cycle' in it['feat'] and it['form'] == 'slash',
        'single-char-cycle' in it['feat'], len(it['feat'])))
    for relative in (False, True):
        args = ids if relative else [wf] + ids
        exp = model_rel if relative else [wf] + ['//' + r for r in model_rel]
        got, exc = _call(upgrade, *args, relative=relative)
        ctx.count('legacy_checks')
        ctx.count('oracle_evals')
        api = 'upgrade_legacy_ids' + ('-relative' if relative else '')
        if exc is not None or got != exp:
            # name the item that was left un-upgraded, if one can be told
            culprit = worst
            if exc is None and len(got) == len(exp):
                for it in items:
                    g, e2 = _call(upgrade, *([it['id']] if relative else
                                             [wf, it['id']]),
                                  relative=relative)
                    r1 = f'{it["cycle"]}/{it["task"]}' + (
                        f':{it["sel"]}' if it['sel'] else '')
                    if e2 is not None or g != (
                            [r1] if relative else [wf, '//' + r1]):
                        culprit = it
                        break
            ctx.violation(
                key(api, culprit),
                f'upgrade_legacy_ids{tuple(args)} relative={relative} gave '
                f'{got} {"" if exc is None else repr(exc)}, the '
                f'equivalent contemporary IDs are {exp}',
                {'args': args, 'got': got, 'want': exp,
                 'culprit': culprit})
    # 3. through the CLI parser: equivalent tokens
    exp_tokens = [M.full({'workflow': wf, 'cycle': it['cycle'],
                          'task': it['task'], 'task_sel': it['sel']})
                  for it in items]
    got, exc = _call(parse_cli, wf, *ids)
    ctx.count('legacy_checks')
    ctx.count('legacy_parse_cli_checks')
    ctx.count('oracle_evals')
    gl = None if exc is not None else [as_full(g) for g in got]
    if gl != exp_tokens:
        culprit = worst
        for it in items:
            g, e2 = _call(parse_cli, wf, it['id'])
            if e2 is not None or [as_full(x) for x in g] != [M.full({
                    'workflow': wf, 'cycle': it['cycle'],
                    'task': it['task'], 'task_sel': it['sel']})]:
                culprit = it
                break
        ctx.violation(
            key('_parse_cli', culprit),
            f'_parse_cli{(wf, *ids)} gave {gl} '
            f'{"" if exc is None else repr(exc)}; the legacy IDs mean '
            f'{exp_tokens}',
            {'args': [wf] + ids, 'got': gl, 'want': exp_tokens,
             'culprit': culprit})
    # 4. contemporary relative IDs are left alone
    modern = ['//' + r for r in model_rel]
    got, exc = _call(upgrade, wf, *modern)
    ctx.count('legacy_checks')
    ctx.count('oracle_evals')
    if exc is not None or got != [wf] + modern:
        ctx.violation(
            'C23:legacy:contemporary-ids-changed',
            f'upgrade_legacy_ids{(wf, *modern)} gave {got} {exc!r}',
            {'args': [wf] + modern})
    # 5. upgraded legacy == contemporary, as Tokens
    for it, r in zip(items, model_rel):
        a, e1 = _call(Tokens, '//' + r)
        ctx.count('oracle_evals')
        exp = M.full({'cycle': it['cycle'], 'task': it['task'],
                      'task_sel': it['sel']})
        if e1 is not None or as_full(a) != exp:
            ctx.violation(
                f'C23:legacy:contemporary-form-parse:'
                f'{legacy_mech(it["feat"])}',
                f'Tokens({"//" + r!r}) gave '
                f'{None if e1 else as_full(a)} {e1!r}, expected {exp}',
                {'item': it})
