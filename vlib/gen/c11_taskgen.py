"""Builders of *real* cylc-flow objects for the completion checks (C11/C12):
TaskDef objects marked through the real setters, flow.cylc texts declaring
the same optionality in the graph, and a real WorkflowConfig loader.

This module contains no expectations - only construction.
"""
from __future__ import annotations

import keyword
import os
import unicodedata

from vlib.models import c11_completion as M

ALT = {
    'expired': ['expired', 'expire'],
    'submitted': ['submitted', 'submit'],
    'submit-failed': ['submit-failed', 'submit-fail'],
    'started': ['started', 'start'],
    'succeeded': ['succeeded', 'succeed'],
    'failed': ['failed', 'fail'],
}

# custom output names (all accepted by cylc's TaskOutputValidator) ---------
PLAIN_NAMES = ['x', 'y', 'z', 'out1', 'my_out', 'X', 'data_ready', 'q7',
               'my-out', 'a-b-c', 'file-1', 'Alpha', 'towel', 'e_r_r']

# Names a user may legally give an output although they are awkward for an
# implementation that embeds them in Python source.
HOSTILE_NAMES = [
    # spelt like parameters / locals of an evaluator
    'expr', 'self', 'variables', 'node', 'kwargs', 'args', 'cls',
    'expr_node', 'whitelist', 'visitor', 'error_class',
    # python keywords
    'if', 'not', 'in', 'is', 'lambda', 'else', 'for', 'def', 'class',
    'import', 'None', 'True', 'False', 'yield', 'await', 'del', 'with',
    # soft keywords / builtins (harmless as identifiers)
    'match', 'case', 'type', 'len', 'print', 'eval', 'open', 'bool',
    '__import__', '__builtins__', '__name__', '_',
    # compile-time constant
    '__debug__',
    # leading digit / all digits
    '2x', '1', '007', '3-d',
    # unicode word characters
    'été', 'δx', 'µ', 'ﬁn', 'ª',
    'x²', '١', 'x١',
]


def name_class(name: str) -> str:
    """Mechanism class of an output name (used in finding keys)."""
    cv = M.compvar(name)
    if cv == '__debug__':
        return 'name-dunder-debug'
    if keyword.iskeyword(cv):
        return 'name-python-keyword'
    if cv[:1].isdigit():
        return 'name-leading-digit'
    if not cv.isidentifier():
        return 'name-non-identifier-char'
    if unicodedata.normalize('NFKC', cv) != cv:
        return 'name-nfkc-normalised'
    if cv == 'expr':
        return 'name-expr-clashes-with-evaluator-argument'
    if cv in ('self', 'variables', 'node', 'kwargs', 'args', 'cls',
              'expr_node', 'whitelist', 'visitor', 'error_class'):
        return 'name-like-evaluator-parameter'
    if cv.startswith('__') or cv in ('len', 'print', 'eval', 'open', 'bool',
                                     'match', 'case', 'type', '_'):
        return 'name-builtin-or-soft-keyword'
    if not cv.isascii():
        return 'name-unicode'
    return 'name-plain'


def loadable_plain_name(name: str) -> bool:
    """Own statement of which names the direct route may use."""
    cv = M.compvar(name)
    return (cv.isidentifier() and not keyword.iskeyword(cv)
            and cv != '__debug__' and cv.isascii())


def cylc_accepts_output_name(name: str) -> bool:
    """Input-domain filter: is `name` a legal custom output name?"""
    from cylc.flow.unicode_rules import TaskOutputValidator
    return bool(TaskOutputValidator.validate(name)[0])


def message_for(name: str, style: int) -> str:
    """A task message for a custom output (never equal to a qualifier)."""
    if style == 0:
        return f'msg of {name}'
    if style == 1:
        return name          # message identical to the output name
    return f'the {name} is done!'


def make_taskdef(marks: dict, customs: dict, completion=None, name='a',
                 tweak=True):
    """A real TaskDef.  customs: {output: (message, mark)}."""
    from cylc.flow.taskdef import TaskDef
    rtcfg = {'completion': completion}
    tdef = TaskDef(name, rtcfg, None, None)
    for out, (msg, _mark) in customs.items():
        tdef.add_output(out, msg)
    for out, mark in list(marks.items()) + [
            (o, m) for o, (_msg, m) in customs.items()]:
        if mark is not None:
            tdef.set_required_output(out, mark == M.REQ)
    if tweak:
        tdef.tweak_outputs()
    return tdef


def graph_lines(marks: dict, customs: dict, rng=None, task='a') -> list:
    """Graph lines that declare exactly the given marks for `task`."""
    lines = []
    items = [(o, m) for o, m in marks.items() if m is not None]
    items += [(o, m) for o, (_msg, m) in customs.items() if m is not None]
    if rng is not None:
        rng.shuffle(items)
    n = 0
    for out, mark in items:
        q = '?' if mark == M.OPT else ''
        spell = out
        if out in ALT and rng is not None:
            spell = rng.choice(ALT[out])
        if out == 'succeeded' and (rng is None or rng.random() < 0.5):
            node = f'{task}{q}'
        else:
            node = f'{task}:{spell}{q}'
        form = 0 if rng is None else rng.randrange(3)
        if form == 0:
            lines.append(node)
        else:
            n += 1
            lines.append(f'{node} => t{n}')
    if not lines:
        # the task must appear in the graph; a bare mention would mark
        # succeeded as required, so hang it off another task instead
        lines.append(f't0 => {task}')
    return lines


def flow_text(marks: dict, customs: dict, completion=None, rng=None,
              task='a', extra_runtime='', lines=None) -> str:
    lines = graph_lines(marks, customs, rng, task) if lines is None else lines
    others = sorted({
        tok.split(':')[0].rstrip('?')
        for ln in lines for tok in ln.replace('=>', ' ').split()
        if not tok.startswith(task + ':') and tok.rstrip('?') != task
        and tok != '!' + task})
    body = '\n'.join('            ' + ln for ln in lines)
    out = [
        '[scheduler]',
        '    allow implicit tasks = True',
        '[scheduling]',
        '    [[graph]]',
        '        R1 = """',
        body,
        '        """',
        '[runtime]',
        f'    [[{task}]]',
    ]
    if completion is not None:
        out.append(f'        completion = {completion}')
    if extra_runtime:
        out.append(extra_runtime)
    if customs:
        out.append('        [[[outputs]]]')
        for o, (msg, _m) in customs.items():
            out.append(f'            {o} = {msg}')
    for t in others:
        out.append(f'    [[{t}]]')
    return '\n'.join(out) + '\n'


_OPTS = None
_N = [0]


def load_config(workdir: str, text: str, run_mode=None):
    """Write text to a fresh flow.cylc under workdir and load it with the
    real WorkflowConfig.  Exceptions propagate."""
    global _OPTS
    from cylc.flow.config import WorkflowConfig
    if _OPTS is None:
        from cylc.flow.scripts.validate import ValidateOptions
        _OPTS = ValidateOptions
    _N[0] += 1
    d = os.path.join(workdir, 'flows', f'w{_N[0] % 8}')
    os.makedirs(d, exist_ok=True)
    path = os.path.join(d, 'flow.cylc')
    with open(path, 'w', encoding='utf8') as f:
        f.write(text)
    return WorkflowConfig(f'w{_N[0] % 8}', path, _OPTS())


def quiet_logging():
    """Keep cylc's logger from writing one line per deliberate rejection."""
    import logging
    logging.getLogger('cylc').setLevel(logging.CRITICAL)
    logging.getLogger('cylc').propagate = False
