"""More E1 monitors: runahead (C04), queues (C05), shutdown/stall/latency
(C03), completion/retention (C11), sequential tasks (C31)."""
from __future__ import annotations

from collections import Counter, defaultdict
from typing import Dict, List, Optional, Set, Tuple

from vlib.e1.monitors import ACTIVE, FINAL, Base, split_id
from vlib.gen import wfgen
from vlib.models import gtmodel


def all_points(gt) -> List[int]:
    s = set()
    for sec in gt['sections']:
        s.update(sec['points'])
    return sorted(s)


def model_runahead_limit(gt, pool_points: List[int], pool_names_by_point,
                         stop: Optional[int],
                         with_future: bool = True) -> Optional[int]:
    """Runahead limit recomputed from a pool snapshot (DESIGN §5 C04).

    Only count limits `Pn` (integer cycling)."""
    if not pool_points:
        return None
    base = min(pool_points)
    lim = gt.get('runahead') or 'P4'
    n = int(lim[1:])
    pts = [p for p in all_points(gt) if p >= base]
    if not pts:
        L = base
    else:
        L = pts[:n + 1][-1]
    # largest future-trigger offset among pooled tasks' definitions
    fut = 0
    names = set()
    for v in pool_names_by_point.values():
        names.update(v)
    for sec in gt['sections']:
        for ar in sec['arrows']:
            if not (set(ar['rhs']) & names):
                continue
            for a in wfgen.atoms(ar['lhs']):
                if isinstance(a[2], int) and a[2] > fut:
                    fut = a[2]
    if with_future:
        # upper bound (used to judge releases); readiness claims use the
        # lower bound without it
        L += fut
    if stop is not None and L > stop:
        L = stop
    return L


class C04Runahead(Base):
    NAME = 'c04'
    PID = 'C04'

    def __init__(self, case, phase):
        super().__init__(case, phase)
        self.rh_in = None
        self.prev_base = None

    def on_event(self, ev):
        k = ev['k']
        if k == 'RH_IN':
            self.rh_in = ev
        elif k == 'RH_OUT' and self.rh_in is not None:
            rin = self.rh_in
            self.rh_in = None
            if not ev['released']:
                return
            gt = self.gt
            pts = [int(p) for p in rin['pool_points']]
            stop = gtmodel.stop_point(gt)
            by_point = defaultdict(set)
            for t in self.drv.schd.pool.get_tasks():
                by_point[int(str(t.point))].add(t.tdef.name)
            # the released tasks were in the pool at entry; tasks spawned
            # during the call are later points of the same tasks
            L = model_runahead_limit(gt, pts, by_point, stop)
            base = min(pts)
            if self.prev_base is not None and base != self.prev_base:
                self.n['base_point_changes'] += 1
            self.prev_base = base
            for tid, status, manual in ev['released']:
                if status != 'waiting' or manual:
                    self.n['released_nonwaiting_or_manual'] += 1
                    continue
                if tid in self.drv.ledger.manual:
                    continue
                p, n = split_id(tid)
                self.n['release_checks'] += 1
                if p > L:
                    self.v('released-beyond-limit',
                           f'{tid} released from the runahead pool but the '
                           f'limit recomputed from the pool is {L} (pool '
                           f'points {pts}, limit {gt.get("runahead") or "P4"},'
                           f' stop {stop}; scheduler used {rin["limit"]})',
                           {'released': ev['released'], 'pool_points': pts,
                            'model_limit': L, 'impl_limit': rin['limit']})
                if p == L:
                    self.n['released_at_limit'] += 1


class C05Queues(Base):
    NAME = 'c05'
    PID = 'C05'

    def __init__(self, case, phase):
        super().__init__(case, phase)
        self.fifo: Dict[str, List[str]] = defaultdict(list)
        self.qin = None
        self.order_known = True

    def queue_of(self, name):
        return self.gt['tasks'][name]['queue']

    def limit_of(self, q):
        spec = self.gt['queues'].get(q)
        if spec is None:
            return 0
        return spec['limit']

    def on_event(self, ev):
        k = ev['k']
        if k == 'STATE':
            bq, aq = ev['before'][2], ev['after'][2]
            if bq != aq:
                p, n = split_id(ev['id'])
                if n not in self.gt['tasks']:
                    return
                f = self.fifo[self.queue_of(n)]
                if aq and ev['id'] not in f:
                    f.append(ev['id'])
                elif not aq and ev['id'] in f and self.qin is None:
                    f.remove(ev['id'])
        elif k == 'POOL_REMOVE':
            tid = ev['task']['id']
            for f in self.fifo.values():
                if tid in f:
                    f.remove(tid)
        elif k == 'CMD' and ev['cmd'] in ('reload_workflow',):
            self.order_known = False
        elif k == 'QUEUE_IN':
            self.qin = ev
        elif k == 'QUEUE_REL':
            qin, self.qin = self.qin, None
            if qin is None:
                return
            self.check_release(qin, ev)
            for tid in ev['released']:
                for f in self.fifo.values():
                    if tid in f:
                        f.remove(tid)

    def check_release(self, qin, ev):
        census = qin['census']
        held = {c[0] for c in census if c[5]}
        active = Counter()
        for tid, name, status, wojp, queued, is_held, manual in census:
            if name not in self.gt['tasks']:
                continue
            if status in ACTIVE or wojp:
                active[self.queue_of(name)] += 1
        released = defaultdict(list)
        for tid in ev['released']:
            p, n = split_id(tid)
            released[self.queue_of(n)].append(tid)
        self.n['release_calls'] += 1
        for q in set(list(self.fifo) + list(released)):
            lim = self.limit_of(q)
            rel = released.get(q, [])
            if rel:
                self.n['releases'] += len(rel)
            if lim:
                self.n['limited_queue_checks'] += 1
                if rel and active[q] + len(rel) > lim:
                    self.v('limit-exceeded',
                           f'queue {q} (limit {lim}) released {rel} with '
                           f'{active[q]} members already preparing/'
                           'submitted/running/awaiting preparation',
                           {'census': census, 'released': ev['released']})
                if active[q] + len(rel) == lim and rel:
                    self.n['released_up_to_limit'] += 1
            if not self.order_known:
                continue
            fifo = [t for t in self.fifo.get(q, []) if t not in held]
            room = (lim - active[q]) if lim else len(fifo)
            want = fifo[:max(0, room)]
            if held & set(self.fifo.get(q, [])):
                self.n['held_skipped'] += 1
            if sorted(rel) != sorted(want):
                self.v('not-fifo-or-not-released',
                       f'queue {q} (limit {lim}, {active[q]} active) '
                       f'released {sorted(rel)}; queue order says '
                       f'{want} (queue {self.fifo.get(q)}, held '
                       f'{sorted(held)})',
                       {'census': census, 'fifo': self.fifo.get(q),
                        'released': ev['released']})
            elif rel:
                self.n['fifo_checks'] += 1


class C11Retention(Base):
    NAME = 'c11'
    PID = 'C11'

    def gt_outputs(self, name, outputs):
        return set(outputs)

    def exempt(self, tid):
        # outputs set by hand / removals: not this oracle's business;
        # a manual *trigger* does not change what completes the task
        return tid in self.touched

    def on_event(self, ev):
        if ev['k'] == 'CMD' and ev['cmd'] in ('set', 'remove_tasks',
                                               'kill_tasks'):
            from vlib.e1.monitors import match_ids
            if not hasattr(self, 'touched'):
                self.touched = set()
            self.touched |= match_ids(ev['args'].get('tasks') or [],
                                      ev.get('pool') or [], self.gt)
            return
        if not hasattr(self, 'touched'):
            self.touched = set()
        if ev['k'] != 'POOL_REMOVE':
            return
        t = ev['task']
        if t['status'] not in FINAL or self.exempt(t['id']):
            return
        if ev.get('reason') not in (None, 'completed'):
            return
        if t['name'] not in self.gt['tasks']:
            return
        self.n['removals_checked'] += 1
        if not wfgen.is_complete(self.gt, t['name'], set(t['outputs'])):
            self.v('incomplete-task-removed',
                   f'{t["id"]} ({t["status"]}) removed as complete with '
                   f'outputs {t["outputs"]}; required '
                   f'{sorted(wfgen.required_outputs(self.gt, t["name"]))}',
                   t)

    def after_iter(self, drv, pool_snap):
        for t in pool_snap:
            if t['status'] in FINAL and t['name'] in self.gt['tasks'] \
                    and not self.exempt(t['id']):
                self.n['retained_checked'] += 1
                if t['flow_wait']:
                    self.n['retained_checked_flow_wait'] += 1
                if wfgen.is_complete(self.gt, t['name'], set(t['outputs'])):
                    self.v('complete-task-retained',
                           f'{t["id"]} ({t["status"]}) is still in the pool '
                           f'after the iteration with outputs '
                           f'{t["outputs"]}, which complete it', t)
                else:
                    self.n['incomplete_retained'] += 1


class C31Sequential(Base):
    NAME = 'c31'
    PID = 'C31'

    def on_event(self, ev):
        if ev['k'] != 'SUBMIT_CMD':
            return
        facts = None
        start = self.case.get('start_point', self.gt['initial'])
        for j in ev['jobs']:
            p, n, num = j.split('/')
            p = int(p)
            td = self.gt['tasks'].get(n)
            if not td or not td['sequential'] or int(num) > 1:
                continue
            if f'{p}/{n}' in self.drv.ledger.manual:
                continue
            prev = [q for q in wfgen.task_points(self.gt, n)
                    if start <= q < p]
            self.n['sequential_submits'] += 1
            if not prev:
                continue
            if facts is None:
                facts = self.drv.ledger.actual_facts()
            self.n['order_checks'] += 1
            if (n, prev[-1], 'succeeded') not in facts:
                self.v('submitted-before-previous-succeeded',
                       f'{j} submitted but the previous instance '
                       f'{prev[-1]}/{n} has not succeeded', ev)

    def after_iter(self, drv, pool_snap):
        act = defaultdict(list)
        for t in pool_snap:
            td = self.gt['tasks'].get(t['name'])
            if td and td['sequential'] and t['status'] in ACTIVE:
                act[t['name']].append(t['id'])
        self.n['overlap_checks'] += 1
        for n, ids in act.items():
            if len(ids) > 1:
                self.v('instances-overlap',
                       f'sequential task {n} has {ids} active together',
                       {'ids': ids})


class C03Progress(Base):
    """No premature shutdown, no false stall, bounded readiness latency."""
    NAME = 'c03'
    PID = 'C03'
    K = 6

    def __init__(self, case, phase):
        super().__init__(case, phase)
        self.told: Set[Tuple[str, int, str]] = set()
        self.ready_for: Dict[str, int] = {}
        self.prepped: Set[str] = set()
        self.max_latency = 0

    def on_event(self, ev):
        k = ev['k']
        if k == 'MSG_OUT':
            if ev.get('transient'):
                # a message for a task that has already left the pool: the
                # output reaches no prerequisite (the C01 known finding
                # 'output-message-after-final-message'); not a fact here
                self.n['facts_skipped_task_left_pool'] += 1
                return
            p, n = split_id(ev['id'])
            for o in ev['outputs_after']:
                self.told.add((n, p, o))
        elif k == 'PREP':
            for t in ev['tasks']:
                self.prepped.add(t['id'])
                self.ready_for.pop(t['id'], None)

    def gt_state(self, t, facts):
        """(all_satisfied, partially_satisfied) of a pooled task over facts
        using GT expressions."""
        n, p = t['name'], int(t['point'])
        start = self.case.get('start_point', self.gt['initial'])
        arrows = wfgen.arrows_at(self.gt, n, p)
        sat = all(gtmodel.eval_expr(ar, p, facts, start) for ar in arrows)
        anysat = False
        for ar in arrows:
            for a in wfgen.atoms(ar):
                q = wfgen.atom_point(a, p)
                if q < start:
                    continue
                if gtmodel.eval_expr(a, p, facts, start):
                    anysat = True
        return sat, (anysat and not sat)

    def pool_facts(self):
        return self.told

    def on_shutdown(self, drv, schd, reason):
        if not str(reason).endswith('AUTOMATIC'):
            return
        from vlib.e1.driver import snap_pool
        pool = snap_pool(schd.pool)
        self.n['auto_shutdown_checks'] += 1
        stop = gtmodel.stop_point(self.gt)
        facts = self.pool_facts()
        for t in pool:
            if t['name'] not in self.gt['tasks']:
                continue
            if t['status'] in ACTIVE:
                self.v('shutdown-with-active-task',
                       f'automatic shutdown with {t["id"]} {t["status"]}', t)
            elif t['status'] in FINAL:
                if not wfgen.is_complete(self.gt, t['name'],
                                         set(t['outputs'])):
                    self.v('shutdown-with-incomplete-task',
                           f'automatic shutdown with {t["id"]} finished '
                           f'({t["status"]}) but incomplete: outputs '
                           f'{t["outputs"]}', t)
            elif t['status'] == 'waiting':
                sat, partial = self.gt_state(t, facts)
                p = int(t['point'])
                if sat and not t['runahead'] and not t['held']:
                    self.v('shutdown-with-runnable-task',
                           f'automatic shutdown with released waiting task '
                           f'{t["id"]} whose prerequisites are satisfied', t)
                if partial and p <= stop:
                    self.v('shutdown-with-partially-satisfied-task',
                           f'automatic shutdown with {t["id"]} waiting on '
                           'partially satisfied prerequisites', t)
        # the job world must agree nothing is running
        live = [j.jid for j in drv.world.live_jobs()
                if j.plan['result'] != 'hang']
        if live:
            self.v('shutdown-with-live-jobs',
                   f'automatic shutdown while jobs {live[:4]} are live',
                   {'live': live})

    def on_stall_decided(self, drv, pool_snap):
        """Called where the scheduler sets its stalled flag (start of an
        iteration, before that iteration's messages, or its end)."""
        gt = self.gt
        if True:
            self.n['stall_checks'] += 1
            facts = self.pool_facts()
            pts = [int(t['point']) for t in pool_snap]
            byp = defaultdict(set)
            for t in pool_snap:
                byp[int(t['point'])].add(t['name'])
            L = model_runahead_limit(gt, pts, byp, gtmodel.stop_point(gt),
                                     with_future=False)
            for t in pool_snap:
                if t['name'] not in gt['tasks']:
                    continue
                if t['status'] in ACTIVE:
                    self.v('stall-with-active-task',
                           f'stall reported with {t["id"]} {t["status"]}', t)
                elif t['status'] == 'waiting' and not t['held']:
                    sat, _ = self.gt_state(t, facts)
                    xt = all(t['xtriggers'].values()) if t['xtriggers'] \
                        else True
                    if sat and int(t['point']) <= L:
                        # (with an xtrigger still pending it will run when
                        # that is satisfied - no intervention needed)
                        self.v('stall-with-runnable-task' + (
                            '' if xt else ':waiting-on-xtrigger'),
                               f'stall reported but {t["id"]} is waiting, '
                               'not held, within the runahead limit, with '
                               'satisfied prerequisites' + (
                                   '' if xt else ' and an xtrigger pending'),
                               {'task': t, 'model_limit': L, 'pool': [
                                   (x['id'], x['status'], x['runahead'],
                                    x['outputs']) for x in pool_snap]})

    def after_iter(self, drv, pool_snap):
        schd = drv.schd
        gt = self.gt
        # bounded readiness latency
        if schd.is_paused or schd.stop_mode or schd.reload_pending:
            self.ready_for.clear()
            return
        facts = self.pool_facts()
        pts = [int(t['point']) for t in pool_snap]
        byp = defaultdict(set)
        for t in pool_snap:
            byp[int(t['point'])].add(t['name'])
        L = model_runahead_limit(gt, pts, byp, gtmodel.stop_point(gt),
                                 with_future=False)
        active_q = Counter()
        for t in pool_snap:
            if t['name'] in gt['tasks'] and (t['status'] in ACTIVE
                                             or t['wojp']):
                active_q[gt['tasks'][t['name']]['queue']] += 1
        seen = set()
        for t in pool_snap:
            tid = t['id']
            if t['name'] not in gt['tasks'] or t['status'] != 'waiting':
                continue
            td = gt['tasks'][t['name']]
            q = td['queue']
            lim = gt['queues'].get(q, {}).get('limit', 0)
            xt = all(t['xtriggers'].values()) if t['xtriggers'] else True
            sat, _ = self.gt_state(t, facts)
            seq_ok = True
            if td['sequential']:
                prev = [x for x in wfgen.task_points(gt, t['name'])
                        if x < int(t['point'])]
                if prev and (t['name'], prev[-1], 'succeeded') not in facts:
                    seq_ok = False
            ready = (sat and xt and seq_ok and not t['held']
                     and int(t['point']) <= L and not lim
                     and tid not in drv.ledger.manual)
            if ready:
                seen.add(tid)
                c = self.ready_for.get(tid, 0) + 1
                self.ready_for[tid] = c
                self.n['ready_task_iterations'] += 1
                if c > self.max_latency:
                    self.max_latency = c
                if c == self.K + 1:
                    self.v('ready-task-not-prepared',
                           f'{tid} has been ready (prerequisites and '
                           f'xtriggers satisfied, not held, within runahead '
                           f'limit {L}, unlimited queue) for {c} main-loop '
                           'iterations without entering job preparation', t)
        for tid in list(self.ready_for):
            if tid not in seen:
                del self.ready_for[tid]

    def summary(self, drv):
        d = dict(self.n)
        d['max_ready_latency_seen'] = self.max_latency
        return d


def snap_extras(schd) -> dict:
    """Scheduler-level state that must survive a restart (C19)."""
    pool = schd.pool
    bc = {}
    try:
        import copy
        bc = copy.deepcopy(schd.broadcast_mgr.broadcasts)
    except Exception:
        pass
    return {
        'hold_point': str(pool.hold_point) if pool.hold_point else None,
        'tasks_to_hold': sorted(f'{p}/{n}' for n, p in pool.tasks_to_hold),
        'stop_point': (str(schd.config.stop_point)
                       if schd.config.stop_point else None),
        'pool_stop_point': str(pool.stop_point) if pool.stop_point else None,
        'stop_task': pool.stop_task_id,
        'flow_counter': schd.flow_mgr.counter,
        'flows_known': sorted(schd.flow_mgr.flows),
        'broadcasts': bc,
        'paused': bool(schd.is_paused),
    }


class RestartSnap(Base):
    """Records pool + scheduler state right after start-up and at the end of
    the phase, for cross-incarnation comparison (C19, C06, C08, C43...)."""
    NAME = 'rsnap'

    def __init__(self, case, phase):
        super().__init__(case, phase)
        self.after_start_snap = None
        self.end_snap = None
        self.settled_snap = None

    def after_start(self, drv, schd):
        from vlib.e1.driver import snap_pool
        self.after_start_snap = {'pool': snap_pool(schd.pool),
                                 'extras': snap_extras(schd)}

    def after_iter(self, drv, pool_snap):
        # 'settled' = first iteration end at which the restart poll (and
        # any other start-up command) has been answered and processed
        if self.settled_snap is None and drv.bus.it >= 2 and not \
                drv.schd.proc_pool.is_not_done():
            self.settled_snap = {'pool': pool_snap, 'it': drv.bus.it}

    def on_phase_end(self, drv):
        from vlib.e1.driver import snap_pool
        schd = drv.schd
        if schd is None or not hasattr(schd, 'pool'):
            return
        self.end_snap = {'pool': snap_pool(schd.pool),
                         'extras': snap_extras(schd)}

    def summary(self, drv):
        return {'after_start': self.after_start_snap, 'end': self.end_snap,
                'settled': self.settled_snap}


class C06Hold(Base):
    """Held tasks never enter job preparation; holds apply at spawn
    (hold model: DESIGN Appendix E.5)."""
    NAME = 'c06'
    PID = 'C06'

    def __init__(self, case, phase):
        super().__init__(case, phase)
        st = (phase.get('carry') or {}).get('c06') or {}
        self.H: Set[str] = set(st.get('H', []))
        self.hp = st.get('hp')
        self.released_manual: Set[str] = set(st.get('exempt', []))

    def after_start(self, drv, schd):
        # [scheduling]hold after cycle point takes effect during start-up,
        # after the initial pool has been loaded
        if self.hp is None and self.gt.get('hold_after') is not None \
                and not self.phase.get('restart'):
            self.hp = self.gt['hold_after']
            from vlib.e1.driver import snap_pool
            for t in snap_pool(schd.pool):
                if int(t['point']) > self.hp:
                    self.n['spawned_into_hold'] += 1
                    if not t['held']:
                        self.v('not-held-at-spawn:hold-point',
                               f'{t["id"]} not held after start-up although '
                               f'beyond the configured hold point {self.hp}',
                               t)

    def on_event(self, ev):
        from vlib.e1.monitors import match_ids
        k = ev['k']
        if k == 'CMD_EXEC':
            # (when the scheduler executes the command: one queued behind a
            # stop request is never executed)
            cmd, args = ev['cmd'], ev['args']
            pool = ev.get('pool') or []
            if cmd == 'hold':
                for tid in match_ids(args['tasks'], pool, self.gt):
                    self.H.add(tid)
                self.n['hold_cmds'] += 1
            elif cmd == 'release':
                for tid in match_ids(args['tasks'], pool, self.gt):
                    self.H.discard(tid)
                    # an explicit release also lifts the hold-point hold
                    # of that task: make no further claim about it
                    self.released_manual.add(tid)
                # a glob may also release held future tasks: stop claiming
                if any(c in ''.join(args['tasks']) for c in '*?['):
                    pooled = {t['id'] for t in pool}
                    self.H = {h for h in self.H if h in pooled
                              and h not in match_ids(args['tasks'], pool,
                                                     self.gt)}
                self.n['release_cmds'] += 1
            elif cmd == 'set_hold_point':
                self.hp = int(args['point'])
                for t in pool:
                    if int(t['point']) > self.hp:
                        self.H.add(t['id'])
                self.n['hold_point_cmds'] += 1
            elif cmd == 'release_hold_point':
                self.hp = None
                self.H = set()
            elif cmd in ('force_trigger_tasks', 'set', 'remove_tasks'):
                # manual intervention on those tasks: no claims about them
                for tid in match_ids(args.get('tasks') or [], pool, self.gt):
                    self.H.discard(tid)
                    self.released_manual.add(tid)
        elif k == 'CMD_REJECTED' and ev['cmd'] in (
                'hold', 'release', 'set_hold_point', 'release_hold_point'):
            # the model applied a command the scheduler refused: stop
            # making model-based claims in this run
            self.H = set()
            self.hp = None
            self.n['model_reset_on_rejected_cmd'] += 1
        elif k == 'POOL_ADD':
            t = ev['task']
            tid = t['id']
            want = tid in self.H or (self.hp is not None
                                     and int(t['point']) > self.hp)
            if tid in self.released_manual or t['manual']:
                return
            if self.phase.get('restart') and self.drv.bus.it == 0:
                return    # reloaded from the DB: judged by the snapshots
            self.n['spawn_checks'] += 1
            if want:
                self.n['spawned_into_hold'] += 1
                if not t['held']:
                    why = ('held earlier by command' if tid in self.H else
                           f'beyond hold point {self.hp}')
                    self.v('not-held-at-spawn:' + (
                        'future-hold' if tid in self.H else 'hold-point'),
                        f'{tid} spawned not held although {why}', t)
        elif k == 'POOL_REMOVE':
            self.H.discard(ev['task']['id'])
        elif k == 'PREP':
            for t in ev['tasks']:
                tid = t['id']
                if t['manual'] or tid in self.drv.ledger.manual:
                    self.n['manual_preps'] += 1
                    continue
                if t['status'] == 'preparing':
                    continue      # passed back through: judged at entry
                self.n['prep_checks'] += 1
                if t['held']:
                    self.v('held-task-prepared',
                           f'{tid} entered job preparation while flagged '
                           'held', t)
                elif tid in self.released_manual:
                    continue
                elif tid in self.H or (self.hp is not None and
                                       int(t['point']) > self.hp):
                    self.v('held-task-prepared:model',
                           f'{tid} entered job preparation although held '
                           f'(hold set {sorted(self.H)[:5]}, hold point '
                           f'{self.hp})', t)

    def after_iter(self, drv, pool_snap):
        # a pooled task that the model says is held carries the held flag,
        # whatever its status (hold applies to active tasks too: it stops
        # their retries)
        for t in pool_snap:
            tid = t['id']
            if t['name'] not in self.gt['tasks'] or t['manual'] or \
                    tid in self.released_manual or \
                    tid in drv.ledger.manual:
                continue
            want = tid in self.H or (self.hp is not None
                                     and int(t['point']) > self.hp)
            if not want:
                continue
            self.n['pooled_held_checks'] += 1
            if t['status'] in ACTIVE:
                self.n['pooled_held_checks_active'] += 1
            if not t['held'] and t['status'] not in FINAL:
                self.v('held-flag-missing-in-pool:' + (
                    'active' if t['status'] in ACTIVE else t['status']),
                    f'{tid} ({t["status"]}) is in the pool without the held '
                    f'flag although held by command or beyond hold point '
                    f'{self.hp} (hold set {sorted(self.H)[:5]})', t)

    def summary(self, drv):
        d = dict(self.n)
        d['_state'] = {'H': sorted(self.H), 'hp': self.hp,
                       'exempt': sorted(self.released_manual)}
        return d


def gt_children(gt, name, point, output):
    """Instances (child, q) with an atom on (name, point, output)."""
    out = set()
    for sec in gt['sections']:
        for ar in sec['arrows']:
            for a in wfgen.atoms(ar['lhs']):
                if a[1] != name:
                    continue
                if not (a[3] == output or (a[3] == 'finished' and output in
                                           ('succeeded', 'failed'))):
                    continue
                for q in sec['points']:
                    if wfgen.atom_point(a, q) == point:
                        for c in ar['rhs']:
                            out.add((c, q))
    return out


class C08Flows(Base):
    NAME = 'c08'
    PID = 'C08'

    def __init__(self, case, phase):
        super().__init__(case, phase)
        st = (phase.get('carry') or {}).get('c08') or {}
        self.max_flow = st.get('max_flow', 0)
        self.used: Set[int] = set(st.get('used', []))
        self.done: Dict[str, Set[int]] = {
            k: set(v) for k, v in (st.get('done') or {}).items()}
        self.spawn_stack = []
        self.added: Dict[str, Tuple[Set[int], bool]] = {}

    def note_flows(self, flows):
        for f in flows:
            self.used.add(f)
            if f > self.max_flow:
                self.max_flow = f

    def on_event(self, ev):
        k = ev['k']
        if k == 'FLOW_NEW':
            if ev['requested'] is None:
                self.n['new_flow_allocations'] += 1
                if ev['returned'] in self.used:
                    self.v('flow-number-reused',
                           f'new flow got number {ev["returned"]}, already '
                           f"used in this workflow's history "
                           f'{sorted(self.used)}', ev)
            self.note_flows([ev['returned']])
        elif k in ('POOL_ADD',):
            self.note_flows(ev['task']['flows'])
            # the flows that reached the instance when it was spawned
            # (flows merged into the pooled instance later do not "reach it
            # again": the statement makes it belong to the union)
            loaded = bool(self.phase.get('restart')) and self.drv.bus.it == 0
            self.added[ev['task']['id']] = (set(ev['task']['flows']), loaded)
        elif k == 'STATE':
            self.note_flows(ev.get('flows') or [])
        elif k == 'SPAWN_IN':
            self.spawn_stack.append(ev)
        elif k == 'SPAWN_OUT':
            sin = self.spawn_stack.pop() if self.spawn_stack else None
            if not sin or not sin['flows'] or sin['flow_wait']:
                return
            p, n = split_id(sin['id'])
            if n not in self.gt['tasks']:
                return
            out = self.msg_to_output(n, sin['output'])
            if out is None:
                return
            pool = self.drv.schd.pool
            for c, q in gt_children(self.gt, n, p, out):
                t = pool._get_task_by_id(f'{q}/{c}')
                if t is None:
                    continue
                self.n['child_flow_checks'] += 1
                if not set(sin['flows']) <= set(t.flow_nums):
                    self.v('child-missing-parent-flows',
                           f'{q}/{c} has flows {sorted(t.flow_nums)} after '
                           f'{sin["id"]}:{out} (flows {sin["flows"]}) '
                           'spawned/updated it', {'spawn': sin})
                if len(t.flow_nums) > len(sin['flows']):
                    self.n['merges_seen'] += 1
        elif k == 'POOL_REMOVE':
            t = ev['task']
            if t['status'] in FINAL and ev.get('reason') in (
                    None, 'completed') and t['name'] in self.gt['tasks'] \
                    and wfgen.is_complete(self.gt, t['name'],
                                          set(t['outputs'])):
                self.done.setdefault(t['id'], set()).update(t['flows'])
        elif k == 'CMD' and ev['cmd'] == 'remove_tasks':
            # removal erases history: the task may run again
            from vlib.e1.monitors import match_ids
            for tid in match_ids(ev['args'].get('tasks') or [],
                                 ev.get('pool') or [], self.gt):
                self.done.pop(tid, None)
        elif k == 'PREP':
            for t in ev['tasks']:
                if t['status'] == 'preparing' or t['manual']:
                    continue
                tid = t['id']
                if tid in self.drv.ledger.manual:
                    continue
                self.n['rerun_checks'] += 1
                done = self.done.get(tid, set())
                at_add, loaded = self.added.get(tid, (set(t['flows']), True))
                if loaded:
                    # loaded from the DB at restart (merges before the stop
                    # are not known): all its flows must be done to judge
                    again = done & set(t['flows']) \
                        if set(t['flows']) <= done else set()
                else:
                    again = done & at_add
                if done & set(t['flows']) and not again:
                    self.n['rerun_for_other_flow_with_done_flows_merged'] += 1
                if again:
                    self.v('completed-task-rerun-in-same-flow',
                           f'{tid} enters job preparation in flow(s) '
                           f'{sorted(again)} in which it already finished '
                           'complete, without manual triggering', t)

    def summary(self, drv):
        d = dict(self.n)
        d['_state'] = {'max_flow': self.max_flow, 'used': sorted(self.used),
                       'done': {k: sorted(v) for k, v in self.done.items()}}
        return d


class C45AbsTriggers(Base):
    """Once an absolutely-triggered output is complete, every current and
    future dependent instance has that prerequisite satisfied."""
    NAME = 'c45'
    PID = 'C45'

    def __init__(self, case, phase):
        super().__init__(case, phase)
        st = (phase.get('carry') or {}).get('c45') or {}
        self.done: Set[Tuple[str, str, str]] = {
            tuple(x) for x in st.get('done', [])}   # (point, task, message)
        # (task, point, output) atoms used absolutely in the GT
        self.abs_atoms = set()
        for sec in self.gt['sections']:
            for ar in sec['arrows']:
                for a in wfgen.atoms(ar['lhs']):
                    if isinstance(a[2], tuple):
                        self.abs_atoms.add((a[1], a[2][1], a[3]))

    def message_of(self, name, out):
        return self.case.get('messages', {}).get(name, {}).get(out, out)

    def on_event(self, ev):
        k = ev['k']
        if k == 'MSG_OUT' and ev.get('transient'):
            # a message for a task that had already left the pool reaches
            # no prerequisite at all (the C01 known finding 'output-message-
            # after-final-message'): not an output completed in the pool
            self.n['outputs_after_task_left_pool'] += 1
        elif k == 'MSG_OUT':
            p, n = split_id(ev['id'])
            for (t, q, o) in self.abs_atoms:
                if t == n and q == p:
                    outs = set(ev['outputs_after'])
                    hit = (o in outs) or (o == 'finished' and outs & {
                        'succeeded', 'failed'})
                    if hit:
                        if o == 'finished':
                            for oo in ('succeeded', 'failed'):
                                if oo in outs:
                                    self.done.add((str(q), t, oo))
                        else:
                            self.done.add((str(q), t, self.message_of(t, o)))
        elif k == 'POOL_ADD':
            if self.phase.get('restart') and self.drv.bus.it == 0:
                self.check([ev['task']], 'after-restart')
            else:
                self.check([ev['task']], 'at-spawn')

    def after_iter(self, drv, pool_snap):
        self.check(pool_snap, 'in-pool')

    def check(self, tasks, where):
        if not self.done:
            return
        for t in tasks:
            # the Prerequisite object (one graph expression) each atom is in
            gsat = {}
            for pt, name, out, gi, gs in t.get('prereq_groups', []):
                gsat.setdefault((pt, name, out), []).append(gs)
            for pt, name, out, sat, _ in t['prereqs']:
                if (pt, name, out) in self.done:
                    self.n['abs_prereq_checks'] += 1
                    self.n[f'abs_checks_{where}'] += 1
                    if not sat and all(gsat.get((pt, name, out), [False])):
                        # the expression holding the atom is satisfied
                        # anyway (cylc does not mark the atom then)
                        self.n['abs_atom_unmarked_in_satisfied_expr'] += 1
                    elif not sat:
                        self.v(f'abs-prerequisite-unsatisfied:{where}',
                               f'{t["id"]} has prerequisite {pt}/{name}:'
                               f'{out} unsatisfied although that output is '
                               'complete', t)

    def summary(self, drv):
        d = dict(self.n)
        d['_state'] = {'done': sorted(self.done)}
        return d


class C25DataStore(Base):
    """Oracle A: after every data-store update each pooled task is in the
    store with equal state. Oracle B: a client mirror fed with the published
    deltas equals the scheduler's store, with matching checksums."""
    NAME = 'c25'
    PID = 'C25'
    # order in which a protobuf client sees the parts of an "all" delta
    # (field-number order of AllDeltas.ListFields())
    KEYS = ('families', 'family_proxies', 'jobs', 'tasks', 'task_proxies',
            'edges', 'workflow')

    def __init__(self, case, phase):
        super().__init__(case, phase)
        self.mirror = None
        self.pending = []
        self.foreign = {}

    def after_start(self, drv, schd):
        q = schd.server.publish_queue
        orig_put = q.put
        mon = self

        def put(item, *a, **kw):
            try:
                mon.on_publish(schd, item)
            except Exception:
                import traceback
                drv.bus.emit_error('c25.on_publish',
                                   traceback.format_exc(limit=8))
            return orig_put(item, *a, **kw)
        q.put = put
        # proxies replaced by a reload (kept alive here so that id() stays
        # unique)
        self.replaced = {}
        self.pooled_ever = {}
        self.dup_noflow = set()
        self.cmd_flow = None
        pool = schd.pool
        orig_reload = pool.reload

        def reload(config, _orig=orig_reload):
            before = {t.identity: t for t in pool.get_tasks()}
            ret = _orig(config)
            after = {t.identity: t for t in pool.get_tasks()}
            for tid, old in before.items():
                if after.get(tid) is not None and after[tid] is not old:
                    mon.replaced[id(old)] = old
            return ret
        pool.reload = reload
        # which deltas come from a task proxy that is not the pooled one
        # (an instance removed while active whose job events still arrive)
        dsm = schd.data_store_mgr
        for name in ('delta_task_state', 'delta_task_flow_nums',
                     'delta_task_output', 'delta_task_outputs',
                     'delta_task_prerequisite'):
            orig = getattr(dsm, name, None)
            if orig is None:
                continue

            def wrapped(itask, *a, _orig=orig, **kw):
                try:
                    cur = schd.pool._get_task_by_id(itask.identity)
                    if cur is not itask and id(itask) in mon.replaced:
                        # the pre-reload object of a task that is still in
                        # the pool: nothing may act on it any more (not the
                        # recorded mechanism, which is about removed tasks)
                        mon.n['deltas_from_proxy_replaced_by_reload'] += 1
                    elif cur is not itask:
                        mon.foreign.setdefault(itask.identity, []).append(
                            itask)
                        mon.n['deltas_from_proxy_not_in_pool'] += 1
                        if id(itask) not in mon.pooled_ever and \
                                mon.cmd_flow == ['none']:
                            # a second proxy made for a pooled task by a
                            # no-flow trigger (never in the pool itself)
                            mon.dup_noflow.add(itask.identity)
                    else:
                        mon.pooled_ever[id(itask)] = itask
                except Exception:
                    pass
                return _orig(itask, *a, **kw)
            setattr(dsm, name, wrapped)

    def is_foreign(self, itask):
        return any(o is not itask for o in self.foreign.get(
            itask.identity, []))

    def vf(self, itask, key, what, detail):
        """A store/pool difference; classified by mechanism when deltas of
        another proxy object with the same id were seen."""
        if self.is_foreign(itask) and itask.identity in self.dup_noflow:
            key = ('store-field-differs:delta-from-duplicate-proxy-made-by-'
                   'no-flow-trigger')
        elif self.is_foreign(itask):
            key = 'store-field-differs:delta-from-proxy-not-in-pool'
        self.v(key, what, detail)

    def on_event(self, ev):
        if ev['k'] == 'CMD_EXEC':
            self.cmd_flow = list((ev.get('args') or {}).get('flow') or []) \
                if ev['cmd'] == 'force_trigger_tasks' else None
        elif ev['k'] == 'CMD_EXEC_END':
            self.cmd_flow = None

    def store(self, schd):
        return schd.data_store_mgr.data[schd.data_store_mgr.workflow_id]

    def on_publish(self, schd, item):
        from cylc.flow import data_store_mgr as D
        self.n['publishes'] += 1
        if self.mirror is None:
            # a client starts empty: the first published batch is the
            # initial snapshot (the whole data model as "added" elements)
            from cylc.flow.data_messages_pb2 import PbWorkflow
            self.mirror = {
                D.WORKFLOW: PbWorkflow(), D.TASKS: {}, D.TASK_PROXIES: {},
                D.JOBS: {}, D.FAMILIES: {}, D.FAMILY_PROXIES: {},
                D.EDGES: {},
            }
        for topic, delta, _ in item:
            if topic != D.ALL_DELTAS.encode():
                continue
            wire = type(delta)()
            wire.ParseFromString(delta.SerializeToString())
            for key in self.KEYS:
                sub = getattr(wire, key)
                if sub.ListFields():
                    if sub.reloaded:
                        # hard reset of this part of the store (start-up,
                        # reload): the client clears it and takes the
                        # 'added' elements as the new content
                        self.n['reloaded_deltas'] += 1
                        if key == D.WORKFLOW:
                            self.mirror[key].Clear()
                        else:
                            self.mirror[key].clear()
                    D.apply_delta(key, sub, self.mirror)
                    self.n['deltas_applied'] += 1
                    if hasattr(sub, 'checksum') and sub.checksum:
                        att = 'id' if key == D.EDGES else 'stamp'
                        mine = D.generate_checksum(
                            [getattr(e, att)
                             for e in self.mirror[key].values()])
                        self.n['checksums_compared'] += 1
                        if mine != sub.checksum:
                            self.v(f'checksum-mismatch:{key}',
                                   f'published checksum of {key} does not '
                                   'match the client mirror after applying '
                                   'the delta', {'key': key})
        self.compare(schd)

    def compare(self, schd):
        from cylc.flow import data_store_mgr as D
        data = self.store(schd)
        self.n['mirror_comparisons'] += 1
        for key in self.KEYS:
            if key == D.WORKFLOW:
                continue
            mine, theirs = self.mirror[key], data[key]
            if set(mine) != set(theirs):
                self.v(f'mirror-membership:{key}',
                       f'client mirror {key} differs from the scheduler '
                       f'store: only in mirror '
                       f'{sorted(set(mine) - set(theirs))[:3]}, only in '
                       f'store {sorted(set(theirs) - set(mine))[:3]}',
                       {'key': key})
                continue
            for eid, e in theirs.items():
                self.n['elements_compared'] += 1
                if mine[eid] != e:
                    diff = [f.name for f, v in e.ListFields()
                            if getattr(mine[eid], f.name) != v]
                    diff += [f.name for f, v in mine[eid].ListFields()
                             if getattr(e, f.name) != v and f.name not in diff]
                    self.v(f'mirror-element-differs:{key}:' +
                           ','.join(sorted(diff)[:3]),
                           f'{eid}: fields {sorted(diff)} differ between the '
                           'client mirror and the scheduler store',
                           {'id': eid, 'fields': sorted(diff),
                            'values': {f: [str(getattr(e, f))[:400],
                                           str(getattr(mine[eid], f))[:400]]
                                       for f in sorted(diff)},
                            'publish_no': self.n['publishes']})
                    return

    def after_data_store_update(self, drv, schd):
        from cylc.flow import data_store_mgr as D
        from cylc.flow.util import deserialise_set
        data = self.store(schd)
        tps = data[D.TASK_PROXIES]
        self.n['store_updates'] += 1
        for itask in schd.pool.get_tasks():
            self.n['pool_tasks_checked'] += 1
            node = tps.get(itask.tokens.id)
            tid = itask.identity
            if node is None:
                self.v('pool-task-missing-from-store',
                       f'{tid} is in the pool but not in the data store '
                       'after the update', {'id': tid})
                continue
            st = itask.state
            for fld, want in (('state', st.status),
                              ('is_held', bool(st.is_held)),
                              ('is_queued', bool(st.is_queued)),
                              ('is_runahead', bool(st.is_runahead))):
                got = getattr(node, fld)
                if got != want:
                    self.vf(itask, f'store-field-differs:{fld}',
                           f'{tid}: data store {fld}={got!r}, pool '
                           f'{want!r}', {'id': tid})
            if deserialise_set(node.flow_nums) != set(itask.flow_nums):
                self.vf(itask, 'store-field-differs:flow_nums',
                       f'{tid}: data store flows {node.flow_nums}, pool '
                       f'{sorted(itask.flow_nums)}', {'id': tid})
            want_out = {trg: bool(done) for trg, _, done in st.outputs}
            got_out = {o.label: bool(o.satisfied)
                       for o in node.outputs.values()}
            if got_out and want_out != got_out:
                bad = sorted(k for k in want_out
                             if want_out[k] != got_out.get(k))
                self.vf(itask, 'store-field-differs:outputs',
                       f'{tid}: outputs {bad} differ (store '
                       f'{ {k: got_out.get(k) for k in bad} }, pool '
                       f'{ {k: want_out[k] for k in bad} })', {'id': tid})
            want_pre = sorted(
                (k.get_id(), k.output, bool(v))
                for pr in st.prerequisites for k, v in pr.items())
            got_pre = sorted(
                (c.task_proxy, c.req_state, bool(c.satisfied))
                for pr in node.prerequisites for c in pr.conditions)
            if want_pre != got_pre:
                self.vf(itask, 'store-field-differs:prerequisites',
                       f'{tid}: prerequisite satisfaction in the store '
                       f'{got_pre[:4]} != pool {want_pre[:4]}', {'id': tid})


class C27Reload(Base):
    """Reload preserves task state (snapshots around TaskPool.reload)."""
    NAME = 'c27'
    PID = 'C27'

    def __init__(self, case, phase):
        super().__init__(case, phase)
        self.before = None
        self.told = set()       # (point, task, output-name) told so far
        self.pending = None     # reload action being applied

    def on_event(self, ev):
        k = ev['k']
        if k == 'MSG_OUT':
            p, n = split_id(ev['id'])
            for o in ev['outputs_after']:
                self.told.add((str(p), n, o))
        elif k == 'CMD' and ev['cmd'] == 'reload_workflow':
            self.pending = ev
        elif k == 'RELOAD_IN':
            self.before = ev['pool']
        elif k == 'RELOAD_OUT' and self.before is not None:
            self.compare(self.before, ev['pool'])
            self.before = None

    def compare(self, before, after):
        act = None
        for a in self.phase.get('script', []):
            if a['cmd'] == 'reload_workflow' and a['at'] <= self.drv.bus.it:
                act = a
        variant = (act or {}).get('variant', 'unchanged')
        removed = set((act or {}).get('removed_tasks', []))
        new_atoms = {tuple(x) for x in (act or {}).get('new_atoms', [])}
        self.n['reloads'] += 1
        self.n[f'reload:{variant}'] += 1
        A = {t['id']: t for t in after}
        msgs = self.case.get('messages', {})
        for b in before:
            tid = b['id']
            a = A.get(tid)
            self.n['tasks_compared'] += 1
            if b['name'] in removed:
                self.n['removed_definition_tasks'] += 1
                started = b['status'] not in ('waiting',)
                if a is None and started:
                    self.v('started-orphan-dropped',
                           f'{tid} ({b["status"]}) was dropped by the reload '
                           'although it had started (its definition was '
                           'removed)', {'before': b})
                continue
            if a is None:
                self.v('task-lost-on-reload',
                       f'{tid} ({b["status"]}) disappeared from the pool on '
                       f'reload ({variant} definition)', {'before': b})
                continue
            for fld in ('status', 'flows', 'submit_num', 'held', 'queued',
                        'runahead', 'outputs'):
                if a[fld] != b[fld]:
                    self.v(f'{fld}-not-preserved',
                           f'{tid}: {fld} {b[fld]!r} before reload, '
                           f'{a[fld]!r} after ({variant} definition)',
                           {'before': b, 'after': a})
            pb = {(x[0], x[1], x[2]): x[3] for x in b['prereqs']}
            pa = {(x[0], x[1], x[2]): x[3] for x in a['prereqs']}
            for key, sat in pa.items():
                if key in pb:
                    self.n['kept_prereqs_compared'] += 1
                    if pb[key] != sat:
                        self.v('prerequisite-satisfaction-changed',
                               f'{tid}: prerequisite {key} was '
                               f'{pb[key]} before reload and {sat} after',
                               {'before': b, 'after': a})
                else:
                    self.n['new_prereqs_checked'] += 1
                    # new prerequisite: satisfied only from recorded outputs
                    pt, name, msg = key
                    out = msg
                    for o, text in msgs.get(name, {}).items():
                        if text == msg:
                            out = o
                    recorded = (pt, name, out) in self.told
                    if sat and not recorded and int(pt) >= self.gt['initial']:
                        self.v('new-prerequisite-satisfied-without-record',
                               f'{tid}: new prerequisite {key} is satisfied '
                               'after reload but that output was never '
                               'recorded', {'after': a})
                    if recorded:
                        self.n['new_prereq_on_recorded_output'] += 1
                        if sat:
                            self.n['new_prereq_satisfied_from_record'] += 1
        for tid, a in A.items():
            if tid not in {b['id'] for b in before}:
                self.v('task-appeared-on-reload',
                       f'{tid} appeared in the pool during reload',
                       {'after': a})


class C33Xtriggers(Base):
    """Xtrigger call discipline per function signature."""
    NAME = 'c33'
    PID = 'C33'
    K = 6

    def __init__(self, case, phase):
        super().__init__(case, phase)
        self.in_flight: Dict[str, int] = {}
        self.last_call: Dict[str, float] = {}
        self.succeeded: Dict[str, int] = {}     # sig -> iteration
        self.released: Set[str] = set()         # housekept after success
        self.unsat_for: Dict[Tuple[str, str], int] = {}

    def on_event(self, ev):
        k = ev['k']
        if k == 'XTRIG_CALL':
            sig = ev['sig']
            self.n['calls'] += 1
            if sig in self.in_flight:
                self.v('two-calls-in-flight',
                       f'{sig} called while a previous call is still in '
                       'progress', ev)
            self.in_flight[sig] = ev['it']
            last = self.last_call.get(sig)
            if last is not None and sig in self.released:
                # succeeded, then forgotten when no task needed it any more:
                # a new need starts a new polling sequence
                self.n['calls_after_release'] += 1
                last = None
            if last is not None:
                self.n['repeat_calls'] += 1
                gap = ev['vtime'] - last
                if gap + 1e-6 < ev['intvl']:
                    self.v('called-before-interval-elapsed',
                           f'{sig} called again after {gap:.1f}s, interval '
                           f'{ev["intvl"]}s', ev)
            self.last_call[sig] = ev['vtime']
            if sig in self.succeeded and sig not in self.released:
                self.v('called-again-after-success',
                       f'{sig} called again although it already succeeded '
                       f'at iteration {self.succeeded[sig]} and is still '
                       'needed', ev)
            self.released.discard(sig)
        elif k == 'XTRIG_RET':
            self.in_flight.pop(ev['sig'], None)
            if ev['ok']:
                self.n['successes'] += 1
                self.succeeded[ev['sig']] = ev['it']
                self.released.discard(ev['sig'])
        elif k == 'XTRIG_HOUSEKEEP':
            for sig in list(self.succeeded):
                if sig not in ev['needed']:
                    # nothing in the pool needs it any more: a later task
                    # needing it may legitimately call it again
                    self.released.add(sig)

    def after_iter(self, drv, pool_snap):
        schd = drv.schd
        seen = set()
        for itask in schd.pool.get_tasks():
            for label, sat in itask.state.xtriggers.items():
                if label.startswith('_cylc'):
                    continue
                try:
                    sig = schd.xtrigger_mgr.get_xtrig_ctx(
                        itask, label).get_signature()
                except Exception:
                    continue
                key = (itask.identity, label)
                if sig in self.succeeded and sig not in self.released \
                        and not sat and \
                        itask.state.status == 'waiting' and \
                        not itask.state.is_runahead:
                    seen.add(key)
                    c = self.unsat_for.get(key, 0) + 1
                    self.unsat_for[key] = c
                    self.n['dependent_waits'] += 1
                    if c == self.K + 1:
                        self.v('dependent-not-satisfied-after-success',
                               f'{itask.identity} still has xtrigger '
                               f'{label} unsatisfied {c} iterations after '
                               f'{sig} succeeded', {'sig': sig})
                elif sat:
                    self.n['dependents_satisfied_obs'] += 1
        for key in list(self.unsat_for):
            if key not in seen:
                del self.unsat_for[key]


IMPLIED = {'succeeded': ['submitted', 'started'],
           'failed': ['submitted', 'started'], 'started': ['submitted'],
           'submit-failed': [], 'submitted': [], 'expired': []}


class C29Set(Base):
    """`cylc set`: outputs behave like naturally completed outputs."""
    NAME = 'c29'
    PID = 'C29'
    K = 8

    def __init__(self, case, phase):
        super().__init__(case, phase)
        self.cur = None
        self.pre_all: Dict[str, int] = {}   # id -> ready iterations

    def on_event(self, ev):
        k = ev['k']
        if k == 'SET_IN':
            self.cur = {'in': ev, 'msgs': [], 'adds': [], 'states': []}
        elif self.cur is not None and k == 'MSG_OUT' and ev.get('forced'):
            self.cur['msgs'].append(ev)
        elif self.cur is not None and k == 'POOL_ADD':
            self.cur['adds'].append(ev['task'])
        elif self.cur is not None and k == 'STATE':
            self.cur['states'].append(ev)
        elif k == 'SET_OUT' and self.cur is not None:
            cur, self.cur = self.cur, None
            self.judge(cur, ev)
        elif k == 'PREP':
            for t in ev['tasks']:
                self.pre_all.pop(t['id'], None)

    def judge(self, cur, out):
        sin = cur['in']
        gt = self.gt
        before = {t['id']: t for t in sin['pool']}
        after = {t['id']: t for t in out['pool']}
        self.n['set_commands'] += 1
        targets = [i for i in sin['items']
                   if not any(c in i for c in '*?[')]
        msgs = self.case.get('messages', {})
        # (c) never puts a task into submitted/running
        for st in cur['states']:
            if st['after'][0] in ('submitted', 'running') and \
                    st['before'][0] != st['after'][0]:
                self.v('set-made-task-active',
                       f'{st["id"]} went {st["before"][0]} -> '
                       f'{st["after"][0]} during cylc set', st)
        if sin['prereqs']:
            self.n['set_prereqs'] += 1
            for tid in targets:
                a = after.get(tid)
                if a is None:
                    continue
                p, n = split_id(tid)
                if n not in gt['tasks']:
                    continue
                # only prerequisites the task actually has
                gt_atoms = set()
                for ar in wfgen.arrows_at(gt, n, p):
                    for at in wfgen.atoms(ar):
                        q = wfgen.atom_point(at, p)
                        outs = ['succeeded', 'failed'] \
                            if at[3] == 'finished' else [at[3]]
                        for o in outs:
                            gt_atoms.add((str(q), at[1],
                                          msgs.get(at[1], {}).get(o, o)))
                have = {(x[0], x[1], x[2]) for x in a['prereqs']}
                self.n['prereq_key_checks'] += 1
                if not have <= gt_atoms:
                    self.v('set-pre-added-foreign-prerequisite',
                           f'{tid} has prerequisites '
                           f'{sorted(have - gt_atoms)[:3]} that the graph '
                           'does not give it', a)
                if sin['prereqs'] == ['all']:
                    if not all(x[3] for x in a['prereqs']):
                        self.v('set-pre-all-left-unsatisfied',
                               f'{tid}: some prerequisites unsatisfied '
                               'after set --pre=all', a)
                    self.pre_all[tid] = 0
            return
        # outputs
        self.n['set_outputs'] += 1
        for tid in targets:
            p, n = split_id(tid)
            if n not in gt['tasks'] or p not in wfgen.task_points(gt, n):
                continue
            mine = [m for m in cur['msgs'] if m['id'] == tid]
            b = before.get(tid)
            final = set(mine[-1]['outputs_after']) if mine else (
                set(b['outputs']) if b else None)
            if final is None:
                self.n['target_not_observed'] += 1
                continue
            req = list(sin['outputs'])
            if not req:
                if wfgen.effective_mode(gt, n) == 'fail_required':
                    continue
                want = set(wfgen.required_outputs(gt, n)) | {
                    'submitted', 'started', 'succeeded'}
                kind = 'default'
            else:
                want = set()
                for o in req:
                    if o in wfgen.STD or o in gt['tasks'][n]['outputs']:
                        want.add(o)
                        want.update(IMPLIED.get(o, []))
                kind = 'explicit'
            self.n[f'output_checks_{kind}'] += 1
            missing = want - final
            if missing:
                self.v(f'set-outputs-incomplete:{kind}',
                       f'{tid}: cylc set --out={req or "(default)"} left '
                       f'{sorted(missing)} incomplete (completed: '
                       f'{sorted(final)})', {'msgs': mine[-3:]})
            # children spawned are GT children of newly completed outputs
            base = set(b['outputs']) if b else set()
            new = final - base
            kids = set()
            for o in new:
                kids |= {f'{q}/{c}' for c, q in gt_children(gt, n, p, o)}
            for t in cur['adds']:
                if t['id'] == tid:
                    continue
                self.n['spawn_checks'] += 1
                if t['name'] == n and int(t['point']) > p and (
                        not t['prereqs'] or gt['tasks'][n]['sequential']
                        # (parentless in effect: all parents pre-initial)
                        or all(int(x[0]) < gt['initial']
                               for x in t['prereqs'])):
                    # the next parentless (or sequential) instance of the
                    # same task: spawned by the pool, not by the graph
                    self.n['spawned_parentless_successor'] += 1
                    continue
                if t['id'] not in kids and len(targets) == 1:
                    self.v('set-spawned-non-child',
                           f'{t["id"]} was added to the pool by cylc set on '
                           f'{tid} outputs {sorted(new)} but is not a graph '
                           'child of them', t)
            flows_ok = True
            for kid in kids:
                a = after.get(kid)
                if a is None or a['status'] != 'waiting':
                    continue
                for x in a['prereqs']:
                    if (x[0], x[1]) == (str(p), n):
                        oname = x[2]
                        for o2, text in msgs.get(n, {}).items():
                            if text == x[2]:
                                oname = o2
                        if oname in new and kid not in before:
                            self.n['child_atom_checks'] += 1
                            if not x[3]:
                                self.v('set-child-prerequisite-unsatisfied',
                                       f'{kid} spawned by cylc set on {tid}:'
                                       f'{oname} but that prerequisite is '
                                       'unsatisfied', a)

    def after_iter(self, drv, pool_snap):
        schd = drv.schd
        if schd.is_paused or schd.stop_mode or schd.reload_pending:
            return
        pool = {t['id']: t for t in pool_snap}
        for tid in list(self.pre_all):
            t = pool.get(tid)
            if t is None or t['status'] != 'waiting':
                self.pre_all.pop(tid, None)
                continue
            td = self.gt['tasks'].get(t['name'])
            lim = self.gt['queues'].get(td['queue'], {}).get('limit', 0) \
                if td else 0
            ready = (all(x[3] for x in t['prereqs']) and not t['held']
                     and not t['runahead'] and not lim
                     and all(t['xtriggers'].values()))
            if not ready:
                self.pre_all[tid] = 0
                continue
            self.pre_all[tid] += 1
            self.n['pre_all_ready_iterations'] += 1
            if self.pre_all[tid] == self.K + 1:
                self.v('set-pre-all-task-did-not-run',
                       f'{tid}: all prerequisites satisfied by cylc set, '
                       f'not held, released, yet not prepared after '
                       f'{self.K + 1} iterations', t)


class C30Remove(Base):
    """Removing a task undoes exactly its effects."""
    NAME = 'c30'
    PID = 'C30'

    def __init__(self, case, phase):
        super().__init__(case, phase)
        self.cur = None
        self.db_checks = []     # (iteration, target, removed flows)
        self.hist_checks = []
        self.hist_before = None

    def on_event(self, ev):
        if ev['k'] == 'POOL_ADD':
            # (a removed task can be spawned again, and even finish and
            # leave the pool again, before the iteration's DB commit)
            if not hasattr(self, 'readded'):
                self.readded = {}
            self.readded[ev['task']['id']] = self.drv.bus.it
        elif ev['k'] == 'REMOVE_IN':
            self.cur = ev
            # committed history of every task before the command
            self.hist_before = self.read_history()
        elif ev['k'] == 'REMOVE_OUT' and self.cur is not None:
            rin, self.cur = self.cur, None
            self.judge(rin, ev)
            self.hist_checks.append(
                [self.drv.bus.it, self.hist_before, set(rin['ids']),
                 set(rin['flow_nums']),
                 {t['id']: set(t['flows']) for t in rin['pool']}])

    def read_history(self):
        """{table: {'P/N': set of flow numbers with a row}} from the
        committed private DB (None if unreadable)."""
        import json as _json
        import sqlite3 as _sq
        path = self.drv.schd.workflow_db_mgr.pri_path
        out = {}
        try:
            con = _sq.connect(f'file:{path}?mode=ro', uri=True, timeout=5)
        except _sq.Error:
            return None
        try:
            for table in ('task_states', 'task_outputs'):
                d = out.setdefault(table, {})
                for cyc, name, fn in con.execute(
                        f'SELECT cycle, name, flow_nums FROM {table}'):
                    try:
                        d.setdefault(f'{cyc}/{name}', set()).update(
                            _json.loads(fn))
                    except ValueError:
                        pass
        except _sq.Error:
            return None
        finally:
            con.close()
        return out

    def check_bystander_history(self, drv):
        """After the iteration's commit: history rows of tasks that were
        not targets lose at most the flows in which a child was removed."""
        todo = [c for c in self.hist_checks if c[0] <= drv.bus.it]
        if not todo:
            return
        self.hist_checks = [c for c in self.hist_checks if c[0] > drv.bus.it]
        now = self.read_history()
        if now is None:
            return
        # several removals executed in one iteration (commands, and the
        # removals a group trigger does) are committed together
        all_targets = set()
        for c in todo:
            all_targets |= c[2]
        before = todo[0][1]
        if before is None:
            return
        for table, rows in before.items():
            for tid, flows in rows.items():
                if tid in all_targets:
                    continue
                self.n['bystander_history_checks'] += 1
                lost = flows - now.get(table, {}).get(tid, set())
                if not lost:
                    continue
                # a child stood down by a removal may lose the flows it
                # was removed from (its own flows, within that command's
                # selection)
                allowed = set()
                for _it, _b, _t, fl, pool_flows in todo:
                    mine = pool_flows.get(tid, set())
                    allowed |= (mine & fl) if fl else mine
                if lost - allowed:
                    self.v(f'bystander-history-erased:{table}',
                           f'{tid}: {table} rows for flows '
                           f'{sorted(lost - allowed)} disappeared during '
                           f'the removal of {sorted(all_targets)} (flow '
                           f'selections {[sorted(c[3]) for c in todo]}; it '
                           f'could lose {sorted(allowed)})',
                           {'before': sorted(flows)})

    def judge(self, rin, rout):
        gt = self.gt
        before = {t['id']: t for t in rin['pool']}
        after = {t['id']: t for t in rout['pool']}
        fl = set(rin['flow_nums'])
        targets = [i for i in rin['ids']]
        self.n['remove_commands'] += 1
        touched = set(targets)
        removed_flows = {}
        for tid in targets:
            b = before.get(tid)
            p, n = split_id(tid)
            if n not in gt['tasks']:
                continue
            if b is not None:
                rem = set(b['flows']) if not fl or not b['flows'] \
                    else set(b['flows']) & fl
                removed_flows[tid] = rem
                a = after.get(tid)
                self.n['target_checks'] += 1
                if rem and rem == set(b['flows']):
                    if a is not None:
                        self.v('target-still-in-pool',
                               f'{tid} (flows {b["flows"]}) still in the '
                               f'pool after removal from flows '
                               f'{sorted(fl) or "all"}', a)
                elif rem:
                    self.n['partial_flow_removals'] += 1
                    if a is None or set(a['flows']) != set(b['flows']) - rem:
                        self.v('target-flows-wrong',
                               f'{tid}: flows {b["flows"]} minus {sorted(rem)}'
                               f' expected, got '
                               f'{a["flows"] if a else "task removed"}',
                               {'before': b, 'after': a})
            else:
                removed_flows[tid] = fl
            self.db_checks.append([self.drv.bus.it, tid,
                                   sorted(removed_flows[tid]), bool(fl)])
            # children
            kids = set()
            for o in list(wfgen.STD) + list(gt['tasks'][n]['outputs']):
                kids |= {f'{q}/{c}' for c, q in gt_children(gt, n, p, o)}
            touched |= kids
            for kid in kids:
                kb = before.get(kid)
                if kb is None or kid in targets:
                    continue
                ka = after.get(kid)
                kflows = set(kb['flows'])
                krem = kflows if not fl or not kflows else kflows & fl
                mine_b = [x for x in kb['prereqs']
                          if (x[0], x[1]) == (str(p), n)]
                if not krem:
                    # child not in the removed flows: must be untouched
                    if ka is None or ka['prereqs'] != kb['prereqs']:
                        self.v('child-in-other-flow-changed',
                               f'{kid} (flows {kb["flows"]}) changed although'
                               f' {tid} was removed from {sorted(fl)} only',
                               {'before': kb, 'after': ka})
                    continue
                expect = []
                tset = set(targets)     # (one command may remove several)
                for x in kb['prereqs']:
                    y = list(x)
                    if f'{x[0]}/{x[1]}' in tset and x[3] and \
                            x[4] != 'force satisfied':
                        y[3], y[4] = False, None
                        self.n['natural_atoms_unset_expected'] += 1
                    elif f'{x[0]}/{x[1]}' in tset and \
                            x[4] == 'force satisfied':
                        self.n['forced_atoms_kept_expected'] += 1
                    expect.append(y)
                any_sat = any(y[3] for y in expect)
                must_go = (kb['status'] == 'waiting' and not kb['wojp']
                           and krem == kflows and expect and not any_sat
                           and expect != [list(x) for x in kb['prereqs']])
                self.n['child_checks'] += 1
                if must_go:
                    self.n['children_expected_removed'] += 1
                    if ka is not None:
                        self.v('orphaned-child-not-removed',
                               f'{kid} has no satisfied prerequisite left '
                               f'after removing {tid} but stayed in the pool',
                               {'before': kb, 'after': ka})
                else:
                    if ka is None:
                        self.v('child-removed-wrongly',
                               f'{kid} ({kb["status"]}, flows {kb["flows"]}) '
                               f'was removed with {tid} although it is '
                               'active, in another flow, or still has a '
                               'satisfied prerequisite',
                               {'before': kb})
                        continue
                    got = sorted([x[0], x[1], x[2], x[3]]
                                 for x in ka['prereqs'])
                    want = sorted([y[0], y[1], y[2], y[3]] for y in expect)
                    if got != want:
                        forced_lost = any(
                            x[4] == 'force satisfied' for x in mine_b) and \
                            not any(x[3] for x in ka['prereqs']
                                    if (x[0], x[1]) == (str(p), n))
                        self.v('child-prerequisites-wrong' + (
                            ':forced-unset' if forced_lost else ''),
                            f'{kid}: prerequisites after removing {tid} are '
                            f'{got}, expected {want}',
                            {'before': kb, 'after': ka})
        # everything else unchanged
        for tid, b in before.items():
            if tid in touched:
                continue
            a = after.get(tid)
            self.n['bystander_checks'] += 1
            if a is None:
                self.v('bystander-removed',
                       f'{tid} disappeared during removal of {targets}',
                       {'before': b})
                continue
            for fld in ('status', 'flows', 'outputs', 'prereqs'):
                if fld == 'flows' and set(b[fld]) <= set(a[fld]):
                    # (a removal moves the runahead base: tasks spawned by
                    # the release may merge their flows into a bystander)
                    if a[fld] != b[fld]:
                        self.n['bystander_flows_merged'] += 1
                    continue
                if a[fld] != b[fld]:
                    self.v(f'bystander-changed:{fld}',
                           f'{tid}: {fld} changed during removal of '
                           f'{targets}: {b[fld]} -> {a[fld]}',
                           {'before': b, 'after': a})

    def after_iter(self, drv, pool_snap):
        self.check_bystander_history(drv)
        # history rows: after the iteration's DB commit
        todo = [c for c in self.db_checks if c[0] <= drv.bus.it]
        if not todo:
            return
        self.db_checks = [c for c in self.db_checks if c[0] > drv.bus.it]
        import json as _json
        import sqlite3 as _sq
        path = drv.schd.workflow_db_mgr.pri_path
        try:
            con = _sq.connect(f'file:{path}?mode=ro', uri=True, timeout=5)
        except _sq.Error:
            return
        try:
            for it, tid, rem, explicit in todo:
                p, n = tid.split('/', 1)
                for table in ('task_states', 'task_outputs'):
                    rows = con.execute(
                        f'SELECT flow_nums FROM {table} WHERE cycle=? AND '
                        'name=?', (p, n)).fetchall()
                    self.n['history_row_checks'] += 1
                    for (fn,) in rows:
                        flows = set(_json.loads(fn))
                        bad = flows & set(rem) if explicit else flows
                        # a task re-added to the pool in the same iteration
                        # legitimately has a new row
                        in_pool = any(t['id'] == tid for t in pool_snap) \
                            or getattr(self, 'readded', {}).get(
                                tid, -1) >= it
                        if bad and not in_pool:
                            self.v(f'history-not-erased:{table}',
                                   f'{tid}: {table} still has a row for '
                                   f'flows {sorted(flows)} after removal '
                                   f'from {rem or "all flows"}',
                                   {'rows': [r[0] for r in rows]})
        finally:
            con.close()
