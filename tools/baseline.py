#!/venv/bin/python
"""Run the repository's own test suite (hooks are off by construction: there
are none in the source) with xdist and compare with BASELINE.json.

usage: tools/baseline.py [-n WORKERS]
Exit 0 iff every stable_pass test of the baseline passed.
"""
import json
import os
import subprocess
import sys
import tempfile
import xml.etree.ElementTree as ET

n = '14'
if '-n' in sys.argv:
    n = sys.argv[sys.argv.index('-n') + 1]
base = json.load(open('/root/.vp/BASELINE.json'))
stable = set(base['stable_pass'])
d = tempfile.mkdtemp(prefix='baseline-', dir='/dev/shm')
xml = os.path.join(d, 'junit.xml')
env = dict(os.environ)
env.pop('CYLC_FLOW_VERIF', None)
env['TMPDIR'] = d
subprocess.run(
    ['/venv/bin/python', '-m', 'pytest', '-q', '-p', 'no:cacheprovider',
     '--timeout=900', '--continue-on-collection-errors', '-n', n,
     f'--junitxml={xml}'],
    cwd='/repo', env=env, stdout=open(os.path.join(d, 'log'), 'w'),
    stderr=subprocess.STDOUT)
passed, failed = set(), set()
for tc in ET.parse(xml).getroot().iter('testcase'):
    tid = f"{tc.get('classname')}::{tc.get('name')}"
    bad = any(c.tag in ('failure', 'error') for c in tc)
    skipped = any(c.tag == 'skipped' for c in tc)
    if bad:
        failed.add(tid)
    elif not skipped:
        passed.add(tid)
missing = sorted(stable - passed)
print(f'passed={len(passed)} failed={len(failed)} '
      f'stable_pass={len(stable)} stable_not_passed={len(missing)}')
for m in missing[:40]:
    print('  NOT PASSED:', m, '(failed)' if m in failed else '(absent/skipped)')
import shutil
shutil.rmtree(d, ignore_errors=True)
sys.exit(1 if missing else 0)
