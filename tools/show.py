#!/usr/bin/env python3
"""Compact view of replay files: tools/show.py replays/C01/*.json"""
import json, sys
for f in sys.argv[1:]:
    v = json.load(open(f))
    d = v.get('detail') or {}
    print('=====', v['key'], '|', v['what'][:200])
    fl = d.get('flow')
    if fl:
        a = fl.index('[scheduling]'); b = fl.index('[runtime]')
        print(fl[a:b].rstrip())
    for k in ('submitted', 'model_run', 'model_stuck', 'ended', 'harness_end', 'policy', 'iteration'):
        if k in d: print(f'  {k}: {d[k]}')
    if 'plans' in d:
        print('  non-succeeding plans:', {k: [(t['result'], t['outputs'], t['submit_ok']) for t in p['tries']] for k, p in d['plans'].items() if any(t['result'] != 'succeeded' or not t['submit_ok'] for t in p['tries'])})
    if 'detail' in d and d['detail']:
        print('  detail:', json.dumps(d['detail'])[:1500])
