"""C22 Broadcasts override in precedence order and persist exactly (E2 half).

Monitor shape: a real `BroadcastMgr` on a real loaded `WorkflowConfig` with
a real `WorkflowDatabaseManager` (real SQLite files) is driven through
random histories of put / clear / expire.  After every operation the whole
broadcast state, `get_broadcast(tokens)` for every task x probe cycle and
`get_updated_rtconfig` for real task proxies are compared with the
dictionary model `vlib.models.c22_bcast` (written from the property
statement).  At random points (always at the end) the queued DB operations
are flushed and the private DB is loaded into a *fresh* BroadcastMgr, which
must hold the same state and give the same answers; sometimes the history
continues on the fresh manager (a restart).
"""
from __future__ import annotations

import copy
import os
import shutil
import sqlite3
import types

from vlib.models import c22_bcast as M

PID = 'C22'
META = {
    'engine': 'E2 funcmon',
    'level': 'exploration',
    'technique': 'history monitor: real BroadcastMgr + real DB manager vs '
                 'dictionary model; DB reload into a fresh manager after '
                 'flushes',
    'level_text': (
        'Random histories (8-12 operations) of put/clear/expire with '
        'all-cycle and specific points (canonical and zero padded, integer '
        'and date-time cycling), task and family namespaces of multiple-'
        'inheritance hierarchies, string / interval / list / boolean '
        'settings in nested sections, single-path settings as the CLI sends '
        'them and multi-key dictionaries as the API can send them, '
        'including rejected points, namespaces and settings. Held = on '
        'every history explored the in-memory state, every task\'s '
        'get_broadcast / get_updated_rtconfig answer and the state '
        'reloaded from the DB equalled the model after every step.'),
    'level_note': 'The scheduler is a namespace holding the real config, '
                  'DB manager and a counting data-store stub; the '
                  'scheduler-level half (commands, restart) is E1. Own C3 '
                  'linearisation is cross-checked against the config.',
    'design_ref': 'DESIGN.md §5 C22',
    'budget': {'quick': 90, 'thorough': 900},
}
RULE = ('case = (configuration, single-path or multi-key mode, operation '
        'list, flush/restart points); indices 0-31 are one two-key put '
        'followed by a reload (smallest multi-key histories); distinct by '
        'that tuple; non-trivial '
        'when at least 2 puts were applied, at least one clear or expire '
        'removed a setting, and a DB reload was compared while broadcasts '
        'were present')
ASSUMPTIONS = [
    'setting values are text (as the CLI and UI send them); text values '
    'carry no surrounding quotes; expected in-memory values: text stripped '
    'of surrounding blanks, ISO 8601 durations as seconds, comma lists '
    'with N* multipliers expanded',
    'points given to clear/expire are canonical; put also gets zero-padded '
    'integer points which denote the same point',
    'expire is always called with a cutoff',
    'setting and section names contain no square brackets',
    'platform / [remote] / [job] settings (mutually exclusive families) '
    'are not broadcast',
]
MIN = {
    'quick': {'histories': 1200, 'ops_put': 4000, 'ops_clear': 1500,
              'ops_expire': 700, 'state_checks': 8000,
              'get_broadcast_checks': 100000, 'rtconfig_checks': 8000,
              'reload_checks': 3000, 'reload_nonempty': 1500,
              'restarts_continued': 300, 'clear_removed_some': 600,
              'expire_removed_some': 250, 'precedence_conflicts': 3000,
              'singlepath_histories_clean_end': 500},
    'thorough': {'histories': 12000, 'ops_put': 40000, 'ops_clear': 15000,
                 'ops_expire': 7000, 'state_checks': 80000,
                 'get_broadcast_checks': 1000000, 'rtconfig_checks': 80000,
                 'reload_checks': 30000, 'reload_nonempty': 15000,
                 'restarts_continued': 3000, 'clear_removed_some': 6000,
                 'expire_removed_some': 2500, 'precedence_conflicts': 30000,
                 'singlepath_histories_clean_end': 5000},
}
NCASES = {'quick': 1600, 'thorough': 16000}


def ncases(tier):
    return NCASES[tier]


# --------------------------------------------------------------------------
# configurations
# --------------------------------------------------------------------------
RUNTIME = '''
[runtime]
    [[root]]
        script = echo root
        [[[environment]]]
            ROOT_VAR = r
            SHARED = from-root
        [[[meta]]]
            title = static title
    [[FAM_A]]
        pre-script = echo pre A
        [[[environment]]]
            SHARED = from-A
            A_ONLY = a
    [[FAM_B]]
        execution time limit = PT10M
        [[[environment]]]
            SHARED = from-B
        [[[directives]]]
            --mem = 1G
    [[SUB_A]]
        inherit = FAM_A
        execution retry delays = PT1M, 2*PT2M
    [[t1]]
        inherit = SUB_A
    [[t2]]
        inherit = FAM_A, FAM_B
    [[t3]]
        inherit = FAM_B, FAM_A
    [[t4]]
        inherit = SUB_A, FAM_B
        script = echo t4
        [[[events]]]
            execution timeout = PT3M
    [[solo]]
'''
PARENTS = {'FAM_A': [], 'FAM_B': [], 'SUB_A': ['FAM_A'], 't1': ['SUB_A'],
           't2': ['FAM_A', 'FAM_B'], 't3': ['FAM_B', 'FAM_A'],
           't4': ['SUB_A', 'FAM_B'], 'solo': []}
TASKS = ['t1', 't2', 't3', 't4', 'solo']
NAMESPACES = ['root', 'FAM_A', 'FAM_B', 'SUB_A'] + TASKS

CONFIGS = [
    {
        'name': 'integer',
        'head': '''
[scheduler]
    allow implicit tasks = True
[scheduling]
    cycling mode = integer
    initial cycle point = 1
    [[graph]]
        P1 = t1 & t2 & t3 & t4 & solo
''',
        'points': ['1', '2', '3', '9', '10', '11', '100'],
        'alt': {'01': '1', '002': '2', '09': '9', '010': '10', '+3': '3'},
        'bad': ['x1', '1.5', '20200101T0000Z', 'all-cycles', ''],
    },
    {
        'name': 'iso8601',
        'head': '''
[scheduler]
    allow implicit tasks = True
    UTC mode = True
[scheduling]
    initial cycle point = 20200101T0000Z
    [[graph]]
        P1D = t1 & t2 & t3 & t4 & solo
''',
        'points': ['20200101T0000Z', '20200102T0000Z', '20200103T0000Z',
                   '20200109T0000Z', '20200110T0000Z', '20200111T0000Z',
                   '20210101T0000Z'],
        'alt': {},
        'bad': ['x1', '1.5', 'all-cycle-points', '2020-13-01'],
    },
]


def std_point_for(conf):
    pts = set(conf['points'])

    def std(p):
        if p in pts:
            return p
        return conf['alt'].get(p)
    return std


def point_lt_for(conf):
    if conf['name'] == 'integer':
        return lambda a, b: int(a) < int(b)
    # canonical, same format, same time zone: text order is time order
    return lambda a, b: a < b


# --------------------------------------------------------------------------
# settings catalogue: path -> kind
# --------------------------------------------------------------------------
STR_PATHS = (
    [('script',), ('pre-script',), ('post-script',), ('env-script',),
     ('err-script',), ('exit-script',), ('init-script',),
     ('work sub-directory',), ('mail', 'to'),
     ('workflow state polling', 'message')]
    + [('environment', v) for v in
       ('A', 'B', 'SHARED', 'ROOT_VAR', 'A_ONLY', 'lower_case', 'X1')]
    + [('directives', k) for k in
       ('--mem', '-l walltime', '-q', '--ntasks-per-node')]
    + [('meta', k) for k in ('title', 'description', 'URL', 'custom key')]
    # the same leaf name in different sections
    + [('environment', 'script'), ('meta', 'script'), ('directives', 'title')]
    + [('outputs', 'out1'), ('parameter environment templates', 'P')]
)
DUR_PATHS = [('execution time limit',), ('events', 'execution timeout'),
             ('events', 'submission timeout'),
             ('simulation', 'default run length'),
             ('workflow state polling', 'interval')]
DURLIST_PATHS = [('execution retry delays',), ('submission retry delays',),
                 ('execution polling intervals',),
                 ('events', 'handler retry delays')]
STRLIST_PATHS = [('events', 'handlers'), ('events', 'failed handlers'),
                 ('environment filter', 'include')]
BOOL_PATHS = [('simulation', 'fail try 1 only'),
              ('skip', 'disable task event handlers')]
NUM_PATHS = [(('simulation', 'speedup factor'), float),
             (('workflow state polling', 'max-polls'), int)]

STR_VALUES = ['true', 'echo "hi there"', "it's", 'a=b', 'line1\nline2',
              'unicode é λ 日本', 'x # not a comment', 'pct %(foo)s ${BAR#x}',
              'has [brackets] inside', 'None', '0', 'with, comma', 'PT1M',
              'tab\tinside', 'back\\slash', '*', '[environment]A=1',
              'x' * 300, 'semi;colon', '{{ jinja }}', '-1', '😀']
DUR_VALUES = [('PT1S', 1.0), ('PT90S', 90.0), ('PT1M', 60.0),
              ('PT15M', 900.0), ('PT2H', 7200.0), ('P1D', 86400.0),
              ('PT1H30M', 5400.0), ('PT0S', 0.0), ('P1DT1S', 86401.0)]


def gen_leaf(rng):
    """(path, raw text, wanted value)."""
    r = rng.random()
    if r < 0.6:
        path = rng.choice(STR_PATHS)
        raw = rng.choice(STR_VALUES)
        want = raw
        if rng.random() < 0.08:
            raw = rng.choice([' ', '  ']) + raw + rng.choice([' ', ''])
        return path, raw, want
    if r < 0.75:
        raw, want = rng.choice(DUR_VALUES)
        return rng.choice(DUR_PATHS), raw, want
    if r < 0.87:
        n = rng.randint(1, 3)
        raws, wants = [], []
        for _ in range(n):
            raw, want = rng.choice(DUR_VALUES)
            m = rng.choice([1, 1, 2, 3])
            raws.append(raw if m == 1 else f'{m}*{raw}')
            wants.extend([want] * m)
        return (rng.choice(DURLIST_PATHS),
                rng.choice([', ', ',']).join(raws), wants)
    if r < 0.94:
        items = rng.sample(['echo a', 'handler.sh %(event)s', 'x y z',
                            'mail-me'], rng.randint(1, 3))
        return rng.choice(STRLIST_PATHS), ', '.join(items), items
    if r < 0.97:
        b = rng.choice([True, False])
        return rng.choice(BOOL_PATHS), str(b), b
    path, typ = rng.choice(NUM_PATHS)
    v = rng.choice([1, 2, 5, 10]) if typ is int else rng.choice(
        [0.5, 2.0, 2.5, 10.0])
    return path, str(v), v


def build_setting(leaves):
    """Nested dict from [(path, raw)], insertion order = given order."""
    out = {}
    for path, raw in leaves:
        d = out
        for s in path[:-1]:
            d = d.setdefault(s, {})
        d[path[-1]] = raw
    return out


INVALID_SETTINGS = [
    {'bogus item': 'x'},
    {'environment': 'not a section'},
    {'script': {'should be': 'a setting'}},
    {'execution time limit': 'not a duration'},
    {'events': {'no such event setting': 'x'}},
    {'simulation': {'fail try 1 only': 'maybe'}},
]


def gen_settings(rng, multikey):
    """[(setting dict, valid, {path: want})]."""
    out = []
    for _ in range(rng.choice([1, 1, 1, 2, 3])):
        if rng.random() < 0.06:
            out.append((copy.deepcopy(rng.choice(INVALID_SETTINGS)),
                        False, {}))
            continue
        nleaves = rng.choice([2, 2, 3, 4, 5]) if multikey and \
            rng.random() < 0.75 else 1
        leaves, wants = [], {}
        for _ in range(nleaves):
            path, raw, want = gen_leaf(rng)
            if path in wants:
                continue
            leaves.append((path, raw))
            wants[path] = want
        out.append((build_setting(leaves), True, wants))
    return out


# --------------------------------------------------------------------------
# harness around the real objects
# --------------------------------------------------------------------------
class DataStoreStub:
    def __init__(self):
        self.deltas = 0

    def delta_broadcast(self):
        self.deltas += 1


def plain(d):
    """Recursive plain-dict copy of an (ordered, defaulting) dict."""
    if isinstance(d, dict):
        return {k: plain(v) for k, v in d.items()}
    if isinstance(d, list):
        return list(d)
    return d


class World:
    """One case: config, DB files, live manager, model."""

    def __init__(self, ctx, conf):
        from cylc.flow.config import WorkflowConfig
        from optparse import Values
        self.ctx = ctx
        self.conf = conf
        base = os.path.join(ctx.workdir, 'c22')
        shutil.rmtree(base, ignore_errors=True)
        self.run_dir = os.path.join(base, 'run')
        self.pri_d = os.path.join(self.run_dir, '.service')
        self.pub_d = os.path.join(self.run_dir, 'log')
        os.makedirs(self.pri_d)
        os.makedirs(self.pub_d)
        flow = os.path.join(self.run_dir, 'flow.cylc')
        with open(flow, 'w') as f:
            f.write(conf['head'] + RUNTIME)
        self.cfg = WorkflowConfig(
            'c22', flow, Values(), run_dir=self.run_dir)
        self.real_anc = self.cfg.get_linearized_ancestors()
        self.anc = {n: M.c3(n, PARENTS) for n in NAMESPACES}
        self.static = {
            t: M.flatten(plain(self.cfg.get_taskdef(t).rtconfig))
            for t in TASKS}
        self.model = M.Model(NAMESPACES, std_point_for(conf),
                             point_lt_for(conf))
        self.ds = DataStoreStub()
        self.all_dbms = []
        self.live, self.dbm = self.new_manager(first=True)
        self.proxies = {}

    def new_manager(self, first):
        from cylc.flow.broadcast_mgr import BroadcastMgr
        from cylc.flow.run_modes import RunMode
        from cylc.flow.workflow_db_mgr import WorkflowDatabaseManager
        dbm = WorkflowDatabaseManager(self.pri_d, self.pub_d)
        dbm.on_workflow_start(is_restart=not first)
        self.all_dbms.append(dbm)
        schd = types.SimpleNamespace(
            config=self.cfg, workflow_db_mgr=dbm, data_store_mgr=self.ds,
            get_run_mode=lambda: RunMode.LIVE)
        mgr = BroadcastMgr(schd)
        mgr.linearized_ancestors.update(self.real_anc)
        return mgr, dbm

    def load_fresh(self):
        """Restart-side load of the private DB into a fresh manager."""
        mgr, dbm = self.new_manager(first=False)
        dbm.pri_dao.select_broadcast_states(mgr.load_db_broadcast_states)
        mgr.post_load_db_coerce()
        return mgr, dbm

    def proxy(self, task, cycle):
        from cylc.flow.cycling.loader import get_point
        from cylc.flow.id import Tokens
        from cylc.flow.task_proxy import TaskProxy
        key = (task, cycle)
        if key not in self.proxies:
            self.proxies[key] = TaskProxy(
                Tokens('~verif/c22'), self.cfg.get_taskdef(task),
                get_point(cycle))
        return self.proxies[key]

    def close(self):
        for dbm in self.all_dbms:
            dbm.on_workflow_shutdown()


def state_flat(mgr):
    """{(point, namespace, *path): value} of a manager's whole state."""
    return M.flatten(mgr.get_broadcast(None))


def model_flat(model):
    return {(p, ns) + path: leaf.want
            for (p, ns, path), leaf in model.leaves.items()}


def kind_of(missing, extra, different):
    return ('missing' if missing else 'extra' if extra else 'value')


def describe(op):
    return {k: v for k, v in op.items()
            if k not in ('settings_full', 'settings')}


class Stop(Exception):
    """End of the history after a recorded violation."""


def check_memory(ctx, w, mgr, op, hist, who='live'):
    """State, per-task answers and rtconfig against the model."""
    from cylc.flow.id import Tokens
    ctx.count('state_checks')
    got = state_flat(mgr)
    want = model_flat(w.model)
    mi, ex, di = M.diff_flat(got, want)
    if mi or ex or di:
        stage = op['op'] if who == 'live' else 'reload'
        what = {'put': {'missing': 'not-applied', 'extra': 'over-applied',
                        'value': 'wrong-value'},
                'clear': {'missing': 'over-removed', 'extra': 'not-removed',
                          'value': 'value-changed'},
                'expire': {'missing': 'over-removed', 'extra': 'not-removed',
                           'value': 'value-changed'}}[op['op']][
            kind_of(mi, ex, di)]
        ctx.violation(
            f'C22:{stage}-state:{what}',
            f'after {op["op"]} the broadcast state differs from the model: '
            f'missing {mi[:3]} extra {ex[:3]} different {di[:3]}',
            {'config': w.conf['name'], 'history': hist,
             'missing': mi[:10], 'extra': ex[:10],
             'different': [(k, repr(got[k]), repr(want[k]))
                           for k in di[:10]]})
        raise Stop()
    cycles = w.conf['points'][:6]
    for t in TASKS:
        root_first = list(reversed(w.anc[t]))
        for c in cycles:
            ctx.count('get_broadcast_checks')
            wantd = w.model.overrides(c, root_first)
            gotd = M.flatten(mgr.get_broadcast(Tokens(cycle=c, task=t)))
            mi, ex, di = M.diff_flat(gotd, wantd)
            if mi or ex or di:
                ctx.violation(
                    f'C22:get_broadcast-precedence:{kind_of(mi, ex, di)}',
                    f'get_broadcast({c}/{t}) disagrees with all-cycle '
                    f'root..task then own-cycle root..task order '
                    f'({root_first}): missing {mi[:3]} extra {ex[:3]} '
                    f'different {di[:3]}',
                    {'config': w.conf['name'], 'history': hist,
                     'task': t, 'cycle': c, 'got': repr(gotd)[:1500],
                     'want': repr(wantd)[:1500]})
                raise Stop()
    # how many probe answers needed precedence to decide a value?
    for t in TASKS:
        c = cycles[0]
        seen = {}
        for (p, ns, path) in w.model.leaves:
            if p in ('*', c) and ns in w.anc[t]:
                seen[path] = seen.get(path, 0) + 1
        ctx.count('precedence_conflicts',
                  sum(1 for n in seen.values() if n > 1))


def check_rtconfig(ctx, w, mgr, hist, rng):
    for t in rng.sample(TASKS, 2):
        c = rng.choice(w.conf['points'][:6])
        itask = w.proxy(t, c)
        ctx.count('rtconfig_checks')
        got = M.flatten(plain(mgr.get_updated_rtconfig(itask)))
        over = w.model.overrides(c, list(reversed(w.anc[t])))
        static = w.static[t]
        bad = []
        for path in set(got) | set(static) | set(over):
            if path in over:
                if path not in got or not M.same_value(got[path],
                                                       over[path]):
                    bad.append((path, 'override', repr(got.get(path)),
                                repr(over[path])))
            elif path in static:
                if path not in got or got[path] != static[path]:
                    bad.append((path, 'static', repr(got.get(path)),
                                repr(static[path])))
            else:
                bad.append((path, 'unexpected', repr(got[path]), None))
        if over:
            ctx.count('rtconfig_with_overrides')
        if bad:
            ctx.violation(
                f'C22:rtconfig:{bad[0][1]}-wrong',
                f'get_updated_rtconfig({c}/{t}): {bad[0][0]} is '
                f'{bad[0][2]}, expected {bad[0][3]}',
                {'config': w.conf['name'], 'history': hist, 'bad': bad[:8]})
            raise Stop()
        now = M.flatten(plain(w.cfg.get_taskdef(t).rtconfig))
        if now != static:
            ctx.violation(
                'C22:rtconfig:static-config-mutated',
                f'the static runtime configuration of {t} changed after '
                'get_updated_rtconfig',
                {'config': w.conf['name'], 'history': hist})
            raise Stop()


def db_rows(path):
    con = sqlite3.connect(path)
    try:
        return {(r[0], r[1], r[2]): r[3] for r in con.execute(
            'SELECT point, namespace, key, value FROM broadcast_states')}
    finally:
        con.close()


def check_reload(ctx, w, op, hist):
    """Flush, load into a fresh manager, compare.  Returns the fresh pair."""
    from cylc.flow.id import Tokens
    w.dbm.process_queued_ops()
    ctx.count('reload_checks')
    if w.model.leaves:
        ctx.count('reload_nonempty')
    fresh, fdbm = w.load_fresh()
    got = state_flat(fresh)
    want = model_flat(w.model)
    mi, ex, di = M.diff_flat(got, want)
    if mi or ex or di:
        rows = db_rows(os.path.join(w.pri_d, 'db'))
        exp_rows = w.model.db_rows()
        lost = [k for k in exp_rows if rows.get(k) != exp_rows[k].raw]
        stray = [k for k in rows if k not in exp_rows]
        if (not ex and not stray and lost
                and all(not exp_rows[k].first_path for k in lost)):
            ctx.violation(
                'C22:multikey-setting-partly-persisted',
                f'a multi-key settings dictionary was applied in memory '
                f'but only its first key path reached the DB: after '
                f'reload {len(mi)} setting(s) are gone and {len(di)} have '
                f'an older value, e.g. {(mi + di)[0]}',
                {'config': w.conf['name'], 'history': hist,
                 'lost_after_reload': mi[:10], 'stale_after_reload': di[:10],
                 'db_rows': sorted(map(list, rows))[:20]})
            ctx.count('history_cut_after_multikey')
        else:
            ctx.violation(
                f'C22:reload-differs:{kind_of(mi, ex, di)}',
                f'state reloaded from the DB differs: missing {mi[:3]} '
                f'extra {ex[:3]} different {di[:3]}',
                {'config': w.conf['name'], 'history': hist,
                 'missing': mi[:10], 'extra': ex[:10],
                 'different': [(k, repr(got[k]), repr(want[k]))
                               for k in di[:10]],
                 'db_rows': sorted(map(list, rows))[:30]})
        raise Stop()
    # identical answers from the live and the fresh manager
    live_state = state_flat(w.live)
    if live_state != got:
        d = [k for k in set(live_state) | set(got)
             if live_state.get(k) != got.get(k)]
        ctx.violation(
            'C22:reload-differs:live-vs-fresh',
            f'fresh manager state != live manager state at {d[:3]}',
            {'config': w.conf['name'], 'history': hist,
             'live': repr({k: live_state.get(k) for k in d[:5]}),
             'fresh': repr({k: got.get(k) for k in d[:5]})})
        raise Stop()
    for t in TASKS:
        for c in w.conf['points'][:6]:
            tok = Tokens(cycle=c, task=t)
            if fresh.get_broadcast(tok) != w.live.get_broadcast(tok):
                ctx.violation(
                    'C22:reload-differs:get_broadcast',
                    f'fresh manager answers get_broadcast({c}/{t}) '
                    'differently from the live one',
                    {'config': w.conf['name'], 'history': hist})
                raise Stop()
    return fresh, fdbm


# --------------------------------------------------------------------------
# operations
# --------------------------------------------------------------------------
def gen_points(rng, conf, for_put):
    pts = []
    for _ in range(rng.choice([1, 1, 2, 3])):
        r = rng.random()
        if r < 0.3:
            pts.append('*')
        elif r < 0.9 or not for_put:
            pts.append(rng.choice(conf['points'][:6]))
        elif r < 0.96 and conf['alt']:
            pts.append(rng.choice(sorted(conf['alt'])))
        else:
            pts.append(rng.choice(conf['bad']))
    return list(dict.fromkeys(pts))


def gen_namespaces(rng):
    ns = rng.sample(NAMESPACES, rng.choice([1, 1, 2, 3]))
    if rng.random() < 0.05:
        ns.append(rng.choice(['nope', 'T1', 'root ', '']))
    return ns


def gen_op(rng, w, multikey, mini=False):
    conf = w.conf
    r = rng.random()
    if mini:
        # smallest multi-key put: keeps the first witnesses minimal
        leaves, wants = [], {}
        while len(leaves) < 2:
            path, raw, want = gen_leaf(rng)
            if path not in wants:
                leaves.append((path, raw))
                wants[path] = want
        return {'op': 'put', 'points': [rng.choice(['*', conf['points'][0]])],
                'namespaces': [rng.choice(NAMESPACES)],
                'settings_full': [(build_setting(leaves), True, wants)]}
    if r < 0.55 or not w.model.leaves and r < 0.8:
        return {'op': 'put', 'points': gen_points(rng, conf, True),
                'namespaces': gen_namespaces(rng),
                'settings_full': gen_settings(rng, multikey)}
    if r < 0.85:
        op = {'op': 'clear', 'points': None, 'namespaces': None,
              'cancel': None}
        if rng.random() < 0.65:
            op['points'] = gen_points(rng, conf, False)
            if rng.random() < 0.1:
                op['points'].append('77')
        if rng.random() < 0.6:
            op['namespaces'] = rng.sample(NAMESPACES,
                                          rng.choice([1, 2, 3]))
        if rng.random() < 0.55:
            paths = []
            have = sorted({k[2] for k in w.model.leaves})
            for _ in range(rng.choice([1, 1, 2, 3])):
                if have and rng.random() < 0.8:
                    paths.append(rng.choice(have))
                else:
                    paths.append(gen_leaf(rng)[0])
            paths = list(dict.fromkeys(paths))
            if len(paths) > 1 and rng.random() < 0.5:
                cancel = [build_setting([(p, None) for p in paths])]
            else:
                cancel = [build_setting([(p, rng.choice([None, 'x']))])
                          for p in paths]
            op['cancel'] = cancel
            op['cancel_paths'] = paths
        return op
    cut = rng.choice(conf['points'])
    return {'op': 'expire', 'cutoff': cut,
            'as_point': rng.random() < 0.5}


def apply_op(ctx, w, op):
    """Run one operation on the real manager and on the model."""
    from cylc.flow.cycling.loader import get_point
    mgr = w.live
    if op['op'] == 'put':
        ctx.count('ops_put')
        sf = op['settings_full']
        op['settings'] = [s for s, _, _ in sf]
        mod, bad = mgr.put_broadcast(
            copy.deepcopy(op['points']), list(op['namespaces']),
            copy.deepcopy(op['settings']))
        n = w.model.put(op['points'], op['namespaces'], sf)
        if n:
            ctx.count('puts_applied')
        if bad:
            ctx.count('puts_with_rejections')
        if any(len(list(M.iter_leaves(s))) > 1 for s, v, _ in sf if v):
            ctx.count('puts_multikey')
        return n
    if op['op'] == 'clear':
        ctx.count('ops_clear')
        mod, bad = mgr.clear_broadcast(
            point_strings=op['points'], namespaces=op['namespaces'],
            cancel_settings=copy.deepcopy(op['cancel']))
        gone = w.model.clear(op['points'], op['namespaces'],
                             op.get('cancel_paths'))
        if gone:
            ctx.count('clear_removed_some')
        if w.model.leaves and gone:
            ctx.count('clear_partial')
        if bad:
            ctx.count('clear_with_bad_options')
        return len(gone)
    ctx.count('ops_expire')
    cutoff = get_point(op['cutoff']) if op['as_point'] else op['cutoff']
    mgr.expire_broadcast(cutoff)
    gone = w.model.expire(op['cutoff'])
    if gone:
        ctx.count('expire_removed_some')
    return len(gone)


def run_case(ctx, i, rng):
    conf = CONFIGS[0 if rng.random() < 0.7 else 1]
    multikey = rng.random() < 0.4
    nops = rng.randint(8, 12)
    mini = i < 32
    if mini:
        multikey, nops = True, 1
    w = World(ctx, conf)
    for n in NAMESPACES:
        if w.real_anc.get(n) != w.anc[n]:
            ctx.count('discard_linearisation_differs')
            ctx.evaluated(('lin', i), nontrivial=False)
            w.close()
            return
    ctx.count('histories')
    ctx.count('config:' + conf['name'])
    ctx.count('mode:' + ('multikey' if multikey else 'singlepath'))
    hist = []
    puts = removed = reloads_nonempty = 0
    clean_end = False
    try:
        for step in range(nops):
            op = gen_op(rng, w, multikey, mini)
            rec = describe(op)
            hist.append(rec)
            try:
                n = apply_op(ctx, w, op)
            except Stop:
                raise
            except Exception as exc:
                ctx.violation(
                    f'C22:{op["op"]}-raises-{type(exc).__name__}',
                    f'{op["op"]} raised {type(exc).__name__}: '
                    f'{str(exc)[:120]}',
                    {'config': conf['name'], 'history': hist})
                raise Stop()
            if op['op'] == 'put':
                # as ordered [path, text] lists: key order matters
                rec['settings'] = [
                    [[list(p), v] for p, v, _ in M.iter_leaves(s)]
                    if ok else {'invalid': s}
                    for s, ok, _ in op['settings_full']]
            if op['op'] == 'put' and n:
                puts += 1
            elif op['op'] != 'put' and n:
                removed += 1
            check_memory(ctx, w, w.live, op, hist)
            check_rtconfig(ctx, w, w.live, hist, rng)
            if rng.random() < 0.55 or step == nops - 1:
                rec['flush'] = True
                if w.model.leaves:
                    reloads_nonempty += 1
                fresh, fdbm = check_reload(ctx, w, op, hist)
                if rng.random() < 0.3:
                    # restart: carry on with the manager loaded from the DB
                    rec['restart'] = True
                    ctx.count('restarts_continued')
                    w.dbm.on_workflow_shutdown()
                    w.live, w.dbm = fresh, fdbm
                    check_memory(ctx, w, w.live, op, hist, who='fresh')
                    check_rtconfig(ctx, w, w.live, hist, rng)
                else:
                    fdbm.on_workflow_shutdown()
        clean_end = True
    except Stop:
        ctx.count('histories_stopped_at_violation')
    finally:
        w.close()
    if clean_end and not multikey:
        ctx.count('singlepath_histories_clean_end')
    if clean_end and multikey:
        ctx.count('multikey_histories_clean_end')
    ctx.evaluated(
        (conf['name'], multikey, repr(hist)),
        nontrivial=(puts >= 2 and removed >= 1 and reloads_nonempty >= 1))
    if clean_end and puts >= 2 and removed >= 1:
        ctx.sample({'config': conf['name'], 'multikey': multikey,
                    'history': hist,
                    'final_state': sorted(
                        [list(k[:2]) + ['/'.join(k[2])]
                         for k in w.model.leaves])[:12]})
