#!/venv/bin/python
"""Regenerate MANIFEST.json from the check modules' META + not_applicable.json."""
import json
import os
import sys

ROOT = os.path.dirname(os.path.dirname(os.path.abspath(__file__)))
sys.path.insert(0, ROOT)
sys.path.insert(0, os.path.join(ROOT, '.deps'))
from vlib.core.registry import all_modules  # noqa: E402
import importlib  # noqa: E402

props = [json.loads(l) for l in open(os.path.join(ROOT, 'properties.jsonl'))]
mods = all_modules()
checks = []
engines = {}
# only checks validated on the unchanged tree are registered
enabled = set(json.load(open(os.path.join(ROOT, 'enabled.json'))))
for p in props:
    pid = p['id']
    if pid not in mods:
        continue
    m = importlib.import_module(mods[pid])
    meta = m.META
    if meta.get('disabled') or pid not in enabled:
        continue
    eng = meta['engine']
    engines.setdefault(eng, []).append(pid)
    checks.append({
        'property_id': pid,
        'quick_cmd': f'./check {pid} quick',
        'thorough_cmd': f'./check {pid} thorough',
        'evidence_file': f'evidence/{pid}.json',
        'replay_cmd_template': f'./check {pid} --replay {{path}}',
        'engine': eng,
        'level_claimed': {
            'category': meta['level'],
            'text': meta['level_text'],
            'design_ref': meta.get('design_ref', f'DESIGN.md §5 {pid}'),
        },
        'level_note': meta['level_note'],
        'technique': meta['technique'],
    })
na_path = os.path.join(ROOT, 'not_applicable.json')
na = json.load(open(na_path)) if os.path.exists(na_path) else {}
claimed = {c['property_id'] for c in checks}
not_applicable = []
for p in props:
    if p['id'] not in claimed:
        not_applicable.append({
            'property_id': p['id'],
            'reason': na.get(p['id'], 'check not built yet in this round '
                             '(planned, see DESIGN.md §5); not claimed'),
        })
hooks = json.load(open(os.path.join(ROOT, 'hooks.json')))
manifest = {
    'version': 1,
    'setup_cmd': './setup.sh',
    'hooks': hooks,
    'engines': [
        {'name': 'E1 schedmon', 'path': 'vlib/e1',
         'serves_properties': sorted(engines.get('E1 schedmon', [])),
         'kind_free_text': 'real Scheduler run in-process in live mode with a '
         'fake job world, virtual clock, scripted commands and stop/kill/'
         'restart; monitors on an event bus hooked from /verif'},
        {'name': 'E2 funcmon', 'path': 'vlib/e2',
         'serves_properties': sorted(engines.get('E2 funcmon', [])),
         'kind_free_text': 'real functions/classes called on generated inputs '
         'with post-condition monitors whose oracles are independent '
         'reference models'},
    ],
    'checks': checks,
    'notes': 'Runtime monitoring only; see DESIGN.md. Exit 0 held / 1 '
             'violation / 2 inconclusive. known_findings.json lists genuine '
             'defects recorded rather than repaired, and fixed: entries.',
    'not_applicable': not_applicable,
}
with open(os.path.join(ROOT, 'MANIFEST.json'), 'w') as f:
    json.dump(manifest, f, indent=1)
    f.write('\n')
print(f'{len(checks)} checks, {len(not_applicable)} not claimed')
