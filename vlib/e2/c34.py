"""C34 Parameter expansion yields exactly the Cartesian product.

Monitor shape: the real `GraphExpander.expand`, `NameExpander.expand` and
`GraphParser.parse_graph` (which owns the "drop the offset node" half of the
behaviour) are called on generated parameter sets and on lines / headings
generated as structures; the oracle (vlib/models/c34_params.py) enumerates the
Cartesian product explicitly with its own template substitution.  At graph
level the explicit, parameter-free lines of the model are handed to a
parameter-less GraphParser and the two trigger maps are compared.
"""
from __future__ import annotations

from vlib.models import c34_params as M

PID = 'C34'
META = {
    'engine': 'E2 funcmon',
    'level': 'exploration',
    'technique': 'post-condition monitor on GraphExpander/NameExpander/'
                 'GraphParser against an explicit Cartesian-product '
                 'enumeration with independent template substitution',
    'level_text': (
        'Random parameter sets (integer ranges/lists incl. negatives, string '
        'lists, default and custom templates) and random graph lines / '
        'runtime headings using subsets of them with <p>, <p=v>, <p-k>; '
        'every real expansion is compared with the explicitly enumerated '
        'product; offset dropping is judged on the parsed graph (trigger '
        'map) against the parse of the explicit parameter-free lines.  Held '
        '= no disagreement on the cases explored.'),
    'level_note': 'GraphParser on parameter-free text is trusted as the '
                  'interpreter of explicit lines (its own correctness is '
                  'C14); the expansion model is vlib/models/c34_params.py.',
    'design_ref': 'DESIGN.md §5 C34',
    'budget': {'quick': 90, 'thorough': 900},
}
RULE = ('case = (parameter set, one graph line or runtime heading or graph '
        'text); distinct by parameter values+templates and the rendered '
        'text; non-trivial when the line uses at least one parameter with '
        '>= 2 values and the expansion has >= 2 instances, or exercises an '
        'offset / fixed value')
ASSUMPTIONS = [
    'negative offsets only (<p-k>, k in 1..2), as in the statement; <p+k> '
    'is not generated',
    'an offset node whose value does not exist is "dropped" = removed from '
    'its AND/OR expression; an expression left empty at the head of a chain '
    'disappears and the chain starts at the next expression.  Lines where a '
    'whole expression in the middle of a chain would vanish are not '
    'generated (the statement does not say what the chain means then)',
    'in expressions mixing & and | without parentheses, & binds tighter '
    '(cylc evaluates them as Python and/or)',
    'a parameter is used at most once per <...> group and per heading name; '
    'parameter values are distinct; templates mention only their own '
    'parameter',
    'GraphExpander.expand is called on whitespace-free lines (GraphParser '
    'strips all whitespace before calling it); whitespace inside <...> is '
    'exercised through GraphParser and NameExpander only',
    'a fixed value that is not in the list, an undefined parameter, and an '
    'offset in a runtime heading must be rejected with ParamExpandError',
]
MIN = {
    'quick': {'graph_lines_checked': 15000,
              'graph_instances_compared': 50000,
              'graph_with_offset': 5000, 'graph_with_fixed': 5000,
              'graph_multi_param': 5000, 'parse_cases': 6000,
              'parse_nodes_dropped': 10000, 'parse_dropped_plain_cases': 1500,
              'parse_first_expr_vanished': 1000,
              'heading_checked': 10000, 'heading_instances_compared': 40000,
              'heading_with_fixed': 2000, 'rejections_expected': 1500},
    'thorough': {'graph_lines_checked': 250000,
                 'graph_instances_compared': 1000000,
                 'graph_with_offset': 150000, 'graph_with_fixed': 120000,
                 'graph_multi_param': 150000, 'parse_cases': 120000,
                 'parse_nodes_dropped': 400000,
                 'parse_dropped_plain_cases': 30000,
                 'parse_first_expr_vanished': 40000,
                 'heading_checked': 150000,
                 'heading_instances_compared': 800000,
                 'heading_with_fixed': 50000, 'rejections_expected': 35000},
}
NCASES = {'quick': 64, 'thorough': 512}
SETS_PER_CASE = {'quick': 120, 'thorough': 300}
CASE_TIMEOUT = 300


def ncases(tier):
    return NCASES[tier]


def setup_shard(ctx):
    import logging
    logging.getLogger('cylc').setLevel(logging.CRITICAL)


def pdesc(params):
    vals, tmpls = M.cylc_parameters(params)
    return {'values': vals, 'templates': tmpls}


# -------------------------------------------------------- line generators --
def gen_expr(rng, params, allow_off, first, hazard=None, tails=True):
    """OR-of-ANDs.  Mid-chain / right-hand expressions are AND-only and
    always keep one offset-free node."""
    def node(off):
        return M.gen_node(rng, params, allow_off and off, tails=tails)
    if not first:
        n = rng.choice([1, 1, 1, 2, 3])
        nodes = [node(j > 0) for j in range(n)]
        rng.shuffle(nodes)
        return [nodes]
    r = rng.random()
    if hazard == 'mixed':
        shape = [rng.choice([1, 2]), rng.choice([2, 2, 3])]
        rng.shuffle(shape)
        if rng.random() < 0.3:
            shape.append(1)
        return [[node(True) for _ in range(k)] for k in shape]
    if r < 0.4:
        return [[node(True)]]
    if r < 0.75:
        return [[node(True) for _ in range(rng.choice([2, 2, 3, 4]))]]
    if r < 0.93:
        return [[node(True)] for _ in range(rng.choice([2, 2, 3]))]
    # a little mixing of & and | everywhere
    return [[node(True) for _ in range(k)]
            for k in rng.choice([(1, 2), (2, 1), (2, 2), (1, 1, 2)])]


def gen_line(rng, params, allow_off=True, hazard=None, tails=True):
    n = rng.choice([1, 2, 2, 2, 3, 3])
    line = [gen_expr(rng, params, allow_off, ei == 0, hazard, tails)
            for ei in range(n)]
    if hazard == 'mixed' and n == 1:
        line.append(gen_expr(rng, params, allow_off, False, None, tails))
    return line


def line_features(line, params):
    items = M.line_items(line)
    used = {it[0] for it in items}
    return {
        'offset': any(it[1] == 'off' for it in items),
        'fixed': any(it[1] == 'fix' for it in items),
        'n_params': len(used),
        'multi_valued': any(len(params[p]['values']) > 1 for p in used
                            if p in params),
    }


# ----------------------------------------------------- raw GraphExpander --
def check_graph_expand(ctx, rng, params):
    from cylc.flow.exceptions import ParamExpandError
    from cylc.flow.param_expand import GraphExpander
    line = gen_line(rng, params)
    text = M.render_line(line)            # no whitespace
    feat = line_features(line, params)
    if feat['n_params'] == 0:
        ctx.count('graph_line_without_params')
        return
    want, n_oor, n_combos = M.expand_line_exact(line, params)
    desc = {'parameters': pdesc(params), 'line': text}
    nontrivial = (feat['multi_valued'] and n_combos >= 2) or feat[
        'offset'] or feat['fixed']
    ctx.evaluated(('graph', repr(desc)), nontrivial=nontrivial)
    ctx.count('graph_lines_checked')
    if feat['offset']:
        ctx.count('graph_with_offset')
    if feat['fixed']:
        ctx.count('graph_with_fixed')
    if feat['n_params'] > 1:
        ctx.count('graph_multi_param')
    ctx.maxc('graph_instances_per_line', len(want))
    try:
        got = GraphExpander(M.cylc_parameters(params)).expand(text)
    except ParamExpandError as exc:
        ctx.violation(
            'C34:graph-expand:valid-line-rejected',
            f'{text} with {desc["parameters"]["values"]} was rejected: {exc}',
            desc)
        return
    except Exception as exc:
        ctx.violation(
            f'C34:graph-expand:raised-{type(exc).__name__}',
            f'{text} with {desc["parameters"]["values"]} raised {exc!r}',
            desc)
        return
    ctx.count('graph_instances_compared', len(want))
    if not isinstance(got, set):
        got = set(got)
    missing = sorted(want - got)
    extra = sorted(got - want)
    kind = ('offset' if feat['offset'] else
            'fixed' if feat['fixed'] else 'plain')
    if missing:
        ctx.violation(
            f'C34:graph-expand:{kind}:instance-missing-or-wrong',
            f'{text} with {desc["parameters"]}: expected instance '
            f'{missing[0]!r} not produced (got {sorted(got)[:4]}…)',
            {**desc, 'missing': missing[:6], 'extra': extra[:6],
             'got': sorted(got)[:12]})
    elif n_oor == 0 and extra:
        ctx.violation(
            f'C34:graph-expand:{kind}:extra-instance',
            f'{text} with {desc["parameters"]}: produced {extra[0]!r} which '
            f'is not in the Cartesian product',
            {**desc, 'extra': extra[:6], 'want': sorted(want)[:12]})
    elif len(extra) > n_oor:
        ctx.violation(
            'C34:graph-expand:offset:too-many-lines',
            f'{text}: {len(extra)} lines besides the {len(want)} in-range '
            f'instances, but only {n_oor} combinations lack a previous '
            f'value', {**desc, 'extra': extra[:8]})
    if n_oor:
        ctx.count('graph_oor_combos', n_oor)
    if nontrivial and len(ctx.samples) < 2:
        ctx.sample({**desc, 'model_instances': sorted(want)[:8],
                    'combinations_without_previous_value': n_oor})


# --------------------------------------------------- through GraphParser --
def parse_triggers(text, parameters=None):
    from cylc.flow.graph_parser import GraphParser
    gp = GraphParser(parameters=parameters)
    gp.parse_graph(text)
    return {k: {e: (list(v[0]), v[1]) for e, v in d.items()}
            for k, d in gp.triggers.items()}


def hazards(info):
    """Input classes of a line worth counting (computed from the model)."""
    hz = set()
    if info['two_leading_dropped']:
        hz.add('two-leading-dropped')
    if info['dropped_in_mixed']:
        hz.add('mixed')
    if info['first_expr_vanished']:
        hz.add('head-emptied')
    return hz


LONE_FIRST = 'C34:offset-out-of-range:lone-first-node-drops-whole-line'


def classify_parse(line, params, info, hazard, got, want=None):
    """Mechanism key for a graph-level disagreement (no values inside).

    The known mechanism ("a head expression emptied entirely by removing
    out-of-range nodes drops the rest of the line for that combination") is
    recognised exactly: the observed trigger map must equal the parse of the
    model's lines minus the lines of those combinations.  Anything else gets
    a key from the line's features, whatever else is present in the line.
    """
    if got is not None and info['first_expr_vanished']:
        try:
            if got == parse_triggers('\n'.join(info['lines_head_kept'])):
                return LONE_FIRST
        except Exception:
            pass
    if got is not None and '32768' in repr(got):
        return 'C34:offset-out-of-range:removal-marker-leaks-into-graph'
    if info['dropped_in_mixed']:
        return 'C34:offset-out-of-range:mixed-and-or-loses-operator'
    if info['two_leading_dropped']:
        return 'C34:offset-out-of-range:several-leading-dropped-nodes'
    if info['first_expr_vanished']:
        return 'C34:offset-out-of-range:head-emptied-other'
    if info['dropped_nodes']:
        return 'C34:offset-out-of-range:other'
    if hazard == 'numeric-string':
        return 'C34:fixed-value:numeric-looking-string-coerced-to-int'
    feat = line_features(line, params)
    if feat['fixed']:
        return 'C34:graph-parse:fixed'
    return 'C34:graph-parse:plain'


def check_graph_parse(ctx, rng, params, hazard=None):
    from cylc.flow.exceptions import GraphParseError, ParamExpandError
    line = gen_line(rng, params, hazard=hazard,
                    tails=hazard is None)
    if hazard == 'numeric-string':
        # force one fixed use of the digit-only string value
        p = next(p for p in params.values() if p.get('numeric_string'))
        v = next(v for v in p['values'] if v in M.NUMERIC_STRINGS)
        nd = M.gen_node(rng, params, False, must=[(p['name'], 'fix',
                                                   (v, v))], tails=False)
        line[rng.randrange(len(line))][0].append(nd)
    if hazard == 'lone-first':
        p = rng.choice(list(params.values()))
        nd = M.gen_node(rng, params, True, must=[(p['name'], 'off', 1)],
                        tails=rng.random() < 0.2)
        nxt = M.gen_node(rng, params, False,
                         must=[(p['name'], 'bare', None)])
        line = [[[nd]], [[nxt]]] + line[2:]
    feat = line_features(line, params)
    if feat['n_params'] == 0:
        ctx.count('parse_line_without_params')
        return
    text = M.render_line(line, rng)
    model_lines, info = M.expand_line_dropping(line, params)
    kept = info.pop('lines_head_kept')
    desc = {'parameters': pdesc(params), 'graph': text,
            'model_lines': model_lines[:12]}
    info = dict(info, lines_head_kept=kept)
    hz = hazards(info)
    for h in hz:
        ctx.count('parse_class_' + h)
    gen_kind = hazard or 'none'
    if hazard in ('mixed', 'lone-first'):
        hazard = None
    try:
        want = parse_triggers('\n'.join(model_lines))
    except GraphParseError:
        ctx.count('discard_model_lines_unparsable')
        return
    ctx.evaluated(('parse', repr(desc['parameters']), text),
                  nontrivial=info['combos'] >= 2 or feat['fixed'])
    ctx.count('parse_cases')
    ctx.count('parse_gen_' + gen_kind)
    ctx.count('parse_nodes_dropped', info['dropped_nodes'])
    ctx.count('parse_first_expr_vanished', info['first_expr_vanished'])
    ctx.count('parse_dropped_in_mixed', info['dropped_in_mixed'])
    if info['dropped_nodes'] and not hz:
        ctx.count('parse_dropped_plain_cases')
    ctx.count('parse_model_lines', len(model_lines))
    try:
        got = parse_triggers(text, M.cylc_parameters(params))
    except (GraphParseError, ParamExpandError) as exc:
        ctx.violation(
            classify_parse(line, params, info, hazard, None) +
            ':valid-line-rejected',
            f'graph {text!r} with {desc["parameters"]["values"]} rejected '
            f'({type(exc).__name__}: {str(exc)[:100]}) but its explicit '
            f'expansion parses', desc)
        return
    except Exception as exc:
        ctx.violation(
            classify_parse(line, params, info, hazard, None) +
            f':raised-{type(exc).__name__}',
            f'graph {text!r} with {desc["parameters"]["values"]} raised '
            f'{exc!r}', desc)
        return
    ctx.count('parse_tasks_compared', len(want))
    if got != want:
        missing = sorted(set(want) - set(got))
        extra = sorted(set(got) - set(want))
        differ = sorted(k for k in set(want) & set(got)
                        if want[k] != got[k])
        what = []
        if missing:
            what.append(f'tasks missing from the graph: {missing[:4]}')
        if extra:
            what.append(f'unexpected tasks: {extra[:4]}')
        if differ:
            k = differ[0]
            what.append(f'{k} triggers off {sorted(got[k])} instead of '
                        f'{sorted(want[k])}')
        ctx.violation(
            classify_parse(line, params, info, hazard, got, want),
            f'graph {text!r} with {desc["parameters"]["values"]}: '
            + '; '.join(what),
            {**desc, 'missing_tasks': missing[:8], 'extra_tasks': extra[:8],
             'different': {k: {'got': sorted(got[k]),
                               'want': sorted(want[k])}
                           for k in differ[:4]}})
    elif info['dropped_nodes'] and not ctx.counters.get('sampled_parse'):
        ctx.count('sampled_parse')
        ctx.sample({**desc, 'tasks': sorted(want)[:10],
                    'info': {k: v for k, v in info.items()
                             if k != 'lines_head_kept'}},
                   force=True)


# --------------------------------------------------------- NameExpander --
def check_heading(ctx, rng, params):
    from cylc.flow.exceptions import ParamExpandError
    from cylc.flow.param_expand import NameExpander
    n = rng.choice([1, 1, 2, 2, 3])
    names = [M.gen_node(rng, params, False, graph=False,
                        p_param=0.85) for _ in range(n)]
    # leading-group names (<m>foo) now and then
    for nd in names:
        if len(nd['tokens']) > 1 and rng.random() < 0.1:
            first_items = nd['tokens'][1][1]
            if all(params[it[0]]['prefix'][:1].isalnum() or
                   params[it[0]]['prefix'][:1] == '_'
                   for it in first_items[:1]):
                nd['tokens'] = nd['tokens'][1:] + [nd['tokens'][0]]
    # one parameter at most once per name
    for nd in names:
        seen = set()
        for t, g in nd['tokens']:
            if t == 'grp':
                g[:] = [it for it in g
                        if not (it[0] in seen or seen.add(it[0]))]
        nd['tokens'] = [(t, g) for t, g in nd['tokens']
                        if t == 'lit' or g]
    text = (',' + (' ' if rng.random() < 0.7 else '')).join(
        M.render_node(nd, rng) for nd in names)
    items = [it for nd in names for it in M.node_params(nd)]
    want = M.expand_heading(names, params)
    desc = {'parameters': pdesc(params), 'heading': text}
    multi = any(len(params[it[0]]['values']) > 1 and it[1] == 'bare'
                for it in items)
    fixed = any(it[1] == 'fix' for it in items)
    ctx.evaluated(('heading', repr(desc)), nontrivial=multi or fixed)
    ctx.count('heading_checked')
    if fixed:
        ctx.count('heading_with_fixed')
    if len({it[0] for it in items}) > 1:
        ctx.count('heading_multi_param')
    try:
        got = NameExpander(M.cylc_parameters(params)).expand(text)
    except ParamExpandError as exc:
        ctx.violation(
            'C34:heading:valid-heading-rejected',
            f'[[{text}]] with {desc["parameters"]["values"]} rejected: '
            f'{exc}', desc)
        return
    except Exception as exc:
        ctx.violation(
            f'C34:heading:raised-{type(exc).__name__}',
            f'[[{text}]] with {desc["parameters"]["values"]} raised '
            f'{exc!r}', desc)
        return
    ctx.count('heading_instances_compared', len(want))

    def norm(pairs):
        return sorted(((nm, sorted(vals.items(), key=repr))
                       for nm, vals in pairs), key=repr)
    g, w = norm(got), norm(want)
    if g != w:
        gn, wn = sorted(x[0] for x in g), sorted(x[0] for x in w)
        kind = 'fixed' if fixed else 'plain'
        if gn != wn:
            key = f'C34:heading:{kind}:names-differ'
            what = (f'names {gn[:6]} instead of {wn[:6]}')
        else:
            key = f'C34:heading:{kind}:parameter-values-differ'
            bad = next((a, b) for a, b in zip(g, w) if a != b)
            what = f'{bad[0][0]} carries {bad[0][1]} instead of {bad[1][1]}'
        ctx.violation(key, f'[[{text}]] with {desc["parameters"]}: {what}',
                      {**desc, 'got': g[:12], 'want': w[:12]})
    elif multi and fixed and not ctx.counters.get('sampled_heading'):
        ctx.count('sampled_heading')
        ctx.sample({**desc, 'model_instances': w[:8]}, force=True)


# ------------------------------------------------------ expected rejects --
def check_rejections(ctx, rng, params):
    from cylc.flow.exceptions import ParamExpandError
    from cylc.flow.param_expand import GraphExpander, NameExpander
    kind = rng.choice(['undefined', 'bad-fixed', 'heading-offset'])
    p = rng.choice(list(params.values()))
    if kind == 'undefined':
        item = ('zz' + p['name'], 'bare', None)
    elif kind == 'bad-fixed':
        if p['kind'] == 'int':
            v = max(p['values']) + rng.choice([1, 2, 10])
        else:
            v = rng.choice([s for s in ['nope', 'cat2', 'A'] if
                            s not in p['values']])
        item = (p['name'], 'fix', (v, str(v)))
    else:
        item = (p['name'], 'off', 1)
    other = M.gen_node(rng, params, False, graph=True, tails=False)
    node = {'tokens': [('lit', rng.choice(M.BASES)), ('grp', [item])],
            'tail': ''}
    pcfg = M.cylc_parameters(params)
    targets = []
    if kind != 'heading-offset':
        line = [[[node]], [[other]]] if rng.random() < 0.5 else [
            [[other, node]]]
        targets.append(('graph', M.render_line(line),
                        lambda t: GraphExpander(pcfg).expand(t)))
    targets.append(('heading', M.render_node(node),
                    lambda t: NameExpander(pcfg).expand(t)))
    for where, text, fn in targets:
        ctx.evaluated(('reject', kind, where, repr(pcfg), text),
                      nontrivial=True)
        ctx.count('rejections_expected')
        ctx.count('reject_' + kind)
        try:
            got = fn(text)
        except ParamExpandError:
            ctx.count('rejected_ok')
            continue
        except Exception as exc:
            ctx.violation(
                f'C34:{where}:{kind}:raised-{type(exc).__name__}',
                f'{text} with {pcfg[0]} raised {exc!r} instead of '
                f'ParamExpandError', {'parameters': pcfg, 'text': text})
            continue
        ctx.violation(
            f'C34:{where}:{kind}-accepted',
            f'{text} with {pcfg[0]} should be rejected but expanded to '
            f'{sorted(got, key=repr)[:4]}',
            {'parameters': pcfg, 'text': text,
             'got': sorted(got, key=repr)[:8]})


def check_numeric_string_heading(ctx, rng, params):
    """<p=072> where p is a *string* list containing '072'."""
    from cylc.flow.exceptions import ParamExpandError
    from cylc.flow.param_expand import NameExpander
    p = next(p for p in params.values() if p.get('numeric_string'))
    v = next(v for v in p['values'] if v in M.NUMERIC_STRINGS)
    node = M.gen_node(rng, params, False, graph=False,
                      must=[(p['name'], 'fix', (v, v))])
    text = M.render_node(node)
    want = M.expand_heading([node], params)
    desc = {'parameters': pdesc(params), 'heading': text}
    ctx.evaluated(('heading-ns', repr(desc)), nontrivial=True)
    ctx.count('heading_numeric_string_fixed')
    key = 'C34:fixed-value:numeric-looking-string-coerced-to-int'
    try:
        got = NameExpander(M.cylc_parameters(params)).expand(text)
    except Exception as exc:
        ctx.violation(
            key + f':raised-{type(exc).__name__}',
            f'[[{text}]] with {desc["parameters"]["values"]} raised '
            f'{exc!r}; expected {want}', desc)
        return
    if sorted(got, key=repr) != sorted(want, key=repr):
        ctx.violation(
            key, f'[[{text}]] with {desc["parameters"]["values"]} gave '
            f'{got}, expected {want}', {**desc, 'got': got, 'want': want})


def run_case(ctx, i, rng):
    for _ in range(SETS_PER_CASE[ctx.tier]):
        params = M.gen_params(rng)
        for _ in range(3):
            check_graph_expand(ctx, rng, params)
        check_graph_parse(ctx, rng, params)
        r = rng.random()
        if r < 0.25:
            check_graph_parse(ctx, rng, params, hazard='lone-first')
        elif r < 0.45:
            check_graph_parse(ctx, rng, params, hazard='mixed')
        hp = M.gen_params(rng, allow_name_only_values=True)
        for _ in range(2):
            check_heading(ctx, rng, hp)
        if rng.random() < 0.3:
            check_rejections(ctx, rng, params)
        if rng.random() < 0.12:
            ns = M.gen_params(rng, numeric_string=True)
            check_graph_parse(ctx, rng, ns, hazard='numeric-string')
            check_numeric_string_heading(ctx, rng, ns)
