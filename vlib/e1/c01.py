"""C01 Graph-faithful execution (DESIGN §5 C01)."""
from __future__ import annotations

from vlib.e1 import runner
from vlib.gen import wfgen
from vlib.models import gtmodel

PID = 'C01'
META = {
    'engine': 'E1 schedmon',
    'level': 'exploration',
    'technique': 'online monitor on job-submit commands of a real scheduler '
                 'run against a graph ground truth + offline closure check',
    'level_text': (
        'Generated cycling workflows run to the end on the real Scheduler '
        '(live mode, fake job world, hostile message delivery, no '
        'commands). Every submission is checked online against the '
        'ground-truth trigger expressions evaluated over outputs the jobs '
        'actually completed; at the end the set of submitted instances and '
        'the way the run ended (automatic shutdown vs stall) are compared '
        'with an independent spawn-on-demand closure model.'),
    'level_note': 'Held on the runs executed. Trusted: wfgen ground truth, '
                  'closure model (vlib/models/gtmodel.py), fake job world '
                  'text formats (DESIGN Appendix B).',
    'design_ref': 'DESIGN.md §5 C01',
    'budget': {'quick': 120, 'thorough': 1200},
}
RULE = ('case = generated workflow (integer cycling, 1-3 graph sections, '
        'AND/OR triggers, offsets, custom/optional outputs) + all-complete '
        'outcome plan + delivery policy; distinct by event census of the '
        'run; non-trivial when >= 3 instances were submitted and the run '
        'reached automatic shutdown or a stall')
ASSUMPTIONS = [
    'no manual intervention in these runs',
    'plans are repaired so every finished task completes its required '
    'outputs (the class the closure sentence quantifies over)',
    'job vacation, remote platforms and event handlers are not generated',
]
MIN = {'c01.submit_checks': 300, 'c01.exprs_evaluated': 100,
       'closure_compared': 40, 'ended_auto_shutdown': 20}
NCASES = {'quick': 1000, 'thorough': 12000}


def ncases(tier):
    return NCASES[tier]


def features(rng):
    return wfgen.Features(
        future_offsets=rng.random() < 0.2,
        retries=rng.random() < 0.3,
    )


def run_case(ctx, i, rng):
    gt = wfgen.gen_workflow(rng, features(rng))
    case = runner.build_case(rng, gt, 'all-complete', hostile=0.5)
    results = runner.run_case(
        ctx, f'c{i}', case, [{'name': 'run'}],
        ['c01', 'c07', 'c02', 'c09', 'c26', 'c10'], PID)
    if results is None:
        ctx.evaluated(('discard', i), nontrivial=False)
        return
    res = results[0]
    end = (res.get('monitors') or {}).get('end') or {}
    submitted = {tuple(reversed(s.split('/', 1))) for s in
                 end.get('submitted', [])}
    submitted = {(n, int(p)) for n, p in submitted}
    auto = (res.get('stop_reason') or '').endswith('AUTOMATIC')
    nontrivial = len(submitted) >= 3 and (auto or end.get('stalled'))
    ctx.evaluated(runner.trace_key(results), nontrivial=nontrivial)
    if res.get('capped'):
        ctx.count('capped_runs')
        return
    ctx.sample({'flow': gt['flow_text'], 'submitted': sorted(
        f'{p}/{n}' for n, p in submitted), 'ended': res.get('stop_reason'),
        'stalled': end.get('stalled')})
    # offline closure
    model = gtmodel.closure(case)
    ctx.count('closure_compared')
    want = model['run']
    detail = {'flow': gt['flow_text'], 'plans': case['plans'],
              'policy': case['policy'],
              'submitted': sorted(f'{p}/{n}' for n, p in submitted),
              'model_run': sorted(f'{p}/{n}' for n, p in want),
              'model_stuck': sorted(f'{p}/{n}' for n, p in model['stuck']),
              'ended': res.get('stop_reason'),
              'harness_end': res.get('ended_by_harness')}
    if model['stuck'] or model['incomplete']:
        # a waiting task with partially satisfied prerequisites holds the
        # runahead base, so later cycles legitimately may not run: only
        # "nothing outside the closure ran" and "stall, not shutdown"
        ctx.count('model_has_stuck_tasks')
        missing = []
    else:
        missing = sorted(want - submitted)
    extra = sorted(submitted - want)
    if missing or extra:
        if missing:
            n, p = missing[0]
            kind = classify_missing(case, n, p)
            from vlib.e1.c43 import explain_missing
            root = explain_missing(case, {f'{q}/{m}' for m, q in missing},
                                   [res])
            if root:
                kind = root
            ctx.violation(
                f'C01:closure-missing:{kind}',
                f'instances in the graph closure never ran: '
                f'{[f"{p}/{n}" for n, p in missing[:4]]}', detail)
        if extra:
            ctx.violation(
                'C01:closure-extra',
                f'instances ran that the graph closure does not contain: '
                f'{[f"{p}/{n}" for n, p in extra[:4]]}', detail)
        return
    if auto:
        ctx.count('ended_auto_shutdown')
    expect_auto = not model['stuck'] and not model['incomplete']
    if expect_auto and not auto:
        ctx.violation(
            'C01:no-auto-shutdown',
            f'closure complete, nothing stuck, but the scheduler did not '
            f'shut down by itself (ended: {res.get("stop_reason")}, '
            f'harness: {res.get("ended_by_harness")})', detail)
    elif not expect_auto and auto and not model['incomplete'] and \
            __import__('vlib.e1.c43', fromlist=['x']).explain_missing(
                case, {f'{q}/{m}' for m, q in model['stuck']}, [res]):
        # the instances the model has stuck were never spawned (or never
        # partially satisfied) in the run: the output that would have done
        # it arrived after its task had left the pool - the recorded C01
        # mechanism, seen from the other side
        from vlib.e1.c43 import explain_missing
        root = explain_missing(
            case, {f'{q}/{m}' for m, q in model['stuck']}, [res])
        ctx.violation(
            f'C01:closure-missing:{root}',
            f'scheduler shut down by itself; the instances the model has '
            f'waiting on partially satisfied prerequisites '
            f'{sorted(model["stuck"])[:3]} are downstream of an output '
            'message that arrived after its task had left the pool', detail)
    elif not expect_auto and auto:
        ctx.violation(
            'C01:shutdown-with-stuck-tasks',
            f'scheduler shut down by itself but the model says '
            f'{sorted(model["stuck"])[:3]} remain waiting on partially '
            'satisfied prerequisites', detail)
    elif not expect_auto:
        ctx.count('ended_stalled_as_model')


def classify_missing(case, n, p):
    """Mechanism class of a missing instance (for finding keys)."""
    gt = case['gt']
    arrows = wfgen.arrows_at(gt, n, p)
    rel = [a for ar in arrows for a in wfgen.atoms(ar)
           if wfgen.atom_point(a, p) >= gt['initial']]
    if not rel:
        # parentless here; is an earlier point of the task parented?
        earlier = [q for q in wfgen.task_points(gt, n) if q < p]
        for q in earlier:
            ar = [a for x in wfgen.arrows_at(gt, n, q)
                  for a in wfgen.atoms(x)
                  if wfgen.atom_point(a, q) >= gt['initial']]
            if ar:
                return 'parentless-after-parented-point'
        return 'parentless'
    return 'parented'
