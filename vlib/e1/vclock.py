"""Virtual clock: replaces time()/sleep() inside cylc.flow modules
(DESIGN Appendix C). Log timestamps stay real; no verdict reads them."""
from __future__ import annotations

import importlib

MODULES_TIME = [
    'cylc.flow.scheduler', 'cylc.flow.commands', 'cylc.flow.task_proxy',
    'cylc.flow.task_events_mgr', 'cylc.flow.task_job_mgr',
    'cylc.flow.task_action_timer', 'cylc.flow.timer',
    'cylc.flow.xtrigger_mgr', 'cylc.flow.xtriggers.wall_clock',
    'cylc.flow.run_modes.simulation', 'cylc.flow.subprocpool',
    'cylc.flow.data_store_mgr', 'cylc.flow.main_loop',
    'cylc.flow.task_pool', 'cylc.flow.workflow_events',
    'cylc.flow.task_remote_mgr', 'cylc.flow.workflow_db_mgr',
]


# the clock of the scheduler incarnation currently running in this process;
# cylc modules are patched once with the module-level trampolines below, so a
# later incarnation in the same process (in-process phases) gets its own clock
_CUR = None


def _vtime():
    return _CUR.now


def _vsleep(secs=0):
    if secs and secs > 0:
        _CUR.now += float(secs)


class VClock:
    def __init__(self, t0: float):
        self.now = float(t0)
        self.patched = []

    def time(self):
        return self.now

    def sleep(self, secs=0):
        # a sleeping scheduler lets time pass
        if secs and secs > 0:
            self.now += float(secs)

    def advance(self, dt: float):
        self.now += dt

    def install(self):
        global _CUR
        import time as _time
        real_time, real_sleep = _time.time, _time.sleep
        _CUR = self
        for name in MODULES_TIME:
            try:
                mod = importlib.import_module(name)
            except ImportError:
                continue
            if getattr(mod, 'time', None) in (real_time, _vtime):
                mod.time = _vtime
                self.patched.append(name + '.time')
            if getattr(mod, 'sleep', None) in (real_sleep, _vsleep):
                mod.sleep = _vsleep
                self.patched.append(name + '.sleep')
            if getattr(mod, 'now', None) in (real_time, _vtime):
                mod.now = _vtime
                self.patched.append(name + '.now')
        return self.patched
