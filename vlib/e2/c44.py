"""C44 Private workflow files are created owner-only, whatever the umask.

Monitor shape: for every umask that leaves the owner bits set (64 of them)
and every start-up scenario, a forked child (one per shard, serving its cases
in turn) sets the umask, builds a real
`cylc.flow.scheduler.Scheduler`, runs its real `install()` / `start()` (and,
per scenario, main-loop iterations or the whole `run_scheduler()`), and
lstat()s the private files named by the property at fixed checkpoints.
Oracle (from the statement): `mode & 0o077 == 0` for the private run
database and the server / client private keys at every checkpoint from
"start-up completed" on.
"""
from __future__ import annotations

import json
import os
import select
import signal
import stat
import time
import traceback

PID = 'C44'
META = {
    'engine': 'E2 funcmon (real Scheduler start-up in forked children)',
    'level': 'exploration',
    'technique': 'exhaustive sweep of the 64 owner-usable umasks x start-up '
                 'scenarios; file-mode observation after the real '
                 'Scheduler.install()/start()/run_scheduler()',
    'level_text': (
        'Each of the 64 umasks with the owner bits clear is applied in a '
        'forked child before a real Scheduler is constructed and started '
        '(fresh start of a registered workflow, of an installed workflow, '
        'restart after a run under another umask, start over stale '
        'world-accessible key files, restart over a world-accessible DB, '
        'run to completion). The private DB and private key files are '
        'lstat()ed after start-up, after main-loop iterations and after '
        'shutdown; any group/other permission bit is a violation. '
        'Exhaustive over umasks; scenarios are a fixed list.'),
    'level_note': 'exhaustive: true for the umask dimension',
    'design_ref': 'DESIGN.md §5 C44',
    # fork-heavy: forked children do not scale with cores here (§2.4)
    'shards': 6,
    'budget': {'quick': 240, 'thorough': 1200},
    'exhaustive': True,
}
RULE = ('case = (umask, scenario[, variant]); distinct by that tuple; '
        'non-trivial when the umask would leave group/other bits on a '
        'default-created file (umask & 0o066 != 0o066) or the scenario '
        'starts over pre-existing group/other-accessible private files, '
        'and all three private files were observed after start-up')
ASSUMPTIONS = [
    'the real Scheduler object is used (install(), start(), _main_loop(), '
    'run_scheduler(), shutdown()) in simulation mode, as the integration '
    'tests do; daemonization (which resets the umask to 0o022) is not '
    'exercised, so the DB is created under the swept umask itself',
    'private files are taken from the statement: <run>/.service/db, '
    '<run>/.service/server.key_secret, <run>/.service/client.key_secret, '
    'plus any other *.key_secret under the run directory',
    '"once start-up completes" = from the return of Scheduler.start(); '
    'modes during install()/configure() are recorded but not judged',
    'umasks that mask an owner bit are outside the quantifier (the '
    'scheduler cannot work under them) and are not run',
    'one child is forked per shard (re-forked after any failure) and runs '
    'that shard\'s cases one after another, setting the case umask itself '
    'and reporting the umask in force at every checkpoint (a mismatch is a '
    'harness error); a fork per case costs seconds of page-fault time in '
    'this sandbox',
    'main-loop / server sleep intervals are shortened by the harness '
    '(class attributes), nothing else is patched',
    'transient SQLite journal files are not judged',
]
MIN = {
    'umask_cases': 180, 'checkpoints_judged': 500, 'db_modes_judged': 300,
    'server_key_modes_judged': 180, 'client_key_modes_judged': 180,
    'umask_permissive_cases': 120, 'restart_cases': 60,
}
CASE_TIMEOUT = 400

UMASKS = [u for u in range(0o100)]          # owner bits clear: 0o000..0o077
SCEN_QUICK = ['fresh', 'restart', 'stale_wide_keys', 'restart_wide_db',
              'run_to_completion', 'installed_fresh']
SCEN_THOROUGH = SCEN_QUICK + [
    'restart_twice', 'fresh_cycling_live_paused', 'restart_stale_keys',
    'installed_restart', 'run_to_completion_restart']

PRIVATE = {
    'db': '.service/db',
    'server_key': '.service/server.key_secret',
    'client_key': '.service/client.key_secret',
}

FLOW_SIMPLE = (
    '[scheduler]\n    allow implicit tasks = True\n'
    '[scheduling]\n    [[graph]]\n        R1 = a => b\n'
    '[runtime]\n    [[root]]\n        [[[simulation]]]\n'
    '            default run length = PT0S\n')
FLOW_CYCLING = (
    '[scheduler]\n    allow implicit tasks = True\n'
    '[scheduling]\n    cycling mode = integer\n'
    '    initial cycle point = 1\n    final cycle point = 2\n'
    '    [[graph]]\n        P1 = a[-P1] => a => b\n'
    '[runtime]\n    [[root]]\n        [[[simulation]]]\n'
    '            default run length = PT0S\n')


def scenarios(tier):
    return SCEN_QUICK if tier == 'quick' else SCEN_THOROUGH


def ncases(tier):
    return len(UMASKS) * len(scenarios(tier))


# ---------------------------------------------------------------------------
# child side


def _modes(rund):
    """lstat the private files (and any other *.key_secret)."""
    out = {}
    for tag, rel in PRIVATE.items():
        p = os.path.join(rund, rel)
        try:
            st = os.lstat(p)
        except FileNotFoundError:
            out[tag] = None
            continue
        out[tag] = [stat.S_IMODE(st.st_mode), stat.S_ISREG(st.st_mode),
                    st.st_uid == os.getuid()]
    extra = {}
    for dirpath, dirnames, filenames in os.walk(rund):
        for f in filenames:
            if f.endswith('.key_secret'):
                rel = os.path.relpath(os.path.join(dirpath, f), rund)
                if rel not in PRIVATE.values():
                    st = os.lstat(os.path.join(dirpath, f))
                    extra[rel] = stat.S_IMODE(st.st_mode)
    out['extra_secret'] = extra
    return out


def _write_flow(rund, text):
    os.makedirs(rund, exist_ok=True)
    with open(os.path.join(rund, 'flow.cylc'), 'w') as f:
        f.write(text)


def _child_main(spec):
    """Runs in the forked child; returns a JSON-able report."""
    import asyncio

    from cylc.flow.network.server import WorkflowRuntimeServer
    from cylc.flow.scheduler import Scheduler, SchedulerStop
    from cylc.flow.scheduler_cli import RunOptions

    Scheduler.INTERVAL_MAIN_LOOP = 0.05
    Scheduler.INTERVAL_MAIN_LOOP_QUICK = 0.02
    WorkflowRuntimeServer.OPERATE_SLEEP_INTERVAL = 0.01
    WorkflowRuntimeServer.STOP_SLEEP_INTERVAL = 0.01

    scen = spec['scenario']
    u = spec['umask']
    u0 = spec['first_umask']
    wid = spec['workflow']
    home = os.path.expanduser('~')
    report = {'checkpoints': [], 'notes': []}
    flow = FLOW_CYCLING if 'cycling' in scen else FLOW_SIMPLE

    def cp(name, rund, judged=True):
        report['checkpoints'].append(
            {'at': name, 'judged': judged, 'modes': _modes(rund),
             'umask_now': _peek_umask()})

    def _peek_umask():
        cur = os.umask(0)
        os.umask(cur)
        return cur

    installed = scen.startswith('installed')
    if installed:
        os.umask(u0 if scen == 'installed_restart' else u)
        from cylc.flow.install import install_workflow
        src = os.path.join(home, 'src', wid)
        _write_flow(src, flow)
        _src, rundp, _name, named = install_workflow(
            source=__import__('pathlib').Path(src), workflow_name=wid)
        wid = named
        rund = str(rundp)
    else:
        rund = os.path.join(home, 'cylc-run', wid)
        os.umask(u0 if 'restart' in scen else u)
        _write_flow(rund, flow)
    report['run_dir'] = rund

    async def one_start(label, paused=True, main_loops=1, to_completion=False,
                        run_mode='simulation'):
        schd = Scheduler(wid, RunOptions(
            paused_start=paused, run_mode=run_mode))
        report['notes'].append(f'{label}: is_restart={schd.is_restart}')
        await schd.install()
        cp(f'{label}:after_install', rund, judged=False)
        if to_completion:
            await schd.start()
            cp(f'{label}:after_start', rund)
            orig = schd._main_loop
            n = [0]

            async def ml():
                await orig()
                n[0] += 1
                if n[0] <= 6:
                    cp(f'{label}:main_loop_{n[0]}', rund)
            schd._main_loop = ml
            try:
                await asyncio.wait_for(schd.run_scheduler(), 40)
            except SchedulerStop:
                pass
            report['notes'].append(f'{label}: main loops {n[0]}')
            report['main_loops'] = n[0]
        else:
            try:
                await schd.start()
                cp(f'{label}:after_start', rund)
                for k in range(main_loops):
                    await schd._main_loop()
                    cp(f'{label}:main_loop_{k + 1}', rund)
            finally:
                await asyncio.wait_for(
                    schd.shutdown(SchedulerStop('verif teardown')), 20)
        cp(f'{label}:after_shutdown', rund)

    def widen(paths):
        for rel in paths:
            p = os.path.join(rund, rel)
            os.makedirs(os.path.dirname(p), exist_ok=True)
            if not os.path.exists(p):
                with open(p, 'w') as f:
                    f.write('stale\n')
            os.chmod(p, 0o666)

    stale_keys = ['.service/server.key_secret', '.service/client.key_secret',
                  '.service/server.key']

    if scen in ('fresh', 'installed_fresh'):
        asyncio.run(one_start('start'))
    elif scen == 'fresh_cycling_live_paused':
        asyncio.run(one_start('start', run_mode='live'))
    elif scen == 'stale_wide_keys':
        old = os.umask(0)
        widen(stale_keys)
        os.umask(old)
        asyncio.run(one_start('start'))
    elif scen in ('restart', 'installed_restart'):
        asyncio.run(one_start('first'))
        os.umask(u)
        asyncio.run(one_start('restart'))
    elif scen == 'restart_twice':
        asyncio.run(one_start('first'))
        os.umask(u)
        asyncio.run(one_start('restart1'))
        asyncio.run(one_start('restart2'))
    elif scen == 'restart_wide_db':
        asyncio.run(one_start('first'))
        os.chmod(os.path.join(rund, '.service/db'), 0o666)
        os.umask(u)
        asyncio.run(one_start('restart'))
    elif scen == 'restart_stale_keys':
        asyncio.run(one_start('first'))
        old = os.umask(0)
        widen(stale_keys)
        os.umask(old)
        os.umask(u)
        asyncio.run(one_start('restart'))
    elif scen == 'run_to_completion':
        asyncio.run(one_start('run', paused=False, to_completion=True))
    elif scen == 'run_to_completion_restart':
        asyncio.run(one_start('first'))
        os.umask(u)
        asyncio.run(one_start('restart_run', paused=False,
                              to_completion=True))
    else:
        raise ValueError(scen)
    return report


class _Worker:
    """A forked child of the shard process that serves start-up cases.

    Forking is expensive in this sandbox (seconds of page-fault time per
    fork of the loaded interpreter), so one child is forked per shard (and
    re-forked after a failure) instead of one per case; the child sets the
    case's umask itself before it touches anything and reports the umask
    in force at every checkpoint.
    """

    def __init__(self):
        self.pid = None
        self.rfd = self.wfd = None
        self.buf = b''
        self.forks = 0

    def start(self):
        c2p_r, c2p_w = os.pipe()
        p2c_r, p2c_w = os.pipe()
        pid = os.fork()
        if pid == 0:
            rc = 0
            try:
                signal.alarm(0)
                signal.signal(signal.SIGALRM, signal.SIG_DFL)
                os.close(c2p_r)
                os.close(p2c_w)
                devnull = os.open(os.devnull, os.O_WRONLY)
                os.dup2(devnull, 1)
                inp = os.fdopen(p2c_r, 'rb')
                out = os.fdopen(c2p_w, 'wb')
                for line in inp:
                    spec = json.loads(line.decode())
                    try:
                        rep = _child_main(spec)
                    except BaseException:
                        rep = {'error': traceback.format_exc(limit=12)}
                    out.write(json.dumps(rep).encode() + b'\n')
                    out.flush()
            except BaseException:
                rc = 3
            finally:
                os._exit(rc)
        os.close(c2p_w)
        os.close(p2c_r)
        self.pid, self.rfd, self.wfd, self.buf = pid, c2p_r, p2c_w, b''
        self.forks += 1

    def stop(self, kill=True):
        if self.pid is None:
            return
        for fd in (self.wfd, self.rfd):
            try:
                os.close(fd)
            except OSError:
                pass
        if kill:
            try:
                os.kill(self.pid, signal.SIGKILL)
            except OSError:
                pass
        try:
            os.waitpid(self.pid, 0)
        except ChildProcessError:
            pass
        self.pid = None

    def call(self, spec, timeout):
        if self.pid is None:
            self.start()
        try:
            os.write(self.wfd, json.dumps(spec).encode() + b'\n')
        except OSError as exc:
            self.stop()
            return {'error': f'worker pipe broken: {exc}'}
        deadline = time.monotonic() + timeout
        while b'\n' not in self.buf:
            left = deadline - time.monotonic()
            if left <= 0:
                self.stop()
                return {'error': f'child timed out after {timeout}s'}
            ready, _, _ = select.select([self.rfd], [], [], min(left, 1.0))
            if ready:
                b = os.read(self.rfd, 1 << 16)
                if not b:
                    self.stop()
                    return {'error': 'child died without a report'}
                self.buf += b
        line, self.buf = self.buf.split(b'\n', 1)
        try:
            return json.loads(line.decode())
        except ValueError:
            self.stop()
            return {'error': 'child produced an unreadable report'}


_WORKER = _Worker()


def _fork_run(spec, timeout):
    rep = _WORKER.call(spec, timeout)
    if 'error' in rep and _WORKER.pid is not None:
        # the child survived but the case failed inside it: start the next
        # case from a fresh child so no half-started scheduler lingers
        _WORKER.stop()
    return rep


def teardown_shard(ctx):
    ctx.count('worker_forks', _WORKER.forks)
    _WORKER.stop()


def on_timeout(ctx, i):
    _WORKER.stop()


# ---------------------------------------------------------------------------
# parent side


def setup_shard(ctx):
    # import once so every forked child shares the loaded modules
    import cylc.flow.scheduler  # noqa: F401
    import cylc.flow.scheduler_cli  # noqa: F401
    import cylc.flow.install  # noqa: F401


def umask_class(u):
    """Mechanism class of a umask (for finding keys; no raw values)."""
    g, o = (u >> 3) & 7, u & 7
    parts = []
    parts.append('group-' + ('open' if g & 6 != 6 else 'masked'))
    parts.append('other-' + ('open' if o & 6 != 6 else 'masked'))
    return '+'.join(parts)


def run_case(ctx, i, rng):
    scens = scenarios(ctx.tier)
    u = UMASKS[i % len(UMASKS)]
    scen = scens[i // len(UMASKS)]
    first_umask = rng.choice([0o000, 0o002, 0o022, 0o027, 0o077,
                              rng.choice(UMASKS)])
    wid = f'w{i}x{rng.randrange(16 ** 4):04x}'
    spec = {'umask': u, 'scenario': scen, 'first_umask': first_umask,
            'workflow': wid}
    rep = _fork_run(spec, 300)
    if 'error' in rep:
        raise RuntimeError(
            f'scheduler child failed for umask {u:03o} scenario {scen}: '
            + rep['error'][-1500:])
    rund = rep['run_dir']
    # parent-side observation once the child has finished the case
    rep['checkpoints'].append(
        {'at': 'parent:after_case', 'judged': True, 'modes': _modes(rund),
         'umask_now': None})
    permissive = (u & 0o066) != 0o066
    pre_wide = scen in ('stale_wide_keys', 'restart_wide_db',
                        'restart_stale_keys')
    ctx.count('umask_cases')
    ctx.count('scenario:' + scen)
    if permissive:
        ctx.count('umask_permissive_cases')
    if 'restart' in scen:
        ctx.count('restart_cases')
    if pre_wide:
        ctx.count('preexisting_wide_cases')
    seen_after_start = {k: False for k in PRIVATE}
    desc = {'umask': f'{u:03o}', 'scenario': scen,
            'first_umask': f'{first_umask:03o}'}
    for c in rep['checkpoints']:
        at = c['at']
        phase = at.split(':', 1)[1]
        if c.get('umask_now') is not None and not at.startswith(
                'first') and c['umask_now'] != u:
            # the process umask in force is not the one this case claims
            raise RuntimeError(
                f'umask at {at} is {c["umask_now"]:03o}, expected {u:03o}')
        running = phase.startswith(('after_start', 'main_loop'))
        if not c['judged']:
            ctx.count('checkpoints_recorded_not_judged')
            continue
        ctx.count('checkpoints_judged')
        for tag in PRIVATE:
            m = c['modes'].get(tag)
            if m is None:
                if running:
                    # the property quantifies over files that exist; a
                    # missing private file while running is a harness fault
                    raise RuntimeError(
                        f'{tag} missing at {at} (umask {u:03o}, {scen})')
                continue
            mode, isreg, mine = m
            if running:
                seen_after_start[tag] = True
            ctx.count(f'{tag}_modes_judged')
            if not isreg:
                ctx.count('private_path_not_regular_file')
            bad = mode & 0o077
            if bad:
                first = at.startswith(('start', 'run', 'first'))
                how = ('restart' if not first else 'fresh')
                if pre_wide:
                    how += '-preexisting-wide'
                if phase.startswith('after_shutdown') or at.startswith(
                        'parent'):
                    how += '-after-shutdown'
                bits = ('group' if bad & 0o070 else '') + (
                    '+' if bad & 0o070 and bad & 0o007 else '') + (
                    'other' if bad & 0o007 else '')
                ctx.violation(
                    f'C44:{tag}:{how}:{bits}-accessible',
                    f'{PRIVATE[tag]} has mode {mode:04o} at {at} when the '
                    f'scheduler ran under umask {u:03o} ({scen})',
                    {**desc, 'checkpoint': at, 'file': PRIVATE[tag],
                     'mode': f'{mode:04o}', 'umask_class': umask_class(u),
                     'all_checkpoints': rep['checkpoints'],
                     'notes': rep['notes']})
        for rel, mode in c['modes'].get('extra_secret', {}).items():
            ctx.count('extra_secret_modes_judged')
            if mode & 0o077:
                ctx.violation(
                    'C44:other-key-secret:group-or-other-accessible',
                    f'{rel} has mode {mode:04o} at {at} under umask '
                    f'{u:03o} ({scen})', {**desc, 'checkpoint': at})
    if not all(seen_after_start.values()):
        raise RuntimeError(
            f'private files not all observed after start-up: '
            f'{seen_after_start} (umask {u:03o}, {scen})')
    if scen.startswith('run_to_completion'):
        ctx.count('main_loops_observed', rep.get('main_loops', 0))
        if rep.get('main_loops', 0) >= 2:
            ctx.count('ran_to_completion')
    ctx.evaluated((u, scen), nontrivial=permissive or pre_wide)
    if permissive and len(ctx.samples) < ctx.MAX_SAMPLES and (
            (i // 7) % 5 == ctx.shard % 5 or ctx.nshards == 1):
        ctx.sample({**desc, 'notes': rep['notes'], 'checkpoints': [
            {'at': c['at'], 'judged': c['judged'], 'modes': {
                k: (f'{v[0]:04o}' if isinstance(v, list) else v)
                for k, v in c['modes'].items()}}
            for c in rep['checkpoints']]})


def finalize(merged, tier):
    c = merged['counters']
    n = len(scenarios(tier)) * len(UMASKS)
    cov = {
        'exhaustive': c.get('umask_cases', 0) == n,
        'umasks': len(UMASKS),
        'scenarios': scenarios(tier),
    }
    out = {'coverage': cov}
    if c.get('umask_cases', 0) != n:
        out['inconclusive'] = (
            f'only {c.get("umask_cases", 0)} of {n} (umask, scenario) '
            'cases completed; the sweep is claimed exhaustive'
            + (' (budget cap hit)' if merged['truncated'] else ''))
    if c.get('scenario:run_to_completion', 0) and c.get(
            'ran_to_completion', 0) < 0.9 * c.get(
                'scenario:run_to_completion', 0):
        out['inconclusive'] = 'run_to_completion scenarios did not run'
    return out
