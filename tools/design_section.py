#!/usr/bin/env python3
"""Regenerate DESIGN.md §10.5-10.7 (fixed / known findings, seeded changes)
from known_findings.json and seeded/*/ (run by hand after changing them)."""
import json
import os
import re

ROOT = os.path.dirname(os.path.dirname(os.path.abspath(__file__)))
K = json.load(open(os.path.join(ROOT, 'known_findings.json')))
# first-pass misses and what was strengthened (kept by hand)
MISSES = {
    'C02': 'job-file preparation never failed in the workload -> planned submission failures are now realised, for a third of them, as an injected I/O error in JobFileWriter.write; C02 bounds *preparations* (not only launched jobs) by (N+1)(M+1)',
    'C06': 'no retries in the C06 workload and no direct check of the held flag -> retries added; every pooled task that the hold model says is held must carry the flag (active tasks included)',
    'C11': 'only the function-level half existed -> E1 half added (retention judged in running schedulers, with --wait triggers; manual triggers are no longer exempt)',
    'C26': 'no `stop --flow=N` in the command scripts (the only command that edits flow numbers in place) -> added',
    'C27': 'reloads never changed output definitions -> "reworded" variant (new message text for the custom outputs of a task)',
    'C30': 'history rows of non-target tasks were not compared -> committed task_states/task_outputs rows of bystanders are compared around every removal; multi-flow removal scenario added',
    'C36': 'a Jinja2-made continuation only existed at item level, where the changed code raises a parse error (discarded case) -> the same inside a multi-line string, plus a MIN on its effectiveness',
    'C45': 'absolute triggers only on the initial point and only 160 cases -> later-point absolute triggers (foo[3]), warm starts, 500 cases',
    'C10b': 'the monitor only looked at the return value of process_message -> the confirmation poll must really be started within 6 iterations; stale messages are injected ahead of a new message of the same job',
    'C03b': 'no xtriggers in the C03 workload and the stall oracle required satisfied xtriggers -> xtrigger workloads; a stall with a task that only waits for a pending xtrigger is a violation',
    'C19b': 'broadcast preludes only put -> put + put + clear in one iteration',
    'C09b': 'needs clock-expire (datetime cycling), outside the C09 workload -> caught by C32 after failing, success-required clock-expire tasks were added there',
    'C26b': 'needs the removal of a runahead-limited parentless task whose definition has a future trigger on another recurrence -> generator option for such tasks (R1 = "x[+P1] => y" with P1 = y), future offsets in the C26 workload, and a removal command whose targets ("@runahead") are resolved against the pool when it is issued',
    'C27b': 'reloads were never preceded by removals / manual sets, so no pooled task had a prerequisite state differing from the recorded outputs -> such commands added before the reload',
    'C28b': 'retained finished group-start members with dependants were rarely triggered together -> trigger target "@finished-group" (a pooled finished task plus instances depending on it), resolved when issued',
    'C43b': 'stop tasks always finished complete -> stop-task cases with custom required outputs and jobs that succeed without them',
    'C46b': 'cycle points were single-digit -> runs with 10-12 cycles and start tasks on both sides of the one/two-digit boundary',
    'C13b': 'absolute trigger points were always written in the canonical spelling of the workflow -> the same instants written truncated (T06), in extended format and in another time zone',
    'C41b': 'no [environment filter] in the workload -> include/exclude filters with include lists in another order than the definitions',
    'C23b': 'token objects were always built with their fields in canonical order -> fields given in shuffled order, and duplicate(key=value) results, must hash like their equals',
    'C07b': 'every recurrence started at or after the initial point (the same change is caught by C16 at function level) -> recurrences 0/P3, -1/P3, -P1/P3',
    'C31b': 'start points and all later points were single-digit -> a quarter of the runs are warm starts (2..9) of workflows with 10-12 cycles',
    'C48b': 'histories were too short to reach run10 -> one history in twelve begins with 9-12 numbered installs',
    'C11b': 'no task definition was also the target of a suicide trigger -> a third of the plain/user definitions loaded through WorkflowConfig get a "=> !a" line',
    'C19c': 'no "release everything" after holds of not-yet-spawned tasks, and the stale table is healed by the next removal of any task -> hold + release-all preludes with a stop in the very next iteration (C06 caught it as it stood)',
    'C29c': 'restart is outside the C29 workload -> caught by C19 after manual `cylc set --out/--pre` commands were added to its preludes (that widening also found the fixed defect 16987d3)',
    'C30c': 'restart is outside the C30 workload -> caught by C19: the snapshot comparison now includes how each prerequisite was satisfied (forced / naturally)',
    'C20c': 'no absolute triggers in the C20 workload -> caught by C45 (abs-prerequisite-unsatisfied:after-restart)',
    'C01b': 'needs absolute triggers, which the C01 workload does not generate (its closure model is not validated for them) -> caught by C45; C01 unchanged',
}


REVERT_NOTES = {
    '4dba221': 'needs a family proxy whose pruned child is re-visited by the family ascent; found once, by a thorough run',
}


def main():
    out = []
    A = out.append
    A('### 10.5 Genuine defects repaired in cylc-flow (one `fix:` commit each)\n')
    A('All were found by the checks named, reproduced against the real code '
      'from the replay file, repaired minimally, and the repository\'s tests '
      're-run.\n')
    for f in K['fixed']:
        A('* ' + f[len('fixed: '):])
    A('\n### 10.6 Genuine defects recorded, not repaired (`known_findings.json`)\n')
    A('Keyed by mechanism; a different violation of the same property still '
      'fails the check.\n')
    byp = {}
    for x in K['known']:
        byp.setdefault(x['property'], []).append(x)
    for p in sorted(byp):
        A(f'**{p}**\n')
        for x in byp[p]:
            A(f"* `{x['key']}` — {x['what']} *Not repaired:* "
              f"{x.get('why_not_fixed', '')}")
        A('')
    A('### 10.7 Seeded changes (independent sub-agents) and which checks catch them\n')
    A('Each change was produced by a fresh sub-agent that saw only the '
      'property text and a scratch worktree of the repository (nothing from '
      '`/verif`), had to keep the existing tests passing and to deliver a '
      'demonstration; a second round asked for a different mechanism for 16 '
      'scheduler properties. They are stored in `seeded/<id>/` (`patch.diff`, '
      '`demo.py`, `meta.json`, `result.json`) and are never committed to '
      '`/repo`. `tools/mutants.py eval <id>` applies one to a scratch '
      'worktree and runs the quick check; `confirm` does the same through '
      '`git -C /repo apply` / `checkout`.\n')
    A('| id | property | change (summary) | caught by (quick, seed 0) | first pass |')
    A('|---|---|---|---|---|')
    sd = os.path.join(ROOT, 'seeded')
    n = caught_first = 0
    for name in sorted(os.listdir(sd)):
        d = os.path.join(sd, name)
        try:
            meta = json.load(open(os.path.join(d, 'meta.json')))
            res = json.load(open(os.path.join(d, 'result.json')))
        except Exception:
            continue
        n += 1
        caught = sorted({r['check'] for r in res if r['exit'] == 1})
        keys = sorted({k.split(':', 1)[1] for r in res if r['exit'] == 1
                       for k in r['new_violation_keys']})[:2]
        first = 'missed: ' + MISSES[name] if name in MISSES else 'caught'
        if name not in MISSES:
            caught_first += 1
        summ = re.sub(r'\s+', ' ', (meta.get('summary') or ''))[:160]
        A(f"| {name} | {meta.get('property')} | {summ} | "
          f"{', '.join(caught) or '**not caught**'}"
          f"{' (' + '; '.join(keys) + ')' if keys else ''} | {first} |")
    A(f'\n{n} seeded changes; {caught_first} caught by the checks as they '
      f'stood when the change arrived, {n - caught_first} missed at first '
      'and caught after the strengthening described in the last column '
      '(every strengthened check was re-run on the unchanged tree over '
      'several seeds).\n')
    # 10.8 fix-revert guard
    rdir = os.path.join(ROOT, 'reverts')
    if os.path.isdir(rdir):
        A('\n### 10.8 Fix-revert guard\n')
        A('Every `fix:` commit repaired a defect that a check had found; '
          'taking the repair out again is the most realistic '
          'property-breaking change there is. `tools/reverts.py make` turns '
          'each repair into a seeded change (`git revert --no-commit` in a '
          'scratch worktree, stored under `reverts/<hash>/`); '
          '`tools/reverts.py eval` runs the owning check (quick tier, seeds '
          '0,1,2,... until one fails; checks of related properties where '
          'noted) against a scratch worktree carrying the revert. Not run by '
          'any registered command.\n')
        A('| fix | property | defect | verdict |')
        A('|---|---|---|---|')
        ncaught = ntotal = 0
        for h in sorted(os.listdir(rdir)):
            d = os.path.join(rdir, h)
            try:
                meta = json.load(open(os.path.join(d, 'meta.json')))
            except Exception:
                continue
            res = []
            if os.path.exists(os.path.join(d, 'result.json')):
                res = json.load(open(os.path.join(d, 'result.json')))
            what = meta['summary'].split(': ', 1)[-1]
            what = re.sub(r'\s+', ' ', what)[:140]
            if meta.get('skipped'):
                verdict = 'not evaluated: ' + meta['skipped']
            else:
                ntotal += 1
                hit = [r for r in res if r['exit'] == 1]
                if hit:
                    ncaught += 1
                    r = hit[0]
                    verdict = (f"caught by {r['check']} (quick, seed "
                               f"{r['seed']}: "
                               + '; '.join(r['new_violation_keys'][:2]) + ')')
                elif res:
                    verdict = ('**not caught** (' + ', '.join(sorted({
                        f"{r['check']} seed {r['seed']}" for r in res}))
                        + ')' + (': ' + REVERT_NOTES[h]
                                 if h in REVERT_NOTES else ''))
                else:
                    verdict = 'not evaluated'
            A(f"| {h} | {meta['property']} | {what} | {verdict} |")
        A(f'\n{ncaught} of {ntotal} reverts that apply cleanly are caught '
          'within the quick tier.\n')
    text = '\n'.join(out)
    p = os.path.join(ROOT, 'DESIGN.md')
    s = open(p).read()
    i = s.index('### 10.5 Genuine defects repaired')
    open(p, 'w').write(s[:i] + text + '\n')
    print('sections 10.5-10.7 regenerated:', n, 'seeded changes')


if __name__ == '__main__':
    main()
