"""C27 Reload preserves task state."""
from __future__ import annotations

import copy

from vlib.e1 import runner, scripts
from vlib.e1.common import E1_META, E1_NOTE
from vlib.gen import wfgen

PID = 'C27'
META = dict(E1_META, **{
    'technique': 'snapshot-equality monitor around TaskPool.reload in real '
                 'scheduler runs, with unchanged / extended / shrunk '
                 'definitions installed before the reload command',
    'level_text': (
        'At random iterations of generated runs the workflow definition is '
        'rewritten (unchanged, extended by a new arrow or task, shrunk by '
        'removing an arrow or an unreferenced task) and a reload is '
        'requested through the real command. The pool is snapshotted at the '
        'entry and exit of TaskPool.reload. Oracle: every task present '
        'before keeps status, flow numbers, submit number, held / queued / '
        'runahead flags and completed outputs; prerequisites that exist in '
        'both definitions keep their satisfaction; a new prerequisite is '
        'satisfied only if that output was recorded earlier (observed on '
        'processed messages); tasks of removed definitions are dropped only '
        'if waiting.'),
    'level_note': E1_NOTE,
    'design_ref': 'DESIGN.md §5 C27',
})
RULE = ('case = generated workflow + plan x reload variant x iteration; '
        'distinct by event census; non-trivial when the pool was non-empty '
        'at the reload')
ASSUMPTIONS = ['shrunk definitions remove only tasks not referenced by any '
               'arrow, or one arrow']
MIN = {'c27.reloads': 150, 'c27.tasks_compared': 800,
       'c27.reload:extended': 30, 'c27.reload:shrunk': 30,
       'c27.kept_prereqs_compared': 300, 'c27.new_prereqs_checked': 15}
NCASES = {'quick': 800, 'thorough': 10000}
MONS = ['c27', 'c26']


def ncases(tier):
    return NCASES[tier]


def variant_of(rng, gt):
    """Return (variant, new_gt, info) for a changed definition."""
    v = rng.choice(['unchanged', 'extended', 'extended', 'shrunk', 'shrunk',
                    'reworded'])
    g2 = copy.deepcopy(gt)
    info = {'variant': v, 'removed_tasks': [], 'new_atoms': []}
    if v == 'reworded':
        # same outputs, new message text for the custom outputs of one task
        # (a pooled task that has completed one keeps it completed)
        cands = [n for n in g2['names'] if g2['tasks'][n]['outputs']]
        if cands:
            n = rng.choice(cands)
            for o, spec in g2['tasks'][n]['outputs'].items():
                spec['message'] = spec['message'] + ' (v2)'
            info['reworded'] = n
        else:
            v = info['variant'] = 'unchanged'
    if v == 'extended':
        if rng.random() < 0.7:
            # new arrow X => Y inside an existing section (X before Y)
            secs = [s for s in g2['sections']
                    if len(wfgen.section_tasks(s)) >= 2]
            if secs:
                sec = rng.choice(secs)
                mem = sorted(wfgen.section_tasks(sec),
                             key=g2['names'].index)
                i = rng.randrange(len(mem) - 1)
                x, y = mem[i], rng.choice(mem[i + 1:])
                mode = g2['tasks'][x]['mode']
                out = 'failed' if mode == 'fail_required' else 'succeeded'
                step = wfgen.rec_step(sec['rec'])
                off = rng.choice([0, 0, -step]) if step else 0
                atom = ('atom', x, off, out)
                sec['arrows'].append({'lhs': atom, 'rhs': [y]})
                info['new_atoms'].append([x, off, out, y])
            else:
                v = info['variant'] = 'unchanged'
        else:
            n = 'newt'
            g2['names'].append(n)
            g2['tasks'][n] = copy.deepcopy(g2['tasks'][g2['names'][0]])
            g2['tasks'][n].update({'outputs': {}, 'mode': 'succ_required',
                                   'exec_retries': 0, 'submit_retries': 0})
            rng.choice(g2['sections'])['lone'].append(n)
    elif v == 'shrunk':
        referenced = set()
        for sec in g2['sections']:
            for ar in sec['arrows']:
                referenced.update(ar['rhs'])
                referenced.update(a[1] for a in wfgen.atoms(ar['lhs']))
        free = [n for n in g2['names'] if n not in referenced]
        arrows = [(s, a) for s in g2['sections'] for a in s['arrows']]
        if free and len(g2['names']) > 2 and rng.random() < 0.6:
            n = rng.choice(free)
            g2['names'].remove(n)
            del g2['tasks'][n]
            for sec in g2['sections']:
                sec['lone'] = [x for x in sec['lone'] if x != n]
            g2['sections'] = [s for s in g2['sections']
                              if wfgen.section_tasks(s)] or g2['sections']
            info['removed_tasks'].append(n)
        elif arrows:
            sec, ar = rng.choice(arrows)
            sec['arrows'].remove(ar)
            for t in ar['rhs'] + [a[1] for a in wfgen.atoms(ar['lhs'])
                                  if a[2] == 0]:
                if t not in wfgen.section_tasks(sec):
                    sec['lone'].append(t)
            # offset-only parents must keep cycling somewhere
            on_some = set()
            for s in g2['sections']:
                on_some.update(wfgen.section_tasks(s))
            for n in g2['names']:
                if n not in on_some:
                    sec['lone'].append(n)
        else:
            v = info['variant'] = 'unchanged'
    g2['flow_text'] = wfgen.render(g2)
    return v, g2, info


def run_case(ctx, i, rng):
    feat = wfgen.Features(max_tasks=5, retries=rng.random() < 0.3,
                          queues=rng.random() < 0.3,
                          runahead=['P1', 'P2', 'P4', None])
    gt = wfgen.gen_workflow(rng, feat)
    case = runner.build_case(rng, gt, rng.choice(['all-complete', 'mixed']),
                             hostile=0.3)
    sc = []
    if rng.random() < 0.4:
        sc += scripts.random_script(rng, case, kinds=['hold', 'hold_point'],
                                    max_cmds=2, horizon=8)
    if rng.random() < 0.35:
        # removals / manual sets before the reload leave pooled tasks whose
        # prerequisite state differs from what the DB records of outputs
        sc += scripts.random_script(rng, case, kinds=['remove', 'remove',
                                                      'set', 'trigger'],
                                    max_cmds=3, horizon=12)
    for _ in range(rng.choice([1, 1, 2])):
        v, g2, info = variant_of(rng, gt)
        act = {'at': rng.randint(2, 16), 'cmd': 'reload_workflow',
               'args': {}, 'new_flow': g2['flow_text']}
        act.update(info)
        sc.append(act)
    sc.sort(key=lambda a: a['at'])
    # only the last definition change matters per reload; keep it simple:
    results = runner.run_case(ctx, f'c{i}', case,
                              [{'name': 'run', 'script': sc}], MONS, PID)
    if not results:
        ctx.evaluated(('discard', i), nontrivial=False)
        return
    n = ((results[0].get('monitors') or {}).get('c27') or {}).get(
        'tasks_compared', 0)
    ctx.evaluated(runner.trace_key(results), nontrivial=n > 0)
    ctx.sample({'flow': gt['flow_text'],
                'reloads': [{k: a[k] for k in ('at', 'variant',
                                               'removed_tasks', 'new_atoms')}
                            for a in sc if a['cmd'] == 'reload_workflow']})
