"""C13 Prerequisite satisfaction equals the trigger expression's truth.

Monitor shape: generated trigger expressions are written into a flow.cylc,
loaded by the real WorkflowConfig; for each dependent task and several cycle
points a real TaskProxy is built and upstream outputs are delivered through
the real TaskProxy.satisfy_me in generated orders, interleaved with
is_satisfied() calls.  After every step the real answer is compared with the
expression tree evaluated by vlib.models.boolexpr over the set of delivered
outputs (pre-initial atoms true).
"""
from __future__ import annotations

import datetime as dt
import re
import os

from vlib.gen import graphgen as G
from vlib.models import boolexpr as B
from vlib.models import graphsem as S

PID = 'C13'
META = {
    'engine': 'E2 funcmon',
    'level': 'exploration',
    'technique': 'post-condition monitor on TaskProxy/Prerequisite '
                 'satisfaction against a truth-table evaluation of the '
                 'generated trigger expression, all satisfaction subsets',
    'level_text': (
        'Random AND/OR/parenthesised trigger expressions (<= 6 atoms; '
        'standard, alias and custom outputs with generated messages; cycle '
        'offsets, pre-initial and absolute points; integer and time-zoned '
        'datetime cycling; task names that are prefixes/suffixes/substrings '
        'of one another) go through the real WorkflowConfig -> TaskDef -> '
        'TaskProxy -> Prerequisite path.  For every dependent task, at the '
        'initial and later cycle points, every subset of the atoms is '
        'reached by delivering outputs through satisfy_me in random orders '
        '(with distractor and duplicate deliveries, and is_satisfied() calls '
        'skipped at random to exercise the cache); after each step '
        'is_satisfied() must equal the expression\'s truth.  Held = no '
        'disagreement on the expressions explored.'),
    'level_note': 'Trusted: vlib/models/boolexpr.py, graphsem.py; the point '
                  'arithmetic of this module (integers, fixed-offset '
                  'datetimes); cylc\'s cycle point parsing is used only to '
                  'build the point object / canonical string of a point this '
                  'module computed.',
    'design_ref': 'DESIGN.md §5 C13',
    'budget': {'quick': 120, 'thorough': 900},
}
RULE = ('case = one generated workflow (6-8 dependent tasks, one or two '
        'trigger expressions each); an explored unit is (expression text, '
        'cycle point offset index, cycling mode), distinct by that; '
        'non-trivial when the expression has >= 2 atoms not all pre-initial; '
        'states_compared counts every (object, delivered-subset) comparison')
ASSUMPTIONS = [
    'cold start only (start point = initial point)',
    'a workflow the loader rejects is a discard, not a verdict (counted)',
    'offsets are whole multiples of hours/days or integers; month/year '
    'arithmetic is not generated',
    'upstream outputs are delivered with the canonical cycle point string '
    'cylc itself gives the point computed by this module',
    'custom output messages follow the documented message rules; classes of '
    'messages/names that break the implementation are reported under their '
    'own mechanism keys',
    'GraphNodeParser\'s process-wide node cache is cleared before each '
    'config load (one scheduler process loads one workflow)',
]
MIN = {
    'configs_loaded': 150, 'proxies_built': 2000, 'states_compared': 30000,
    'subsets_covered': 10000, 'expr_with_or': 400, 'expr_with_parens': 150,
    'atoms_preinitial': 300, 'mode:integer': 50, 'mode:datetime': 50,
    'custom_output_atoms': 300, 'offset_atoms': 500,
    'cache_hit_steps': 2000, 'name_collision_exprs': 200,
    'input:duplicate-node': 100,
    'input:duplicate-node-with-offset-and-alias-qualifier': 5,
    'input:or-with-message-ending-in-nonword-char': 15,
    'input:or-with-atom-text-prefix-of-another': 25,
    'input:or-with-same-output-at-points-n-and-minus-n': 5,
}
NCASES = {'quick': 480, 'thorough': 6000}


def ncases(tier):
    return NCASES[tier]


_real = {}


def setup_shard(ctx):
    from optparse import Values
    from cylc.flow.config import WorkflowConfig
    from cylc.flow.cycling.loader import get_point
    from cylc.flow.graphnode import GraphNodeParser
    from cylc.flow.id import Tokens
    from cylc.flow.task_proxy import TaskProxy
    import logging
    logging.getLogger('cylc').setLevel(logging.CRITICAL)
    _real.update(Values=Values, WorkflowConfig=WorkflowConfig,
                 get_point=get_point, GraphNodeParser=GraphNodeParser,
                 Tokens=Tokens, TaskProxy=TaskProxy)
    d = os.path.join(ctx.workdir, 'wf')
    os.makedirs(d, exist_ok=True)
    _real['dir'] = d


# -- point models (own arithmetic) -----------------------------------------

class IntegerPoints:
    mode = 'integer'

    def __init__(self, rng):
        self.icp = rng.choice([1, 1, 1, 0, 2, 10])
        self.step = rng.choice([1, 1, 1, 2])
        self.section = f'P{self.step}'

    def scheduling(self):
        return [('cycling mode', 'integer'),
                ('initial cycle point', str(self.icp)),
                ('final cycle point', str(self.icp + 12))]

    def scheduler(self):
        return []

    def offsets(self):
        s = self.step
        return ['-P%d' % s, '-P%d' % s, '-P%d' % (2 * s), '-P%d' % (3 * s),
                '+P%d' % s, '^', '^+P%d' % s, str(self.icp + s),
                str(self.icp + 2 * s), '-P1']

    def point(self, k):
        return self.icp + k * self.step

    def apply(self, offset, p):
        """(upstream point, is-pre-initial) for offset text at point p."""
        def interval(s):
            sign = -1 if s.startswith('-') else 1
            body = s.lstrip('+-')
            assert body.startswith('P') and body[1:].isdigit(), s
            return sign * int(body[1:])
        if not offset:
            q = p
        elif offset.startswith('^'):
            q = self.icp + (interval(offset[1:]) if len(offset) > 1 else 0)
        elif offset.lstrip('-').isdigit():
            q = int(offset)
        else:
            q = p + interval(offset)
        return q, q < self.icp

    def text(self, q):
        return str(q)


class DatetimePoints:
    mode = 'datetime'
    TZS = {'Z': 0, '+01': 60, '-03': -180, '-0330': -210, '+0530': 330}

    def __init__(self, rng):
        self.tz = rng.choice(sorted(self.TZS))
        self.icp = rng.choice([
            dt.datetime(2020, 1, 1, 0, 0), dt.datetime(2019, 12, 31, 18, 0),
            dt.datetime(2024, 2, 28, 12, 0), dt.datetime(2000, 1, 1, 0, 0)])
        self.step_h = rng.choice([6, 6, 12, 24, 1])
        self.section = ('P1D' if self.step_h == 24 and rng.random() < 0.7
                        else f'PT{self.step_h}H')
        self.icp_style = rng.choice(['basic', 'basic-short', 'extended'])

    def _dur(self, hours):
        if hours % 24 == 0 and hours:
            return f'P{hours // 24}D'
        return f'PT{hours}H'

    def scheduling(self):
        d = self.icp
        if self.icp_style == 'basic':
            s = f'{d:%Y%m%dT%H%M}{self.tz}'
        elif self.icp_style == 'basic-short':
            s = f'{d:%Y%m%dT%H}{self.tz}'
        else:
            tz = self.tz if self.tz == 'Z' else (
                self.tz[:3] + (':' + self.tz[3:] if len(self.tz) > 3 else ''))
            s = f'{d:%Y-%m-%dT%H:%M}{tz}'
        return [('initial cycle point', s)]

    def scheduler(self):
        return [('cycle point time zone', self.tz)]

    def offsets(self):
        h = self.step_h
        return ['-' + self._dur(h), '-' + self._dur(h), '-' + self._dur(2 * h),
                '-P1D', '+' + self._dur(h), '^', '^+' + self._dur(h),
                self.text(self.point(1)), self.text(self.point(2)),
                '-' + self._dur(3 * h)] + [
                    self.spell(self.point(k), style)
                    for k, style in ((1, 'short'), (2, 'extended'),
                                     (1, 'othertz'), (3, 'othertz-ext'),
                                     (2, 'short'))]

    def spell(self, q, style):
        """Another legal spelling of the absolute point q (same instant)."""
        def ext(tz):
            return tz if tz == 'Z' else (
                tz[:3] + (':' + tz[3:] if len(tz) > 3 else ''))
        if style == 'short':
            return f'{q:%Y%m%dT%H}{self.tz}'
        if style == 'extended':
            return f'{q:%Y-%m-%dT%H:%M}{ext(self.tz)}'
        others = sorted(t for t in self.TZS if t != self.tz)
        other = others[(q.hour + q.day) % len(others)]
        shifted = q + dt.timedelta(
            minutes=self.TZS[other] - self.TZS[self.tz])
        if style == 'othertz':
            return f'{shifted:%Y%m%dT%H%M}{other}'
        return f'{shifted:%Y-%m-%dT%H:%M}{ext(other)}'

    ABS_RE = re.compile(
        r'^(\d{4})-?(\d{2})-?(\d{2})T(\d{2})(?::?(\d{2}))?'
        r'(Z|[+-]\d{2}(?::?\d{2})?)$')

    def parse_abs(self, text):
        m = self.ABS_RE.match(text)
        assert m, text
        y, mo, d, h, mi, tz = m.groups()
        q = dt.datetime(int(y), int(mo), int(d), int(h), int(mi or 0))
        tz = tz.replace(':', '')
        return q + dt.timedelta(minutes=self.TZS[self.tz] - self.TZS[tz])

    def point(self, k):
        return self.icp + dt.timedelta(hours=k * self.step_h)

    def apply(self, offset, p):
        def interval(s):
            sign = -1 if s.startswith('-') else 1
            body = s.lstrip('+-')
            if body.startswith('PT') and body.endswith('H'):
                return sign * dt.timedelta(hours=int(body[2:-1]))
            if body.startswith('P') and body.endswith('D'):
                return sign * dt.timedelta(days=int(body[1:-1]))
            raise AssertionError(s)
        if not offset:
            q = p
        elif offset.startswith('^'):
            q = self.icp + (interval(offset[1:]) if len(offset) > 1
                            else dt.timedelta(0))
        elif offset[0].isdigit():
            q = self.parse_abs(offset)
        else:
            q = p + interval(offset)
        return q, q < self.icp

    def text(self, q):
        return f'{q:%Y%m%dT%H%M}{self.tz}'


# -- workload ---------------------------------------------------------------

MSG_PLAIN = ('data ready', 'file written', 'step 2 done', 'x', 'out_1',
             'élan vital', 'a b c', 'ready', 'checkpoint 10')
MSG_PUNCT_INSIDE = ('file.nc written', 'x=1 ok', 'a,b', '50% done ok',
                    "it's ok", '-1', 'WARNING: low disk', 'a/b c',
                    'x [y] z', '!go now')
MSG_TRAILING_NONWORD = ('done!', 'the end.', '100%', 'ok?', 'a+',
                        'stage [2]', 'out x done, ok!', '!')
# messages containing the graph operator characters themselves
MSG_OPERATOR_CHARS = ('p (q) r', 'a|b c', 'x & y', 'x) or (True', '(x)',
                      'a&b')
MSG_QUOTE = ('say "hi" ok', 'back\\slash', 'tab\\there')
CUSTOM_NAMES = ('x', 'y', 'x1', 'out-a', 'x_y', 'xy', 'ready')


def build_case(rng):
    """Returns (graph, runtime, messages, points model, class label)."""
    pm = DatetimePoints(rng) if rng.random() < 0.4 else IntegerPoints(rng)
    r = rng.random()
    names, msg_class = 'word', 'plain'
    if r < 0.05:
        names = 'nonword-inner'
    elif r < 0.08:
        names = 'nonword-trailing'
    elif r < 0.18:
        msg_class = 'trailing-nonword'
    elif r < 0.20:
        msg_class = 'quote'
    elif r < 0.26:
        msg_class = 'nested-text'
    elif r < 0.32:
        msg_class = 'operator-chars'
    elif r < 0.50:
        msg_class = 'punct-inside'
    pool = G._name_pool(names)
    n_up = rng.randint(3, 6)
    if names != 'word':
        special = (G.NONWORD_INNER_NAMES if names == 'nonword-inner'
                   else G.NONWORD_TRAILING_NAMES)
        first = rng.choice(special)
        ups = [first] + rng.sample([p for p in pool if p != first], n_up - 1)
    else:
        # colliding names: take a seed name and its relatives first
        ups = rng.sample(pool, n_up)
    customs, messages = {}, {}
    for t in ups:
        if rng.random() < 0.5:
            outs = rng.sample(CUSTOM_NAMES, rng.randint(1, 2))
            customs[t] = outs
            for o in outs:
                if msg_class == 'trailing-nonword' and rng.random() < 0.6:
                    m = rng.choice(MSG_TRAILING_NONWORD)
                elif msg_class == 'quote' and rng.random() < 0.6:
                    m = rng.choice(MSG_QUOTE)
                elif msg_class == 'operator-chars' and rng.random() < 0.6:
                    m = rng.choice(MSG_OPERATOR_CHARS)
                elif msg_class == 'punct-inside' and rng.random() < 0.7:
                    m = rng.choice(MSG_PUNCT_INSIDE)
                else:
                    m = rng.choice(MSG_PLAIN)
                messages[(t, o)] = m
            if len(outs) == 2:
                a, b = outs
                if messages[(t, a)] == messages[(t, b)]:
                    messages[(t, b)] += ' again'
                elif msg_class == 'nested-text' and rng.random() < 0.7:
                    # one message continues the other ("ready", "ready now")
                    messages[(t, b)] = messages[(t, a)] + ' now'
    offsets = pm.offsets()

    def leaf():
        t = rng.choice(ups)
        off = rng.choice(offsets) if rng.random() < 0.35 else ''
        kind = G.pick_weighted(rng, G.TASK_OUTPUT_KINDS)
        if kind == 'custom':
            if t in customs:
                return G.Node(t, off, rng.choice(customs[t]))
            kind = 'succeeded'
        return G.Node(t, off, G.spell_output(rng, kind))

    chains = []
    deps = []
    n_dep = rng.randint(6, 8)
    for i in range(n_dep):
        d = f'dep{i}'
        deps.append(d)
        prev_leaves = None
        for _ in range(2 if rng.random() < 0.25 else 1):
            k = rng.choice([1, 2, 2, 3, 3, 4, 4, 5, 6])
            leaves = [leaf() for _ in range(k)]
            if prev_leaves and len(prev_leaves) >= 2 and rng.random() < 0.5:
                # a second arrow over the very same outputs, other operators
                leaves = list(prev_leaves)
            prev_leaves = leaves
            if len(leaves) >= 2 and rng.random() < 0.25:
                # the same written node twice in one expression
                leaves[rng.randrange(len(leaves))] = rng.choice(leaves)
            two = [t for t, outs in customs.items() if len(outs) == 2]
            if msg_class == 'nested-text' and two and rng.random() < 0.5:
                # both outputs of one task (messages "m" and "m now")
                t = rng.choice(two)
                off = rng.choice(offsets) if rng.random() < 0.3 else ''
                leaves = [G.Node(t, off, customs[t][0]),
                          G.Node(t, off, customs[t][1])] + leaves[:4]
                rng.shuffle(leaves)
            tree = G.random_tree(rng, leaves, p_or=0.65)
            right = G.Node(d, suicide=rng.random() < 0.08)
            chains.append(G.Chain(tree, [[right]]))
    # every upstream task and every dependent cycles
    chains.append(G.Chain(B.conj(B.atom(G.Node(t)) for t in ups + deps), []))
    graph = G.Graph(chains, {}, {'customs': customs, 'tasks': ups + deps})
    G.apply_optionality(graph, rng)
    runtime = [(t, [], [(o, messages[(t, o)]) for o in outs])
               for t, outs in sorted(customs.items())]
    return graph, runtime, messages, pm, (names, msg_class)


# -- mechanism keys ---------------------------------------------------------

def message_hazards(all_atoms, conditional):
    """Hazards of the concrete prerequisite, from its atoms
    (point text, task, message, is-custom-message).  Only an expression with
    an OR (or with a '|' inside a message) is turned into text that is
    evaluated.

    Input classes that used to break the implementation and were repaired
    there (message ending in a non-word character, one atom's text inside
    another's, the same output at points n and -n) are still generated and
    counted (see `input:` counters) but no longer name a finding.
    """
    custom = [m for _c, _t, m, is_custom in all_atoms if is_custom]
    # a '|' inside a message makes even an AND-only expression "conditional"
    if not conditional and not any('|' in m for m in custom):
        return []
    feats = []
    if any(ch in m for m in custom for ch in '()|&'):
        feats.append('or-expression-message-contains-operator-character')
    if any('"' in m or '\\' in m for m in custom):
        feats.append('or-expression-message-has-quote-or-backslash')
    return feats


def input_classes(all_atoms, conditional):
    """Counted input classes of one prerequisite (coverage evidence)."""
    if not conditional:
        return []
    out = []
    custom = [m for _c, _t, m, is_custom in all_atoms if is_custom]
    if any(m and not G._is_word(m[-1]) for m in custom):
        out.append('or-with-message-ending-in-nonword-char')
    keys = sorted({(c, t, m) for c, t, m, _ in all_atoms})
    if any(c1 == '-' + c2 and (t1, m1) == (t2, m2)
           for c1, t1, m1 in keys for c2, t2, m2 in keys):
        out.append('or-with-same-output-at-points-n-and-minus-n')
    texts = sorted({f'{c.lstrip("-")}/{t} {m}' for c, t, m in keys})
    if any(G.inside_at_word_boundaries(a, b) for a in texts for b in texts):
        out.append('or-with-atom-text-inside-another-atom-text')
    if any(a != b and b.startswith(a) for a in texts for b in texts):
        out.append('or-with-atom-text-prefix-of-another')
    return out


def make_key(symptom, graph_feats, msg_feats):
    feats = sorted(set(graph_feats) | set(msg_feats))
    if len(feats) == 1:
        return f'C13:{feats[0]}'
    if feats:
        # cannot tell which one from the witness: one key, list in detail
        return 'C13:several-hazards'
    return f'C13:{symptom}'


# -- the monitor ------------------------------------------------------------

class Unit:
    """One (dependent task, cycle point): the real TaskProxy factory and the
    reference expression over facts."""

    def __init__(self, case, dep, suicide, k):
        self.case, self.dep, self.suicide, self.k = case, dep, suicide, k
        pm = case.pm
        self.p = pm.point(k)
        sem = case.meaning.conj(dep, suicide)
        self.facts = []           # distinct non-pre-initial facts
        self.preinitial = 0
        self.all_atoms = []       # (point text, task, message, custom?)

        def to_fact(a):
            task, off, out = a
            q, pre = pm.apply(off, self.p)
            msg = case.messages.get((task, out), out)
            self.all_atoms.append(
                (pm.text(q), task, msg, (task, out) in case.messages))
            if pre:
                self.preinitial += 1
                return B.TRUE
            key = (pm.text(q), task, msg)
            if key not in self.facts:
                self.facts.append(key)
            return B.atom(key)
        self.tree = B.substitute(sem, to_fact)
        self.sem = sem
        self.conditional = B.has_or(sem)


class CaseData:
    pass


def deliver(tp, fact):
    cycle, task, msg = fact
    tok = _real['Tokens'](cycle=cycle, task=task, task_sel=msg)
    tp.satisfy_me([tok])


def real_satisfied(tp, suicide, every):
    pres = (tp.state.suicide_prerequisites if suicide
            else tp.state.prerequisites)
    if every:
        return all([p.is_satisfied() for p in pres])
    return all(p.is_satisfied() for p in pres)


def run_unit(ctx, case, unit, rng):
    pm = case.pm
    td = case.cfg.taskdefs[unit.dep]
    n = len(unit.facts)
    ptext = pm.text(unit.p)
    expr_text = B.render(unit.sem, S.atom_text)
    ident = (expr_text, unit.k, pm.mode, unit.suicide)

    nodes = [nd for left, rn, _ in case.pairs
             if left is not None and rn.name == unit.dep
             and rn.suicide == unit.suicide for nd in B.leaves(left)]
    graph_feats = G.hostile_features(nodes, {})
    msg_feats = message_hazards(unit.all_atoms, unit.conditional)
    for cls in input_classes(unit.all_atoms, unit.conditional):
        ctx.count('input:' + cls)

    def fail(symptom, what, **extra):
        ctx.violation(
            make_key(symptom, graph_feats, msg_feats),
            f'{unit.dep} at {ptext}: "{expr_text}" {what}',
            {'graph': case.text, 'runtime_outputs': case.runtime,
             'scheduling': pm.scheduling() + pm.scheduler(),
             'section': pm.section, 'task': unit.dep, 'point': ptext,
             'suicide': unit.suicide, 'expression': expr_text,
             'facts': unit.facts,
             'hazards': sorted(set(graph_feats) | set(msg_feats)), **extra})

    try:
        point_obj = _real['get_point'](ptext).standardise()
    except Exception:
        ctx.count('discard_point_unparsable')
        return
    if str(point_obj) != ptext:
        ctx.count('discard_point_string_not_canonical')
        return
    # canonical strings of upstream points
    canon = {}
    for fact in unit.facts:
        try:
            c = str(_real['get_point'](fact[0]).standardise())
        except Exception:
            ctx.count('discard_point_unparsable')
            return
        canon[fact] = (c, fact[1], fact[2])

    def new_proxy():
        ctx.count('proxies_built')
        return _real['TaskProxy'](
            _real['Tokens']('~user/wf'), td, point_obj)

    uncovered = set(range(1 << n))
    walks = 0
    distractors = case.distractors
    while uncovered and walks < 40:
        walks += 1
        target = rng.choice(sorted(uncovered))
        first = [i for i in range(n) if target >> i & 1]
        rest = [i for i in range(n) if not target >> i & 1]
        rng.shuffle(first)
        rng.shuffle(rest)
        order = first + rest
        try:
            tp = new_proxy()
        except Exception as exc:
            fail(f'taskproxy-raised-{type(exc).__name__}',
                 f'TaskProxy construction raised {type(exc).__name__}: '
                 f'{str(exc)[:150]}')
            return False
        state = 0
        steps = [None] + order
        for si, bit in enumerate(steps):
            delivered = None
            try:
                if bit is not None:
                    delivered = canon[unit.facts[bit]]
                    deliver(tp, delivered)
                    state |= 1 << bit
                    if rng.random() < 0.15:
                        deliver(tp, delivered)      # duplicate delivery
                        ctx.count('duplicate_deliveries')
                if distractors and rng.random() < 0.25:
                    d = rng.choice(distractors)
                    if d not in canon.values() and d not in unit.facts:
                        deliver(tp, d)
                        ctx.count('distractor_deliveries')
                # skip some evaluations so that a later answer may come from
                # a cache filled several deliveries ago
                last = si == len(steps) - 1
                at_target = state == target
                if not (last or at_target) and rng.random() < 0.3:
                    ctx.count('evaluations_skipped')
                    continue
                every = rng.random() < 0.5
                got = real_satisfied(tp, unit.suicide, every)
                if rng.random() < 0.3:
                    again = real_satisfied(tp, unit.suicide, True)
                    ctx.count('cache_hit_steps')
                    if again != got:
                        fail('cached-answer-differs',
                             f'answered {got} then {again} without any '
                             f'delivery in between')
                        return False
            except Exception as exc:
                fail(f'raised-{type(exc).__name__}',
                     f'raised {type(exc).__name__} after delivering '
                     f'{[unit.facts[b] for b in order[:si]]}: '
                     f'{str(exc)[:150]}')
                return False
            true_facts = {unit.facts[i] for i in range(n) if state >> i & 1}
            want = B.evaluate(unit.tree, true_facts)
            ctx.count('states_compared')
            if state in uncovered:
                uncovered.discard(state)
                ctx.count('subsets_covered')
            if bool(got) != want:
                fail('satisfied-but-expression-false' if got
                     else 'unsatisfied-but-expression-true',
                     f'is_satisfied() = {got} but the expression is {want} '
                     f'with {sorted(true_facts)} delivered',
                     delivered=sorted(true_facts))
                return False
    if uncovered:
        ctx.count('subsets_left_uncovered', len(uncovered))
    nontrivial = len(unit.facts) >= 2
    ctx.evaluated(ident, nontrivial=nontrivial)
    return True


def run_case(ctx, i, rng):
    graph, runtime, messages, pm, (names, msg_class) = build_case(rng)
    style = G.random_style(rng)
    style.respell = 0.0
    text = G.graph_text(graph, rng, style)
    flow = G.flow_cylc([(pm.section, text)], scheduling=pm.scheduling(),
                       scheduler=pm.scheduler(), runtime=runtime)
    path = os.path.join(_real['dir'], 'flow.cylc')
    with open(path, 'w') as f:
        f.write(flow)
    ctx.count('class:names-' + names)
    ctx.count('class:messages-' + msg_class)
    _real['GraphNodeParser'].get_inst().clear()
    try:
        cfg = _real['WorkflowConfig']('wf', path, options=_real['Values']())
    except Exception as exc:
        ctx.count('discard_config_rejected')
        ctx.count('discard_config_rejected:' + type(exc).__name__)
        if names == 'word' and msg_class in ('plain', 'punct-inside',
                                             'trailing-nonword',
                                             'nested-text'):
            ctx.count('discard_config_rejected_without_hostile_class')
        return
    ctx.count('configs_loaded')
    ctx.count('mode:' + pm.mode)
    case = CaseData()
    case.cfg, case.pm, case.graph = cfg, pm, graph
    case.text, case.runtime, case.messages = text, runtime, messages
    case.pairs = G.pairs(graph)
    case.meaning = S.Meaning(graph, case.pairs)
    ups = [t for t in graph.meta['tasks'] if not t.startswith('dep')]
    # distractor deliveries: plausible outputs of the same workflow
    pts = [pm.text(pm.point(k)) for k in (0, 1, 2, 3)]
    case.distractors = []
    for _ in range(12):
        t = rng.choice(ups)
        out = rng.choice(['succeeded', 'failed', 'started', 'submitted',
                          'expired', 'submit-failed']
                         + [messages[k] for k in messages if k[0] == t])
        try:
            c = str(_real['get_point'](rng.choice(pts)).standardise())
        except Exception:
            continue
        case.distractors.append((c, t, out))
    sampled = False
    for (dep, suicide) in case.meaning.dependents():
        sem = case.meaning.conj(dep, suicide)
        natoms = len(B.atoms(sem))
        if natoms > 6:
            ctx.count('discard_more_than_6_atoms')
            continue
        if B.has_or(sem):
            ctx.count('expr_with_or')
        if B.depth(sem) >= 2:
            ctx.count('expr_with_parens')
        nodes = [nd for left, rn, _ in case.pairs
                 if left is not None and rn.name == dep for nd in
                 B.leaves(left)]
        nm = sorted({nd.name for nd in nodes})
        if any(a != b and a in b for a in nm for b in nm):
            ctx.count('name_collision_exprs')
        ctx.count('custom_output_atoms', sum(
            1 for nd in nodes if (nd.name, nd.qual) in messages))
        ctx.count('offset_atoms', sum(1 for nd in nodes if nd.offset))
        for cls in G.duplicate_node_classes(nodes):
            ctx.count('input:' + cls)
        ks = [0, 1, rng.choice([2, 3, 4])]
        if ctx.tier == 'quick':
            ks = [0, rng.choice([1, 2, 3])]
        for k in ks:
            unit = Unit(case, dep, suicide, k)
            # a suicide trigger is itself a prerequisite object
            ctx.count('atoms_preinitial', unit.preinitial)
            # every atom pre-initial => documented as satisfied
            ok = run_unit(ctx, case, unit, rng)
            if ok is False:
                break
            if ok and not sampled and len(unit.facts) >= 3:
                sampled = True
                ctx.sample({
                    'graph': text, 'section': pm.section,
                    'scheduling': pm.scheduling() + pm.scheduler(),
                    'task': dep, 'point': pm.text(unit.p),
                    'expression': B.render(unit.sem, S.atom_text),
                    'facts': unit.facts,
                    'preinitial_atoms': unit.preinitial,
                    'subsets': 1 << len(unit.facts)})
