"""C21 Database writes are atomic and the public database converges.

Monitor shape (fault enumeration): a real `WorkflowDatabaseManager` with its
two real `CylcWorkflowDAO`s on real SQLite files; batches of operations are
generated as replayable descriptors and queued through the real `put_*`
methods (vlib.gen.c21_ops).  `cylc.flow.rundb.sqlite3` is replaced by a shim
module whose `connect` hands out a counting `sqlite3.Connection` subclass,
so that every statement / commit of a batch is a fault position.

* atomicity: for statement position k of a batch on the private DB, inject
  `sqlite3.OperationalError` (same process) or `os._exit(137)` (forked
  child) and compare a full dump of the private file, read through a plain
  connection, with the dump taken before the batch;
* convergence: every pattern of failing / succeeding public-DB writes of
  length 8 (real exclusive lock held by a second connection, real shared
  lock of a reader which makes the commit fail, or an injected error at a
  statement), then two more successful `process_queued_ops` calls, after
  which the dump of the public file must equal the dump of the private one;
  plus patterns that cross the `MAX_TRIES` recovery threshold.
The oracle is "dump equals dump"; no SQL semantics are modelled.
"""
from __future__ import annotations

import os
import re
import shutil
import sqlite3
import sys
import types

from vlib.gen import c21_ops as G

PID = 'C21'
META = {
    'engine': 'E2 funcmon',
    'level': 'fault_enumeration',
    'technique': 'statement-position fault injection (OperationalError and '
                 'os._exit in a fork) on the private DB; exhaustive 8-step '
                 'public-DB lock patterns with bounded convergence; '
                 'whole-file dump comparison',
    'level_text': (
        'For generated batches (inserts, updates, deletes over all 18 '
        'tables, through the real put_* methods) every statement/commit '
        'position of the private transaction is failed (thorough: all '
        'positions by exception and by hard kill; quick: all by exception '
        'for most batches, a sample by kill) and the private file must '
        'hold exactly the pre-batch dump. All 256 fail/succeed patterns of '
        '8 consecutive public writes (several generated histories each) '
        'and patterns crossing the 100-failure recovery threshold are '
        'run; two successful calls after the last failure the public dump '
        'must equal the private dump. Held = no dump mismatch on all '
        'positions / patterns explored.'),
    'level_note': 'Task/pool/scheduler objects are attribute stand-ins; the '
                  'connection timeout is shortened by the shim (the lock '
                  'holder never releases within a call anyway); sqlite3 '
                  'itself is trusted.',
    'design_ref': 'DESIGN.md §5 C21, §3.5',
    'budget': {'quick': 90, 'thorough': 900},
    'shards': 16,
}
RULE = ('atomic case = (pre-state batches, batch under test, fault '
        'positions); lock case = (8-bit failure pattern, failure kinds, '
        'generated history of 10 batches, conservative or full operation '
        'mix; two lock ordinals and threshold ordinal 0 are scripted '
        'two-operation histories so that first witnesses are minimal); '
        'threshold case = (history, >=100 consecutive failures); '
        'distinct by the descriptor lists; non-trivial when the batch '
        'under test executes >= 3 statements on >= 2 tables (atomic) or at '
        'least one public write really failed and a later one succeeded '
        'with a non-empty queue (lock/threshold)')
ASSUMPTIONS = [
    'bounded form of "eventually": the public file must equal the private '
    'one after 2 successful process_queued_ops calls following the last '
    'failed public write (recover_pub_from_pri is called after every '
    'process_queued_ops, as the main loop does)',
    'a crash is os._exit(137) at a statement/commit boundary of the '
    'connection; torn writes inside SQLite are SQLite\'s business',
    'after a kill the restart path (on_workflow_start(is_restart=True)) is '
    'what re-synchronises the public file',
    'statement positions are calls of execute/executemany/commit on the '
    'connection that cylc.flow.rundb opens',
]
MIN = {
    'quick': {'lock_cases': 700, 'lock_convergence_verdicts': 650,
              'pub_fail_xlock': 700, 'pub_fail_slock': 700,
              'pub_fail_injected': 700, 'atomic_batches': 80,
              'fault_positions_raise': 500, 'fault_positions_kill': 100,
              'threshold_cases': 12, 'threshold_recoveries': 12,
              'sync_checks_no_failure': 500,
              'batch_changed_pri': 70},
    'thorough': {'lock_cases': 3800, 'lock_convergence_verdicts': 3400,
                 'pub_fail_xlock': 3600, 'pub_fail_slock': 3600,
                 'pub_fail_injected': 3600, 'atomic_batches': 420,
                 'fault_positions_raise': 3200,
                 'fault_positions_kill': 3500, 'threshold_cases': 70,
                 'threshold_recoveries': 70,
                 'sync_checks_no_failure': 4000, 'batch_changed_pri': 380},
}
NPAT = 256
# case kinds are interleaved in cycles of 55 indices: 1 threshold case,
# 6 atomicity cases, 48 lock-pattern cases (so 16 cycles = 3 x 256 patterns)
NATOMIC = 6
CYCLE = 1 + NATOMIC + 48
CYCLES = {'quick': 16, 'thorough': 80}
CASE_TIMEOUT = 600


def ncases(tier):
    return CYCLE * CYCLES[tier]


def case_kind(i):
    """('threshold'|'atomic'|'lock', ordinal among cases of that kind)."""
    c, r = divmod(i, CYCLE)
    if r == 0:
        return 'threshold', c
    if r <= NATOMIC:
        return 'atomic', c * NATOMIC + r - 1
    return 'lock', c * 48 + r - 1 - NATOMIC


# --------------------------------------------------------------------------
# the sqlite3 shim handed to cylc.flow.rundb
# --------------------------------------------------------------------------
class Plan:
    """One fault: role, position (1-based statement index within the
    current process_queued_ops call, or 'commit'), action."""

    def __init__(self, role, pos, action, at_least=False):
        self.role, self.pos, self.action = role, pos, action
        self.at_least = at_least   # fire at the first index >= pos / commit
        self.fired = False


class Control:
    def __init__(self):
        self.paths = {}
        self.reset()

    def reset(self):
        self.plan = None
        self.counts = {'pri': 0, 'pub': 0}
        self.log = {'pri': [], 'pub': []}
        self.record_args = False

    def begin_call(self):
        self.counts = {'pri': 0, 'pub': 0}
        self.log = {'pri': [], 'pub': []}

    def role_of(self, path):
        return self.paths.get(os.path.abspath(str(path)), 'other')

    def on_stmt(self, conn, kind, sql, args):
        role = conn.verif_role
        if role not in self.counts:
            return
        self.counts[role] += 1
        n = self.counts[role]
        self.log[role].append(
            (kind, sql, [tuple(a) for a in args] if self.record_args
             and args is not None else None))
        p = self.plan
        if p is None or p.fired or p.role != role:
            return
        hit = (
            (p.pos == 'commit' and kind == 'commit')
            or (p.pos != 'commit' and (
                n == p.pos or (p.at_least and (
                    n >= p.pos or kind == 'commit'))))
        )
        if not hit:
            return
        p.fired = True
        if p.action == 'raise':
            raise sqlite3.OperationalError(
                'verif: injected failure at %s statement %d (%s)'
                % (role, n, kind))
        if p.action == 'kill':
            os._exit(137)
        if p.action == 'kill_after_commit':
            sqlite3.Connection.commit(conn)
            os._exit(137)


CTL = Control()


class FaultConn(sqlite3.Connection):
    verif_role = 'other'

    def execute(self, sql, *a):
        CTL.on_stmt(self, 'execute', sql, None)
        return super().execute(sql, *a)

    def executemany(self, sql, seq):
        seq = list(seq)
        CTL.on_stmt(self, 'executemany', sql, seq)
        return super().executemany(sql, seq)

    def commit(self):
        CTL.on_stmt(self, 'commit', 'COMMIT', None)
        return super().commit()


def _shim_connect(path, timeout=5.0, **kw):
    kw.pop('factory', None)
    conn = sqlite3.connect(path, timeout=min(timeout, 0.002),
                           factory=FaultConn, **kw)
    conn.verif_role = CTL.role_of(path)
    return conn


def _frozen_time(*args, **kwargs):
    return '2020-02-02T02:02:02Z'


def install_shim():
    import cylc.flow.rundb as rundb
    if getattr(rundb.sqlite3, '__verif_shim__', False):
        return
    shim = types.ModuleType('sqlite3')
    shim.__dict__.update(
        {k: v for k, v in sqlite3.__dict__.items()
         if not k.startswith('__')})
    shim.connect = _shim_connect
    shim.__verif_shim__ = True
    rundb.sqlite3 = shim
    # virtual clock: rows carry "now" strings; replays of one batch (and
    # the forked children) must produce identical rows
    import cylc.flow.workflow_db_mgr as wdm
    wdm.get_current_time_string = _frozen_time


def setup_shard(ctx):
    import logging
    install_shim()
    from cylc.flow.rundb import CylcWorkflowDAO
    ctx.maxc('tables_in_schema', len(CylcWorkflowDAO.TABLES_ATTRS))
    # the error paths log whole transactions; not part of the property
    logging.getLogger('cylc').setLevel(logging.CRITICAL)


# --------------------------------------------------------------------------
# observation: whole-file dumps through a plain connection
# --------------------------------------------------------------------------
def dump(path):
    con = sqlite3.connect(path, timeout=2.0)
    try:
        out = {}
        names = [r[0] for r in con.execute(
            "SELECT name FROM sqlite_master WHERE type='table' "
            "ORDER BY name")]
        for t in names:
            rows = [tuple(r) for r in con.execute(f'SELECT * FROM "{t}"')]
            out[t] = sorted(rows, key=repr)
        return out
    finally:
        con.close()


def diff_dumps(a, b, limit=4):
    """{table: {'only_a': rows, 'only_b': rows}} (multiset difference)."""
    out = {}
    for t in sorted(set(a) | set(b)):
        ra, rb = list(a.get(t, [])), list(b.get(t, []))
        only_a = []
        pool = list(rb)
        for r in ra:
            if r in pool:
                pool.remove(r)
            else:
                only_a.append(r)
        if only_a or pool:
            out[t] = {'only_first': [list(map(repr, r))
                                     for r in only_a[:limit]],
                      'only_second': [list(map(repr, r))
                                      for r in pool[:limit]],
                      'n_first': len(only_a), 'n_second': len(pool)}
    return out


_TABLE_RE = re.compile(
    r'^\s*(?:INSERT OR REPLACE INTO|DELETE FROM|UPDATE OR REPLACE|UPDATE)'
    r'\s+(\w+)', re.I)


def table_of(sql):
    m = _TABLE_RE.match(sql)
    return m.group(1) if m else None


def kind_of(sql):
    s = sql.lstrip().upper()
    return 'I' if s.startswith('INSERT') else 'D' if s.startswith(
        'DELETE') else 'U' if s.startswith('UPDATE') else '?'


# --------------------------------------------------------------------------
# world
# --------------------------------------------------------------------------
class World:
    def __init__(self, ctx, tag):
        self.base = os.path.join(ctx.workdir, 'c21', tag)
        shutil.rmtree(self.base, ignore_errors=True)
        self.pri_d = os.path.join(self.base, '.service')
        self.pub_d = os.path.join(self.base, 'log')
        os.makedirs(self.pri_d)
        os.makedirs(self.pub_d)
        self.pri = os.path.join(self.pri_d, 'db')
        self.pub = os.path.join(self.pub_d, 'db')
        CTL.paths = {os.path.abspath(self.pri): 'pri',
                     os.path.abspath(self.pub): 'pub'}
        CTL.reset()
        self.mgr = None

    def start(self, restart=False):
        from cylc.flow.workflow_db_mgr import WorkflowDatabaseManager
        if self.mgr is not None:
            self.mgr.on_workflow_shutdown()
        self.mgr = WorkflowDatabaseManager(self.pri_d, self.pub_d)
        self.mgr.on_workflow_start(is_restart=restart)
        return self.mgr

    def step(self):
        """One main-loop DB step: process queue, then health check."""
        CTL.begin_call()
        self.mgr.process_queued_ops()
        self.mgr.recover_pub_from_pri()

    def snapshot(self, name):
        d = os.path.join(self.base, 'snap-' + name)
        shutil.rmtree(d, ignore_errors=True)
        os.makedirs(d)
        shutil.copy(self.pri, os.path.join(d, 'pri'))
        shutil.copy(self.pub, os.path.join(d, 'pub'))

    def restore(self, name):
        if self.mgr is not None:
            self.mgr.on_workflow_shutdown()
            self.mgr = None
        d = os.path.join(self.base, 'snap-' + name)
        for f in (self.pri, self.pub):
            for suffix in ('', '-journal', '-wal', '-shm'):
                if os.path.exists(f + suffix):
                    os.remove(f + suffix)
        shutil.copy(os.path.join(d, 'pri'), self.pri)
        shutil.copy(os.path.join(d, 'pub'), self.pub)

    def close(self):
        if self.mgr is not None:
            self.mgr.on_workflow_shutdown()
            self.mgr = None
        shutil.rmtree(self.base, ignore_errors=True)


class Locker:
    """A second process' hold on the public DB (real SQLite locks)."""

    def __init__(self, path, kind):
        self.con = sqlite3.connect(path, timeout=0.5,
                                   isolation_level=None)
        if kind == 'X':
            self.con.execute('BEGIN EXCLUSIVE')
        else:
            # a reader in the middle of a transaction: writers can prepare
            # but not commit
            self.con.execute('BEGIN')
            self.con.execute('SELECT count(*) FROM sqlite_master').fetchall()

    def release(self):
        try:
            self.con.execute('ROLLBACK')
        except sqlite3.Error:
            pass
        self.con.close()


# --------------------------------------------------------------------------
# atomicity cases
# --------------------------------------------------------------------------
def note_tables(ctx, log):
    tabs = set()
    for kind, sql, _ in log:
        t = table_of(sql)
        if t:
            tabs.add(t)
            ctx.count('table:' + t)
            ctx.count('stmtkind:' + kind_of(sql))
    return tabs


def run_atomic(ctx, i, rng):
    w = World(ctx, 'atomic')
    try:
        _run_atomic(ctx, i, rng, w)
    finally:
        w.close()


def _run_atomic(ctx, i, rng, w):
    st = G.GenState()
    w.start()
    npre = rng.choice([0, 1, 2, 3])
    pre_batches = [G.gen_batch(rng, st, False, 2, 8) for _ in range(npre)]
    for b in pre_batches:
        G.apply_ops(w.mgr, b)
        w.step()
    batch = G.gen_batch(rng, st, rng.random() < 0.25, 2, 9)
    w.mgr.on_workflow_shutdown()
    w.mgr = None
    w.snapshot('pre')
    pre_pri = dump(w.pri)
    pre_pub = dump(w.pub)

    # reference (no fault): number of positions, and the post state
    w.restore('pre')
    w.start(restart=True)
    G.apply_ops(w.mgr, batch)
    w.step()
    log = list(CTL.log['pri'])
    npos = len(log)
    tabs = note_tables(ctx, log)
    w.mgr.on_workflow_shutdown()
    w.mgr = None
    post_pri = dump(w.pri)
    desc = {'pre_batches': pre_batches, 'batch': batch}
    nontrivial = npos >= 4 and len(tabs) >= 2
    ctx.evaluated(('atomic', repr(desc)), nontrivial=nontrivial)
    if npos == 0:
        ctx.count('discard_empty_batch')
        return
    ctx.count('atomic_batches')
    ctx.maxc('positions_in_batch', npos)
    if post_pri != pre_pri:
        ctx.count('batch_changed_pri')
    if dump(w.pub) != post_pri:
        ctx.violation(
            'C21:pub-differs-without-failure',
            'public dump differs from private after an unfaulted batch',
            {**desc, 'diff': diff_dumps(post_pri, dump(w.pub))})
        return
    stmts = [f'{k}: {s[:90]}' for k, s, _ in log]

    positions = list(range(1, npos + 1))   # last one is the commit
    thorough = ctx.tier == 'thorough'
    raise_pos = positions if (thorough or rng.random() < 0.7) else \
        sorted(set(rng.sample(positions, min(4, npos)) + [1, npos]))
    kill_pos = positions + ['after'] if thorough else \
        sorted(set(rng.sample(positions, 1) + (
            [npos] if rng.random() < 0.4 else []))) + (
            ['after'] if rng.random() < 0.25 else [])

    # -- OperationalError at position k --------------------------------
    for k in raise_pos:
        w.restore('pre')
        w.start(restart=True)
        G.apply_ops(w.mgr, batch)
        CTL.begin_call()
        CTL.plan = Plan('pri', k, 'raise')
        raised = None
        try:
            w.mgr.process_queued_ops()
        except sqlite3.Error as exc:
            raised = exc
        finally:
            CTL.plan = None
        ctx.count('fault_positions_raise')
        ctx.count('fault_at_commit' if k == npos else 'fault_at_statement')
        w.mgr.on_workflow_shutdown()
        w.mgr = None
        got = dump(w.pri)
        what = 'commit' if k == npos else f'statement {k}/{npos - 1}'
        if raised is None:
            ctx.violation(
                'C21:pri-write-error-swallowed',
                f'OperationalError at private {what} did not propagate '
                'from process_queued_ops',
                {**desc, 'position': k, 'statements': stmts})
        if got != pre_pri:
            partial = got != post_pri
            ctx.violation(
                'C21:pri-not-atomic:error-at-'
                + ('commit' if k == npos else 'statement'),
                f'after OperationalError at private {what} the private DB '
                f'is not at the pre-batch state ('
                f'{"partially" if partial else "fully"} applied)',
                {**desc, 'position': k, 'statements': stmts,
                 'diff_pre_vs_now': diff_dumps(pre_pri, got)})
            return
        ctx.count('pri_unchanged_after_error')
        if dump(w.pub) == pre_pub:
            ctx.count('pub_unchanged_after_pri_error')
        else:
            ctx.count('observed_pub_changed_after_pri_error')

    # -- hard kill at position k ---------------------------------------
    for k in kill_pos:
        w.restore('pre')
        sys.stdout.flush()
        sys.stderr.flush()
        pid = os.fork()
        if pid == 0:
            # child: same code path, dies inside the connection
            try:
                w.mgr = None
                w.start(restart=True)
                G.apply_ops(w.mgr, batch)
                CTL.begin_call()
                if k == 'after':
                    CTL.plan = Plan('pri', 'commit', 'kill_after_commit')
                else:
                    CTL.plan = Plan('pri', k, 'kill')
                w.mgr.process_queued_ops()
            except BaseException:
                os._exit(3)
            os._exit(0)
        _, status = os.waitpid(pid, 0)
        code = os.waitstatus_to_exitcode(status)
        if code != 137:
            ctx.count(f'discard_kill_child_exit_{code}')
            continue
        ctx.count('fault_positions_kill')
        got = dump(w.pri)
        want = post_pri if k == 'after' else pre_pri
        what = ('just after the commit' if k == 'after' else
                'the commit' if k == npos else f'statement {k}/{npos - 1}')
        if got != want:
            ctx.violation(
                'C21:pri-not-atomic:kill-'
                + ('after-commit' if k == 'after' else
                   'at-commit' if k == npos else 'at-statement'),
                f'after a hard kill at {what} the private DB is not at the '
                f'{"post" if k == "after" else "pre"}-batch state',
                {**desc, 'position': k, 'statements': stmts,
                 'diff_want_vs_now': diff_dumps(want, got)})
            return
        ctx.count('pri_as_expected_after_kill')
        # restart: the public file is re-synchronised from the private one
        w.start(restart=True)
        w.mgr.on_workflow_shutdown()
        w.mgr = None
        ctx.count('restart_after_kill_checks')
        if dump(w.pub) != got or dump(w.pri) != got:
            ctx.violation(
                'C21:pub-differs-after-restart',
                f'after a kill at {what} and a restart the public DB '
                'differs from the private one',
                {**desc, 'position': k,
                 'diff': diff_dumps(dump(w.pri), dump(w.pub))})
            return
    if len(ctx.samples) < 2:
        ctx.sample({'kind': 'atomic', 'batch': batch, 'statements': stmts,
                    'raise_positions': raise_pos, 'kill_positions': kill_pos})


# --------------------------------------------------------------------------
# convergence cases
# --------------------------------------------------------------------------
def expand(log):
    """Executed statements as per-row items [(sql, args)], in order."""
    out = []
    for kind, sql, args in log:
        if kind == 'commit':
            continue
        if args is None:
            out.append((sql, None))
        else:
            out.extend((sql, a) for a in args)
    return out


def classify_divergence(window_pri, last_pub, diff, recovered):
    """Mechanism key for a public/private mismatch, from observed SQL.

    window_pri: row-level statements the private DB executed since the
    first failed public write; last_pub: row-level statements of the
    latest successful public write(s) in the same window.
    """
    if recovered:
        return 'C21:recover-copy-replays-stale-queue'
    tables = sorted(diff)
    reorder = other = False
    for t in tables:
        a = [x for x in window_pri if table_of(x[0]) == t]
        b = [x for x in last_pub if table_of(x[0]) == t]
        if sorted(map(repr, a)) == sorted(map(repr, b)) and a != b:
            reorder = True
        else:
            other = True
    if reorder and not other:
        # one root cause whatever the symptom (stale row back, stale
        # value, row replaced away): statements of a failed batch are
        # executed after statements of later batches
        return 'C21:pub-retry-merge-reorders-statements'
    d = diff[tables[0]]
    return 'C21:pub-not-converged:' + (
        'rows-missing' if d['n_first'] and not d['n_second'] else
        'rows-extra' if d['n_second'] and not d['n_first'] else
        'rows-differ')


class History:
    """Drives batches with a failure plan per step and judges convergence
    two successful steps after the last failed public write."""

    def __init__(self, ctx, w, desc):
        self.ctx, self.w, self.desc = ctx, w, desc
        self.since_fail = None     # successful steps since the last failure
        self.window_pri = []
        self.window_pub = []
        self.recovered = False
        self.verdicts = 0
        self.real_failures = 0
        self.success_after_failure = False

    def step(self, ops, fail):
        """fail: None | 'X' | 'S' | ('inject', pos) | 'held' (the caller
        keeps a lock on the public file across steps)."""
        ctx, w = self.ctx, self.w
        G.apply_ops(w.mgr, ops)
        locker = None
        CTL.record_args = True
        if fail in ('X', 'S'):
            locker = Locker(w.pub, fail)
        elif fail is not None and fail != 'held':
            CTL.plan = Plan('pub', fail[1], 'raise', at_least=True)
        inode = os.stat(w.pub).st_ino
        tries0 = w.mgr.pub_dao.n_tries
        try:
            CTL.begin_call()
            try:
                w.mgr.process_queued_ops()
            except sqlite3.Error as exc:
                # the private write itself failed (not injected): the
                # generated batch is not one the schema accepts
                ctx.count('discard_private_write_rejected_'
                          + type(exc).__name__)
                raise StopHistory()
            pub_failed = w.mgr.pub_dao.n_tries > tries0
            pub_wrote = any(k == 'commit' for k, _, _ in CTL.log['pub'])
            log_pri = expand(CTL.log['pri'])
            log_pub = expand(CTL.log['pub'])
            note_tables(ctx, CTL.log['pri'])
            w.mgr.recover_pub_from_pri()
        finally:
            CTL.plan = None
            if locker:
                locker.release()
        if os.stat(w.pub).st_ino != inode:
            ctx.count('threshold_recoveries')
            self.recovered = True
        if fail is not None:
            ctx.count('fail_steps_intended')
        if pub_failed:
            self.real_failures += 1
            ctx.count({'X': 'pub_fail_xlock', 'S': 'pub_fail_slock',
                       'held': 'pub_fail_held_lock'}.get(
                fail, 'pub_fail_injected'))
            self.since_fail = 0
            self.window_pri.extend(log_pri)
            return
        if fail is not None:
            ctx.count('fail_step_without_pending_write')
        if self.since_fail is None:
            # in sync and nothing pending: the two files must be equal
            ctx.count('sync_checks_no_failure')
            a, b = dump(w.pri), dump(w.pub)
            if a != b:
                ctx.violation(
                    'C21:pub-differs-without-failure',
                    'public dump differs from private although no public '
                    'write has failed since they were last equal',
                    {**self.desc, 'diff_private_vs_public':
                     diff_dumps(a, b)})
                raise StopHistory()
            return
        # a window is open: this is a successful call after a failure
        self.window_pri.extend(log_pri)
        self.window_pub.extend(log_pub)
        if pub_wrote and self.since_fail == 0:
            self.success_after_failure = True
        self.since_fail += 1
        if self.since_fail == 1:
            a, b = dump(w.pri), dump(w.pub)
            ctx.count('converged_after_1_success' if a == b
                      else 'not_converged_after_1_success')
            return
        self.verdicts += 1
        ctx.count('lock_convergence_verdicts')
        a, b = dump(w.pri), dump(w.pub)
        if a != b:
            d = diff_dumps(a, b)
            key = classify_divergence(
                self.window_pri, self.window_pub, d, self.recovered)
            t = sorted(d)[0]
            ctx.violation(
                key,
                f'two successful writes after the last failed public '
                f'write the public DB still differs from the private '
                f'one in {sorted(d)} (e.g. {t}: private-only '
                f'{d[t]["only_first"][:1]}, public-only '
                f'{d[t]["only_second"][:1]})',
                {**self.desc, 'diff_private_vs_public': d})
            raise StopHistory()
        ctx.count('converged_after_2_successes')
        self.since_fail = None
        self.window_pri, self.window_pub = [], []
        self.recovered = False


class StopHistory(Exception):
    pass


def gen_fail(rng):
    r = rng.random()
    if r < 0.34:
        return 'X'
    if r < 0.67:
        return 'S'
    return ('inject', rng.choice([1, 1, 2, 3, 5, 'commit']))


def _mini_bcast(rng):
    """Smallest histories for pattern 'F.......': one operation in the
    failed batch, its counterpart in the next one."""
    mod = [['1', 'root', {'script': 'true'}]]
    return [[{'op': 'broadcast', 'cancel': False, 'mods': mod}],
            [{'op': 'broadcast', 'cancel': True, 'mods': mod}]]


def _mini_state(rng):
    t = G._task(__import__('random').Random(1), name='a', cycle='1',
                flow=[1], status='succeeded',
                time_updated='2020-01-01T00:00:09Z')
    t2 = dict(t, status='waiting')
    return [[{'op': 'update_task_state', 'task': t}],
            [{'op': 'insert_task_states', 'task': t2}]]


# lock-case ordinals with pattern 00000001 (first write fails, rest succeed)
MINI_SCRIPTS = {1: _mini_bcast, 257: _mini_state}


def run_lock(ctx, i, rng):
    pattern = i % NPAT
    rep = i // NPAT
    ctx.count('lock_pattern_popcount:%d' % bin(pattern).count('1'))
    # 256 % 3 == 1: each pattern gets the conservative mix exactly once
    conservative = i % 3 == 0
    bits = [(pattern >> j) & 1 for j in range(8)]
    script = MINI_SCRIPTS.get(i)
    w = World(ctx, 'lock')
    st = G.GenState()
    steps = []
    desc = {'pattern': ''.join('F' if b else '.' for b in bits),
            'conservative_mix': conservative, 'steps': steps}
    h = History(ctx, w, desc)
    ctx.count('lock_cases')
    ctx.count('mix:' + ('conservative' if conservative else 'full'))
    try:
        w.start()
        # some committed content first, in sync
        for _ in range(0 if script else rng.choice([0, 1, 2])):
            ops = G.gen_batch(rng, st, conservative, 1, 6)
            steps.append({'ops': ops, 'fail': None})
            h.step(ops, None)
        for j, b in enumerate(bits + [0, 0]):
            empty = rng.random() < 0.15
            if script:
                ops = script(rng)[j] if j < len(script(rng)) else []
            else:
                ops = [] if empty else G.gen_batch(
                    rng, st, conservative, 1, 5)
            fail = gen_fail(rng) if b else None
            steps.append({'ops': ops, 'fail': fail})
            h.step(ops, fail)
        if pattern == 0:
            ctx.count('pattern_all_succeed')
    except StopHistory:
        ctx.count('histories_stopped_at_violation')
    finally:
        w.close()
    ctx.evaluated(('lock', repr(desc)),
                  nontrivial=h.real_failures >= 1
                  and h.success_after_failure)
    if h.real_failures and h.verdicts and len(ctx.samples) < 4 \
            and rng.random() < 0.2:
        ctx.sample({'kind': 'lock', **desc, 'verdicts': h.verdicts,
                    'real_failures': h.real_failures})


def run_threshold(ctx, i, rng):
    w = World(ctx, 'thresh')
    st = G.GenState()
    conservative = rng.random() < 0.5
    steps = []
    desc = {'kind': 'threshold', 'conservative_mix': conservative,
            'steps': steps}
    h = History(ctx, w, desc)
    ctx.count('threshold_cases')
    try:
        from cylc.flow.rundb import CylcWorkflowDAO
        max_tries = CylcWorkflowDAO.MAX_TRIES
        w.start()
        mini = i == 0
        ops = [] if mini else G.gen_batch(rng, st, conservative, 2, 6)
        steps.append({'ops': ops, 'fail': None})
        h.step(ops, None)
        nfail = max_tries + rng.choice([0, 1, 3])
        kind = rng.choice(['X', 'S'])
        # another process keeps its lock for the whole time
        locker = Locker(w.pub, kind)
        try:
            for j in range(nfail):
                ops = G.gen_batch(rng, st, conservative, 1, 3) \
                    if j < 3 or rng.random() < 0.05 else []
                if mini:
                    ops = [G.g_abs_output(rng, st)] if j == 0 else []
                if j < 6 or ops:
                    steps.append({'ops': ops, 'fail': 'held:' + kind,
                                  'j': j})
                h.step(ops, 'held')
        finally:
            locker.release()
        steps.append({'note': f'{nfail} writes while a second connection '
                              f'held a {kind} lock'})
        for _ in range(3):
            ops = G.gen_batch(rng, st, conservative, 0, 3) \
                if rng.random() < 0.5 and not mini else []
            steps.append({'ops': ops, 'fail': None})
            h.step(ops, None)
    except StopHistory:
        ctx.count('histories_stopped_at_violation')
    finally:
        w.close()
    ctx.evaluated(('threshold', repr(desc)),
                  nontrivial=h.recovered or h.real_failures >= 100)


def run_case(ctx, i, rng):
    install_shim()
    kind, n = case_kind(i)
    if kind == 'lock':
        return run_lock(ctx, n, rng)
    if kind == 'atomic':
        return run_atomic(ctx, n, rng)
    return run_threshold(ctx, n, rng)



def finalize(merged, tier):
    c = merged['counters']
    tabs = sorted(k[6:] for k in c if k.startswith('table:'))
    nlock = CYCLES[tier] * 48
    ntab = c.get('max:tables_in_schema', 0)
    cov = {
        'tables_written': tabs,
        'tables_in_schema': ntab,
        'exhaustive_lock_patterns': c.get('lock_cases', 0) == nlock,
        'lock_histories_per_pattern': nlock // NPAT,
    }
    out = {'coverage': cov}
    if not ntab or len(tabs) < ntab:
        out['inconclusive'] = (
            f'only {len(tabs)} of {ntab} tables were written')
    elif c.get('lock_cases', 0) != nlock:
        out['inconclusive'] = (
            f'lock patterns not exhaustive: {c.get("lock_cases", 0)} of '
            f'{nlock} pattern histories ran')
    return out
