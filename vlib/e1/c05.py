"""C05 Internal queue limits are never exceeded."""
from vlib.e1.common import E1_META, E1_NOTE, simple_case
from vlib.gen import wfgen

PID = 'C05'
META = dict(E1_META, **{
    'technique': 'online monitor on every queue release against a FIFO/limit '
                 'model with independently resolved queue membership',
    'level_text': (
        'At every queue release in real scheduler runs: per queue (GT '
        'membership: last queue listing the name, else default) the members '
        'already preparing/submitted/running/awaiting preparation plus the '
        'released ones never exceed the limit, and the released set equals '
        'the first entries of the model FIFO (order of queue entry), '
        'skipping held tasks.'),
    'level_note': E1_NOTE,
    'design_ref': 'DESIGN.md §5 C05, Appendix E.6',
})
RULE = ('case = generated workflow with 1-2 extra queues (limits 1-3, '
        'overlapping memberships) and optional default limit, slow submit '
        'answers, hold/release commands; distinct by event census')
ASSUMPTIONS = ['no reload/restart in this workload (queue order is rebuilt '
               'there)', 'manual triggers not generated here']
MIN = {'c05.limited_queue_checks': 1500, 'c05.released_up_to_limit': 100,
       'c05.fifo_checks': 300}
NCASES = {'quick': 1000, 'thorough': 12000}


def ncases(tier):
    return NCASES[tier]


def slow_submit(rng, case):
    case['policy'].update({'p_cmd_done': rng.choice([0.2, 0.4, 0.8]),
                           'max_cmd_age': rng.choice([2, 4, 6])})


def holds(rng, case):
    from vlib.e1 import scripts
    if rng.random() < 0.5:
        return []
    return scripts.random_script(rng, case, kinds=['hold', 'release'],
                                 max_cmds=4, horizon=15)


def run_case(ctx, i, rng):
    feat = wfgen.Features(queues=True, max_tasks=6, min_tasks=4,
                          runahead=['P2', 'P3', 'P4', None])
    simple_case(ctx, i, rng, PID, feat, plan_class='all-complete',
                hostile=0.2, policy_fn=slow_submit, script_fn=holds)
