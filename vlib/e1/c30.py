"""C30 Removing a task undoes exactly its effects."""
from __future__ import annotations

from vlib.e1 import runner, scripts
from vlib.e1.common import E1_META, E1_NOTE
from vlib.gen import wfgen

PID = 'C30'
META = dict(E1_META, **{
    'technique': 'monitor bracketing the body of every `cylc remove` command '
                 '(pool snapshots before/after) + DB history-row check after '
                 "the iteration's commit, against GT children",
    'level_text': (
        '`cylc remove` commands (with and without --flow) are issued through '
        'the real command path at random reachable states of generated runs, '
        'some after `cylc set --pre` has force-satisfied child prerequisites '
        'and after new flows were started. Monitor: the target loses exactly '
        'the requested flows (gone from the pool when none remain); its '
        'task_states / task_outputs rows for those flows are gone after the '
        "iteration's commit; only prerequisite atoms of ground-truth "
        'children that it satisfied naturally are unset (force-satisfied '
        'ones survive); a waiting child whose flows are all removed and that '
        'is left with no satisfied prerequisite is removed, any other child '
        'stays; every other pooled task keeps status, flows, outputs and '
        'prerequisites.'),
    'level_note': E1_NOTE,
    'design_ref': 'DESIGN.md §5 C30',
})
RULE = ('case = generated workflow + plan + remove commands (plus set --pre '
        'and new-flow triggers to create the interesting states); distinct '
        'by event census; non-trivial when a removal hit a pooled task or a '
        'task with history')
ASSUMPTIONS = ['child removal only asserted for waiting children wholly in '
               'the removed flows with >= 1 prerequisite and none satisfied '
               'after the unsetting (DESIGN §5 C30 nuances)']
MIN = {'c30.remove_commands': 200, 'c30.target_checks': 80,
       'c30.child_checks': 80, 'c30.bystander_checks': 500,
       'c30.history_row_checks': 200, 'c30.natural_atoms_unset_expected': 30}
NCASES = {'quick': 800, 'thorough': 10000}
MONS = ['c30', 'c26']


def ncases(tier):
    return NCASES[tier]


def rm_script(rng, case):
    gt = case['gt']
    inst = [(n, p) for n in gt['names'] for p in wfgen.task_points(gt, n)]
    sc = []
    if rng.random() < 0.4:
        n, p = rng.choice(inst)
        sc.append({'at': rng.randint(1, 6), 'cmd': 'set', 'args': {
            'tasks': [f'{p}/{n}'], 'flow': ['all'],
            'prerequisites': ['all']}})
    if rng.random() < 0.3:
        n, p = rng.choice(inst)
        sc.append({'at': rng.randint(2, 8), 'cmd': 'force_trigger_tasks',
                   'args': {'tasks': [f'{p}/{n}'], 'flow': ['new']}})
    if rng.random() < 0.3:
        # multi-flow history: re-run a parent in a new flow once the first
        # flow has (probably) passed its children, then remove it from all
        # flows while a child waits in the new flow only
        cands = []
        for (n, p) in inst:
            for ar in wfgen.arrows_at(gt, n, p):
                ps = {(a[1], wfgen.atom_point(a, p)) for a in wfgen.atoms(ar)
                      if wfgen.atom_point(a, p) >= gt['initial']}
                if len(ps) >= 2:
                    cands += sorted(ps)
        if cands:
            a, q = rng.choice(cands)
            t = rng.randint(10, 20)
            sc.append({'at': t, 'cmd': rng.choice(['force_trigger_tasks',
                                                   'set']),
                       'args': {'tasks': [f'{q}/{a}'], 'flow': ['new']}})
            sc.append({'at': t + rng.randint(2, 6), 'cmd': 'remove_tasks',
                       'args': {'tasks': [f'{q}/{a}'],
                                'flow': rng.choice([[], [], ['2']])}})
    for _ in range(rng.randint(1, 3)):
        k = rng.choice([1, 1, 2])
        ids = sorted({'%d/%s' % (p, n) for n, p in rng.sample(inst, k)})
        sc.append({'at': rng.randint(2, 16), 'cmd': 'remove_tasks',
                   'args': {'tasks': ids,
                            'flow': rng.choice([[], [], ['1'], ['2']])}})
    if rng.random() < 0.3:
        sc += scripts.random_script(rng, case, kinds=['hold', 'pause'],
                                    max_cmds=2, horizon=10)
    return sorted(sc, key=lambda a: a['at'])


def slow(rng, case):
    case['policy']['speed'] = rng.choice([0.2, 0.4, 0.6])


def run_case(ctx, i, rng):
    feat = wfgen.Features(max_tasks=5, runahead=['P1', 'P2', 'P4', None])
    gt = wfgen.gen_workflow(rng, feat)
    case = runner.build_case(rng, gt, rng.choice(['all-complete', 'mixed']),
                             hostile=0.2)
    slow(rng, case)
    sc = rm_script(rng, case)
    results = runner.run_case(ctx, f'c{i}', case,
                              [{'name': 'run', 'script': sc}], MONS, PID)
    if not results:
        ctx.evaluated(('discard', i), nontrivial=False)
        return
    m = (results[0].get('monitors') or {}).get('c30') or {}
    ctx.evaluated(runner.trace_key(results),
                  nontrivial=bool(m.get('target_checks')))
    ctx.sample({'flow': gt['flow_text'], 'script': sc})
