"""Maps property ids to check modules (vlib/e1/cNN.py, vlib/e2/cNN.py).

Each module carries a META dict used to generate MANIFEST.json:

    META = {
      'engine': 'E2 funcmon',
      'level': 'exploration',          # evidence level / manifest category
      'technique': 'few words naming the deciding method',
      'level_text': 'what assurance the check gives and why',
      'level_note': 'assumptions / trusted base',
      'design_ref': 'DESIGN.md §5 C16',
      'budget': {'quick': 60, 'thorough': 600},   # wall seconds cap
    }
"""
from __future__ import annotations

import importlib
import os
import re

ROOT = os.path.dirname(os.path.dirname(os.path.dirname(
    os.path.abspath(__file__))))


def all_modules():
    out = {}
    for pkg in ('e1', 'e2'):
        d = os.path.join(ROOT, 'vlib', pkg)
        for fn in sorted(os.listdir(d)):
            m = re.fullmatch(r'c(\d\d)\.py', fn)
            if m:
                out['C' + m.group(1)] = f'vlib.{pkg}.c{m.group(1)}'
    return out


def module_for(pid: str) -> str:
    mods = all_modules()
    if pid not in mods:
        raise SystemExit(f'no check module for {pid}')
    return mods[pid]


def load(pid: str):
    return importlib.import_module(module_for(pid))
