"""C28 Group trigger runs each member once, honouring in-group order."""
from __future__ import annotations

from vlib.e1 import runner, scripts
from vlib.e1.common import E1_META, E1_NOTE
from vlib.gen import wfgen

PID = 'C28'
META = dict(E1_META, **{
    'technique': 'monitor of every group-trigger command executed in real '
                 'scheduler runs: job-preparation events of the members '
                 'after the command judged against ground-truth in-group '
                 'prerequisite expressions and the facts completed since',
    'level_text': (
        '`cylc trigger` commands naming groups of 1-5 instances (picked '
        'along graph edges so that in-group prerequisites are common; '
        'active, finished, waiting and not-yet-spawned members; --flow '
        'default/new/N/none; repeated; optionally under a pause or holds) '
        'are executed through the real command path at random iterations '
        'of generated runs. Monitor, per command: no member enters job '
        'preparation more than once; a group-start member that had a live '
        'job is not prepared again; a member with in-group prerequisites '
        'enters preparation only when its ground-truth expressions hold '
        'over the outputs group members completed since the trigger '
        '(off-group atoms counted satisfied); right after the command no '
        'pooled member waits on an off-group prerequisite; group-start '
        'members without a live job reach preparation within K=5 '
        'iterations, held or paused notwithstanding (unlimited queues); '
        'at the end a member whose in-group prerequisites were satisfied '
        'has run or is still pooled.'),
    'level_note': E1_NOTE + ' Members later touched by another command '
                  '(set/remove/kill/hold/release/re-trigger) leave the '
                  'judgement; triggers with a reload or stop pending are '
                  'not judged for progress.',
    'design_ref': 'DESIGN.md §5 C28',
})
RULE = ('case = generated workflow (no retries) + plan + 1-3 group triggers '
        'x flow option x pause/hold prelude; distinct by event census; '
        'non-trivial when a triggered group had an in-group dependent '
        'member')
ASSUMPTIONS = ['workflows without automatic retries (a retry is another '
               'legitimate preparation)',
               'explicit CYCLE/NAME ids only (no globs) in trigger commands']
MIN = {'c28.trigger_commands': 300, 'c28.order_checks': 60,
       'c28.start_checks': 150, 'c28.offgroup_checks': 60,
       'c28.live_start_members': 30, 'c28.run_once_checks': 40}
NCASES = {'quick': 800, 'thorough': 10000}
MONS = ['c28', 'c26']


def ncases(tier):
    return NCASES[tier]


def neighbours(gt, n, p):
    out = set()
    for ar in wfgen.arrows_at(gt, n, p):
        for a in wfgen.atoms(ar):
            q = wfgen.atom_point(a, p)
            if q >= gt['initial'] and q in wfgen.task_points(gt, a[1]):
                out.add((a[1], q))
    return out


def trigger_script(rng, case):
    gt = case['gt']
    inst = [(n, p) for n in gt['names'] for p in wfgen.task_points(gt, n)]
    parents = {x: neighbours(gt, *x) for x in inst}
    children = {}
    for x, ps in parents.items():
        for y in ps:
            children.setdefault(y, set()).add(x)
    sc = []
    for _ in range(rng.randint(1, 3)):
        seed = rng.choice(inst)
        group = {seed}
        for _ in range(rng.choice([0, 1, 1, 2, 3, 4])):
            x = rng.choice(sorted(group))
            cand = sorted((parents.get(x, set()) | children.get(x, set()))
                          - group)
            if cand and rng.random() < 0.85:
                group.add(rng.choice(cand))
            else:
                group.add(rng.choice(inst))
        at = rng.randint(1, 16)
        flow = rng.choice([['all'], ['all'], ['all'], ['new'], ['new'],
                           ['1'], ['none'], ['2']])
        sc.append({'at': at, 'cmd': 'force_trigger_tasks',
                   'args': {'tasks': sorted(f'{p}/{n}' for n, p in group),
                            'flow': flow}})
        r = rng.random()
        if r < 0.2:
            sc.append({'at': max(1, at - rng.randint(0, 2)), 'cmd': 'pause',
                       'args': {}})
            sc.append({'at': at + rng.randint(6, 10), 'cmd': 'resume',
                       'args': {}})
        elif r < 0.4:
            sc.append({'at': max(1, at - rng.randint(1, 3)), 'cmd': 'hold',
                       'args': {'tasks': sorted(
                           f'{p}/{n}' for n, p in rng.sample(
                               sorted(group), min(len(group), 2)))}})
    if rng.random() < 0.15:
        # a member first triggered as a no-flow task, then the group around
        # it in the default flow
        seed = rng.choice(inst)
        group = {seed} | set(rng.sample(
            sorted(parents.get(seed, set()) | children.get(seed, set())
                   | {rng.choice(inst)}), 1))
        at = rng.randint(1, 10)
        sc.append({'at': at, 'cmd': 'force_trigger_tasks',
                   'args': {'tasks': ['%d/%s' % (seed[1], seed[0])],
                            'flow': ['none']}})
        sc.append({'at': at + rng.randint(1, 4), 'cmd': 'force_trigger_tasks',
                   'args': {'tasks': sorted(f'{p}/{n}' for n, p in group),
                            'flow': ['all']}})
    if rng.random() < 0.2:
        # a pooled task together with one of its parents
        sc.append({'at': rng.randint(2, 16), 'cmd': 'force_trigger_tasks',
                   'args': {'tasks': ['@pooled-chain'],
                            'flow': rng.choice([['all'], ['none'], ['new'],
                                                ['1']])}})
    if rng.random() < 0.25:
        # a retained finished task together with its dependants: they must
        # wait for its re-run, not be satisfied by its old outputs
        sc.append({'at': rng.randint(6, 20), 'cmd': 'force_trigger_tasks',
                   'args': {'tasks': ['@finished-group'],
                            'flow': rng.choice([['all'], ['all'], ['1']])}})
    return sorted(sc, key=lambda a: a['at'])


def run_case(ctx, i, rng):
    feat = wfgen.Features(max_tasks=5, retries=False, xtriggers=False,
                          runahead=['P1', 'P2', 'P4', None])
    gt = wfgen.gen_workflow(rng, feat)
    case = runner.build_case(rng, gt, rng.choice(['all-complete', 'mixed']),
                             hostile=0.15)
    sc = trigger_script(rng, case)
    results = runner.run_case(ctx, f'c{i}', case,
                              [{'name': 'run', 'script': sc}], MONS, PID)
    if not results:
        ctx.evaluated(('discard', i), nontrivial=False)
        return
    m = (results[0].get('monitors') or {}).get('c28') or {}
    ctx.evaluated(runner.trace_key(results),
                  nontrivial=bool(m.get('in_group_dependent_members')))
    ctx.sample({'flow': gt['flow_text'], 'script': sc})
