"""Generated dependency graphs in cylc graph-string syntax: ASTs, expression
trees, renderers in many equivalent textual forms, and malformed mutants.

Independent of cylc-flow: nothing here imports cylc.  The *meaning* of an AST
(what depends on what, which outputs are optional) lives in
`vlib.models.graphsem`; this module only builds ASTs and turns them into text.

Vocabulary
----------
Node
    one written graph node: ``[!]NAME[[OFFSET]][:QUALIFIER][?]``.
expression tree
    a `vlib.models.boolexpr` tree whose atom keys are Nodes.
Chain
    ``head => link1 => link2 ...``: `head` is an expression tree, every link
    is a non-empty AND-list of Nodes.  A chain without links is a line of
    lone nodes.  A chain stands for the pairs ``head => n`` (n in link1),
    ``AND(link1) => n`` (n in link2), ... -- that decomposition is the
    documented meaning of chaining, and `pairs()` computes it.
Graph
    a list of chains plus the family map (family name -> member task names).

All randomness comes from the `random.Random` passed in.
"""
from __future__ import annotations

import itertools
from dataclasses import dataclass, field, replace
from typing import Dict, Iterable, List, Optional, Sequence, Tuple

from vlib.models import boolexpr as B

ARROW, AND, OR, LPAR, RPAR = '=>', '&', '|', '(', ')'
OPERATORS = (ARROW, AND, OR)

# qualifier spellings the user documentation lists: long name <-> short alias
ALIASES = {
    'succeeded': 'succeed', 'failed': 'fail', 'started': 'start',
    'submitted': 'submit', 'submit-failed': 'submit-fail',
    'expired': 'expire', 'finished': 'finish',
}
FAMILY_STEMS = ('succeed', 'fail', 'finish', 'start', 'submit',
                'submit-fail', 'expire')
FAMILY_QUALIFIERS = tuple(
    f'{stem}-{mode}' for stem in FAMILY_STEMS for mode in ('all', 'any'))


# -- nodes ------------------------------------------------------------------

@dataclass(frozen=True, order=True)
class Node:
    name: str
    offset: str = ''       # text inside [...], '' = none
    qual: str = ''         # qualifier as written, '' = none
    opt: bool = False      # trailing '?'
    suicide: bool = False  # leading '!' (right-hand side only)

    def text(self) -> str:
        return (
            ('!' if self.suicide else '') + self.name
            + (f'[{self.offset}]' if self.offset else '')
            + (f':{self.qual}' if self.qual else '')
            + ('?' if self.opt else ''))

    def as_left(self) -> 'Node':
        return replace(self, suicide=False) if self.suicide else self

    def __str__(self) -> str:  # so that boolexpr.render works directly
        return self.text()


def respell(node: Node, rng) -> Node:
    """The same node with its qualifier spelt the other documented way."""
    q = node.qual
    if q in ALIASES:
        return replace(node, qual=ALIASES[q])
    for long, short in ALIASES.items():
        if q == short:
            return replace(node, qual=long)
    return node


# -- expression trees -------------------------------------------------------

def random_tree(rng, leaves: Sequence, p_or: float = 0.5,
                top: Optional[str] = None) -> B.Tree:
    """Random AND/OR tree with exactly these leaves, in this order.

    Children of a node use the other operator with probability 0.8, so most
    nesting is meaningful (parentheses needed), some is redundant.
    """
    leaves = list(leaves)
    if len(leaves) == 1:
        return B.atom(leaves[0])
    op = top or (B.OR if rng.random() < p_or else B.AND)
    k = rng.randint(2, min(3, len(leaves)))
    if rng.random() < 0.35:
        k = len(leaves) if len(leaves) <= 4 else k   # flat n-ary
    cuts = sorted(rng.sample(range(1, len(leaves)), k - 1))
    groups = [leaves[i:j] for i, j in zip([0] + cuts, cuts + [len(leaves)])]
    other = B.AND if op == B.OR else B.OR
    children = tuple(
        random_tree(rng, g, p_or, top=(other if rng.random() < 0.8 else op))
        for g in groups)
    return (op, children)


def all_trees(leaves: Sequence, _top=True) -> List[B.Tree]:
    """Every AND/OR tree over these leaves in this order with alternating
    operators (canonical n-ary form): used for small exhaustive sweeps."""
    leaves = list(leaves)
    if len(leaves) == 1:
        return [B.atom(leaves[0])]
    out = []
    for op in (B.AND, B.OR):
        out.extend(_trees_with_top(leaves, op))
    return out


def _compositions(n: int) -> List[Tuple[int, ...]]:
    """Ways to cut n items into >= 2 consecutive non-empty groups."""
    res = []
    for mask in range(1, 1 << (n - 1)):
        sizes, run = [], 1
        for i in range(n - 1):
            if mask >> i & 1:
                sizes.append(run)
                run = 1
            else:
                run += 1
        sizes.append(run)
        res.append(tuple(sizes))
    return res


def _trees_with_top(leaves, op):
    other = B.AND if op == B.OR else B.OR
    out = []
    for sizes in _compositions(len(leaves)):
        pos, groups = 0, []
        for s in sizes:
            groups.append(leaves[pos:pos + s])
            pos += s
        options = []
        for g in groups:
            options.append([B.atom(g[0])] if len(g) == 1
                           else _trees_with_top(g, other))
        for combo in itertools.product(*options):
            out.append((op, tuple(combo)))
    return out


def expr_tokens(tree: B.Tree, rng=None, redundant: float = 0.0,
                respell_p: float = 0.0) -> List[str]:
    """Token list of an expression tree: node texts, '(', ')', '&', '|'.

    Parentheses are placed where precedence needs them (an OR under an AND,
    and any same-operator nesting so that the tree shape survives); with
    probability `redundant` per sub-expression an extra pair is added (never
    changes the meaning).
    """
    def text(node):
        if rng is not None and respell_p and rng.random() < respell_p:
            node = respell(node, rng)
        return node.text() if isinstance(node, Node) else str(node)

    def wrap(toks):
        return [LPAR] + toks + [RPAR]

    def rec(t, parent):
        if t[0] == B.ATOM:
            toks = [text(t[1])]
            if rng is not None and redundant and rng.random() < redundant / 3:
                toks = wrap(toks)
            return toks
        if t[0] == B.CONST:
            raise ValueError('constants have no graph syntax')
        if len(t[1]) == 1:
            return rec(t[1][0], parent)
        op = AND if t[0] == B.AND else OR
        toks: List[str] = []
        for i, c in enumerate(t[1]):
            if i:
                toks.append(op)
            toks.extend(rec(c, t[0]))
        need = parent is not None and (
            (parent == B.AND and t[0] == B.OR) or parent == t[0])
        if need:
            toks = wrap(toks)
        if rng is not None and redundant and rng.random() < redundant:
            toks = wrap(toks)
        return toks
    return rec(tree, None)


# -- graphs -----------------------------------------------------------------

@dataclass
class Chain:
    head: B.Tree
    links: List[List[Node]] = field(default_factory=list)


@dataclass
class Graph:
    chains: List[Chain]
    families: Dict[str, List[str]] = field(default_factory=dict)
    meta: dict = field(default_factory=dict)


def link_tree(link: Sequence[Node]) -> B.Tree:
    """A link used as the left side of the next arrow: AND of its nodes."""
    return B.conj(B.atom(n.as_left()) for n in link)


def pairs(graph: Graph) -> List[Tuple[Optional[B.Tree], Node, dict]]:
    """Decompose into (left expression | None, right node, info).

    left None marks a lone / chain-initial node (no dependency).  info has
    'end' (right node is the last segment of its chain) and 'chain' index.
    """
    out = []
    for ci, ch in enumerate(graph.chains):
        for n in B.leaves(ch.head):
            out.append((None, n, {'chain': ci, 'end': not ch.links,
                                  'lone': not ch.links}))
        left = ch.head
        for li, link in enumerate(ch.links):
            for n in link:
                out.append((left, n, {'chain': ci,
                                      'end': li == len(ch.links) - 1,
                                      'lone': False}))
            left = link_tree(link)
    return out


# -- logical lines ----------------------------------------------------------

def chain_line(ch: Chain, rng=None, redundant=0.0, respell_p=0.0
               ) -> List[str]:
    toks = expr_tokens(ch.head, rng, redundant, respell_p)
    for link in ch.links:
        toks.append(ARROW)
        for i, n in enumerate(link):
            if i:
                toks.append(AND)
            toks.append(n.text())
    return toks


def logical_lines(graph: Graph, layout: str, rng=None, redundant=0.0,
                  respell_p=0.0) -> List[List[str]]:
    """Token lists, one per logical graph line.

    layout 'chains': one line per chain as generated;
           'joined': one line per arrow, right nodes joined with '&';
           'pairs':  one line per (left expression, single right node), plus
                     one line per chain-initial / lone node.
    The right node of a pair line keeps its '!' / qualifier / '?'; when a link
    is used as the left side its nodes lose only the '!' (never generated in
    that position anyway).
    """
    lines: List[List[str]] = []
    if layout == 'chains':
        return [chain_line(ch, rng, redundant, respell_p)
                for ch in graph.chains]
    for ch in graph.chains:
        if not ch.links:
            if layout == 'pairs' and rng is not None and rng.random() < 0.5:
                # lone nodes one per line
                for n in B.leaves(ch.head):
                    lines.append([n.text()])
            else:
                lines.append(expr_tokens(ch.head, rng, redundant, respell_p))
            continue
        left = ch.head
        for link in ch.links:
            ltoks = expr_tokens(left, rng, redundant, respell_p)
            if layout == 'joined':
                toks = list(ltoks) + [ARROW]
                for i, n in enumerate(link):
                    if i:
                        toks.append(AND)
                    toks.append(n.text())
                lines.append(toks)
            else:
                for n in link:
                    lines.append(
                        expr_tokens(left, rng, redundant, respell_p)
                        + [ARROW, n.text()])
            left = link_tree(link)
    return lines


# -- text -------------------------------------------------------------------

COMMENTS = (
    '# a comment', '#', '##', '# a => b', '# x | y & z', '# (unbalanced',
    '#=> dangling', '# foo:fail? => !bar', '#   spaced   ', '# a b c',
    '# trailing &', '# 100% done', '# [-P1]',
)
_WILD = (' ', '  ', '\t', ' \t ', '   ')


@dataclass
class Style:
    layout: str = 'pairs'          # pairs | joined | chains
    spacing: str = 'single'        # none | single | wild
    comments: bool = False
    continuation: str = 'none'     # none | trailing | leading | mixed
    duplicate: bool = False
    shuffle: bool = False
    redundant: float = 0.0         # probability of redundant parentheses
    respell: float = 0.0           # probability of the alias spelling
    blank_lines: bool = False

    def label(self) -> str:
        bits = [self.layout, 'sp-' + self.spacing]
        if self.comments:
            bits.append('comments')
        if self.continuation != 'none':
            bits.append('cont-' + self.continuation)
        if self.duplicate:
            bits.append('dup')
        if self.shuffle:
            bits.append('shuffled')
        if self.redundant:
            bits.append('parens')
        if self.respell:
            bits.append('respelt')
        if self.blank_lines:
            bits.append('blanks')
        return '+'.join(bits)


CANONICAL = Style()


def random_style(rng) -> Style:
    return Style(
        layout=rng.choice(['pairs', 'joined', 'chains', 'chains']),
        spacing=rng.choice(['none', 'single', 'wild']),
        comments=rng.random() < 0.4,
        continuation=rng.choice(['none', 'none', 'trailing', 'leading',
                                 'mixed']),
        duplicate=rng.random() < 0.3,
        shuffle=rng.random() < 0.5,
        redundant=rng.choice([0.0, 0.0, 0.3, 0.6]),
        respell=rng.choice([0.0, 0.0, 0.5]),
        blank_lines=rng.random() < 0.3,
    )


def systematic_styles() -> List[Style]:
    """One style per single presentation device (each differs from the
    canonical form in exactly one respect), plus the chain layout."""
    return [
        Style(layout='chains'),
        Style(layout='joined'),
        Style(spacing='none'),
        Style(spacing='wild'),
        Style(comments=True),
        Style(layout='chains', continuation='trailing'),
        Style(layout='chains', continuation='leading'),
        Style(duplicate=True),
        Style(shuffle=True),
        Style(redundant=0.6),
    ]


def _gap(rng, spacing: str) -> str:
    if spacing == 'none':
        return ''
    if spacing == 'single' or rng is None:
        return ' '
    return rng.choice(_WILD) if rng.random() < 0.8 else ''


def line_text(tokens: Sequence[str], rng, style: Style,
              indent: str = '') -> str:
    """Render one logical line, possibly over several physical lines."""
    out = indent
    n = len(tokens)
    broke_before = False
    for i, tok in enumerate(tokens):
        is_cont = tok in OPERATORS
        brk = None
        if (style.continuation != 'none' and is_cont and 0 < i < n - 1
                and rng.random() < 0.5):
            brk = style.continuation
            if brk == 'mixed':
                brk = rng.choice(['trailing', 'leading'])
        if i and not broke_before:
            out += _gap(rng, style.spacing)
        broke_before = False
        if brk == 'leading':
            out = out.rstrip(' \t') + _eol(rng, style) + '\n' + indent \
                + _gap(rng, 'wild' if style.spacing == 'wild' else 'single')
            out += tok
        elif brk == 'trailing':
            out += tok + _eol(rng, style) + '\n' + indent \
                + _gap(rng, 'wild' if style.spacing == 'wild' else 'single')
            broke_before = True
        else:
            out += tok
    return out


def _eol(rng, style: Style) -> str:
    """What may follow a physical line: nothing, spaces, a comment; possibly
    followed by a whole comment line or a blank line (inside a continued
    line these are dropped before joining, per the documented rules)."""
    s = ''
    if style.spacing == 'wild' and rng.random() < 0.3:
        s += rng.choice(_WILD)
    if style.comments and rng.random() < 0.4:
        # a comment may follow the last token directly
        s += rng.choice([' ', ' ', '']) + rng.choice(COMMENTS)
    return s


def graph_text(graph: Graph, rng, style: Style = CANONICAL,
               indent: str = '    ') -> str:
    """The graph string of `graph` in `style`."""
    lines = logical_lines(graph, style.layout, rng, style.redundant,
                          style.respell)
    if style.duplicate and lines:
        for _ in range(rng.randint(1, 2)):
            src = rng.choice(lines)
            lines.insert(rng.randint(0, len(lines)), list(src))
    if style.shuffle:
        rng.shuffle(lines)
    out: List[str] = []
    for toks in lines:
        if style.comments and rng.random() < 0.25:
            out.append(indent + rng.choice(COMMENTS))
        if style.blank_lines and rng.random() < 0.25:
            out.append(rng.choice(['', '   ', '\t']))
        out.append(line_text(toks, rng, style, indent) + _eol(rng, style))
    if style.comments and rng.random() < 0.3:
        out.append(indent + rng.choice(COMMENTS))
    return '\n'.join(out)


# -- malformed mutants ------------------------------------------------------

MUTATIONS = (
    'double-arrow', 'leading-arrow', 'trailing-arrow', 'double-and',
    'double-or', 'drop-close-paren', 'drop-open-paren', 'or-on-right',
    'suicide-on-left', 'empty-operand-before-arrow', 'empty-operand-in-parens',
    'empty-operand-double-operator', 'missing-operator', 'empty-parens-left',
    'empty-parens-right', 'dangling-operator', 'bad-node-double-optional',
    'bad-node-double-qualifier', 'bad-node-unclosed-offset',
)


def mutate(tokens: Sequence[str], kind: str, rng) -> Optional[str]:
    """A malformed variant of one single-line logical line (text), or None if
    the mutation does not apply to this line.

    The line is rendered with single spaces; every mutation is a clear-cut
    syntax error from the user documentation's point of view.
    """
    toks = list(tokens)
    arrows = [i for i, t in enumerate(toks) if t == ARROW]
    first_arrow = arrows[0] if arrows else None

    def join(ts):
        return ' '.join(ts)

    def is_node(t):
        return t not in (ARROW, AND, OR, LPAR, RPAR)

    if kind == 'double-arrow':
        if not arrows:
            return None
        i = rng.choice(arrows)
        return join(toks[:i] + [ARROW] + toks[i:])
    if kind == 'leading-arrow':
        return join([ARROW] + toks)
    if kind == 'trailing-arrow':
        return join(toks + [ARROW])
    if kind in ('double-and', 'double-or'):
        op = AND if kind == 'double-and' else OR
        idx = [i for i, t in enumerate(toks) if t == op]
        if not idx:
            return None
        i = rng.choice(idx)
        toks[i] = op + op
        return join(toks)
    if kind in ('drop-close-paren', 'drop-open-paren'):
        p = RPAR if kind == 'drop-close-paren' else LPAR
        idx = [i for i, t in enumerate(toks) if t == p]
        if not idx:
            # add an unmatched one instead
            if first_arrow is None:
                return None
            return join([LPAR] + toks if p == RPAR
                        else toks[:first_arrow] + [RPAR]
                        + toks[first_arrow:])
        i = rng.choice(idx)
        return join(toks[:i] + toks[i + 1:])
    if kind == 'or-on-right':
        if first_arrow is None:
            return None
        idx = [i for i, t in enumerate(toks) if t == AND and i > first_arrow]
        if idx:
            toks[rng.choice(idx)] = OR
            return join(toks)
        return join(toks + [OR, 'zz_extra'])
    if kind == 'suicide-on-left':
        if first_arrow is None:
            return None
        idx = [i for i, t in enumerate(toks[:first_arrow]) if is_node(t)]
        i = rng.choice(idx)
        toks[i] = '!' + toks[i]
        return join(toks)
    if kind == 'empty-operand-before-arrow':
        if first_arrow is None:
            return None
        return join(toks[:first_arrow] + [rng.choice([AND, OR])]
                    + toks[first_arrow:])
    if kind == 'empty-operand-in-parens':
        idx = [i for i, t in enumerate(toks) if t == RPAR]
        if not idx:
            return None
        i = rng.choice(idx)
        return join(toks[:i] + [rng.choice([AND, OR])] + toks[i:])
    if kind == 'empty-operand-double-operator':
        lim = first_arrow if first_arrow is not None else len(toks)
        idx = [i for i, t in enumerate(toks[:lim]) if t in (AND, OR)]
        if not idx:
            return None
        i = rng.choice(idx)
        other = OR if toks[i] == AND else AND
        return join(toks[:i + 1] + [other] + toks[i + 1:])
    if kind == 'missing-operator':
        lim = first_arrow if first_arrow is not None else len(toks)
        idx = [i for i, t in enumerate(toks[:lim])
               if t in (AND, OR) and 0 < i < len(toks) - 1
               and is_node(toks[i - 1]) and is_node(toks[i + 1])]
        if not idx:
            return None
        i = rng.choice(idx)
        return join(toks[:i] + toks[i + 1:])
    if kind == 'empty-parens-left':
        if first_arrow is None:
            return None
        return join([LPAR, RPAR, rng.choice([AND, OR])] + toks)
    if kind == 'empty-parens-right':
        if first_arrow is None:
            return None
        return join(toks + [AND, LPAR, RPAR])
    if kind == 'dangling-operator':
        return join(toks + [rng.choice([AND, OR])])
    if kind.startswith('bad-node-'):
        idx = [i for i, t in enumerate(toks) if is_node(t)]
        i = rng.choice(idx)
        bare = toks[i].rstrip('?')
        if kind == 'bad-node-double-optional':
            toks[i] = bare + '??'
        elif kind == 'bad-node-double-qualifier':
            toks[i] = (bare if ':' in bare else bare + ':x') + ':y'
        else:
            toks[i] = bare.split('[')[0].split(':')[0] + '[-P1'
        return join(toks)
    raise ValueError(kind)


# -- names ------------------------------------------------------------------

# Task names made only of word characters; chosen so that many are prefixes,
# suffixes or substrings of one another.
WORD_NAMES = (
    'a', 'ab', 'abc', 'b', 'ba', 'bab', 'a_b', 'b_a', 'a1', 'a11', '1a',
    'foo', 'foo_bar', 'bar', 'oo', 'fo', 'x', 'xx', 'ax', 'xa',
)
# Valid task names that contain the other permitted characters (- + % @).
NONWORD_INNER_NAMES = ('a-b', 'b-a', 'a+b', 'foo-bar', 'x@a', 'a%b', 'ab-a')
NONWORD_TRAILING_NAMES = ('p-', 'q+', 'r%', 's@', 'pq-')
FAMILY_WORD_NAMES = ('FAM', 'FAM2', 'A_FAM', 'FAMX', 'F', 'FF')
FAMILY_NONWORD_NAMES = ('A-FAM', 'F+G', 'G%')
MEMBER_NAMES = ('m1', 'm2', 'm12', 'm', 'fm', 'm_1', 'mm', '1m')
CUSTOM_OUTPUT_NAMES = ('x', 'y', 'x1', 'out-a', 'x_y', 'xy')

INTEGER_OFFSETS = ('-P1', '-P2', '-P1', '^', '^+P1', '+P1', '2')
TASK_OUTPUT_KINDS = (
    # (standard output, weight)
    ('succeeded', 10), ('failed', 3), ('finished', 2), ('started', 2),
    ('submitted', 2), ('submit-failed', 1), ('expired', 1), ('custom', 3),
)


def pick_weighted(rng, pairs):
    total = sum(w for _, w in pairs)
    r = rng.random() * total
    for v, w in pairs:
        r -= w
        if r < 0:
            return v
    return pairs[-1][0]


def spell_output(rng, output: str) -> str:
    """A written qualifier for a standard output ('' for plain success)."""
    if output == 'succeeded':
        return rng.choice(['', '', '', 'succeed', 'succeeded'])
    if output in ALIASES:
        return rng.choice([output, ALIASES[output], ALIASES[output]])
    return output


# -- consistent optionality -------------------------------------------------

def solve_optionality(rng, refs: Iterable[Tuple[str, str]],
                      families: Dict[str, Sequence[str]],
                      p_optional: float = 0.4) -> Dict[Tuple[str, str], bool]:
    """Choose, for every (name, output) referenced by a graph, whether the
    author marks it optional -- consistently, by the documented rules:

    * ``:expired`` and ``:submit-failed`` can only be optional;
    * if both success and failure (or both submitted and submit-failed) of a
      task are referenced, both must be optional; ``:finish`` references
      success and failure and needs no mark itself;
    * one mark per (task, output) everywhere, so a family reference and its
      members' references agree.

    `refs` are (task-or-family name, standard output incl. 'finished').
    Returns {(name, output): optional} for every ref as given (for
    'finished' always False: it cannot carry '?').
    """
    refs = sorted(set(refs))
    members = lambda n: list(families[n]) if n in families else [n]  # noqa
    flag: Dict[Tuple[str, str], bool] = {}
    used: Dict[str, set] = {}
    for name, out in refs:
        outs = ['succeeded', 'failed'] if out == 'finished' else [out]
        for t in members(name):
            for o in outs:
                used.setdefault(t, set()).add(o)
                if (t, o) not in flag:
                    flag[(t, o)] = rng.random() < p_optional
                if out == 'finished' or o in ('expired', 'submit-failed'):
                    flag[(t, o)] = True
    changed = True
    while changed:
        changed = False
        for t, outs in used.items():
            for x, y in (('succeeded', 'failed'),
                         ('submitted', 'submit-failed')):
                if x in outs and y in outs and not (
                        flag[(t, x)] and flag[(t, y)]):
                    flag[(t, x)] = flag[(t, y)] = True
                    changed = True
        for name, out in refs:
            if name not in families or out == 'finished':
                continue
            ms = [(t, out) for t in members(name)]
            if any(flag[k] for k in ms) and not all(flag[k] for k in ms):
                for k in ms:
                    flag[k] = True
                changed = True
    res = {}
    for name, out in refs:
        if out == 'finished':
            res[(name, out)] = False
        else:
            ms = members(name)
            res[(name, out)] = flag[(ms[0], out)] if ms else False
    res['__task_flags__'] = flag   # type: ignore[index]
    return res


# -- random graphs ----------------------------------------------------------

@dataclass
class GraphSpec:
    """Knobs of `random_graph`."""
    names: str = 'word'            # word | nonword-inner | nonword-trailing
    n_tasks: Tuple[int, int] = (3, 7)
    n_chains: Tuple[int, int] = (2, 5)
    max_head_leaves: int = 4
    max_links: int = 3
    families: int = 0              # number of families
    family_names: str = 'word'     # word | nonword
    offsets: Sequence[str] = INTEGER_OFFSETS
    p_offset: float = 0.25
    p_suicide: float = 0.08
    p_or: float = 0.5
    p_custom: float = 0.4          # task has custom outputs
    p_lone: float = 0.2
    family_qualifiers: Sequence[str] = FAMILY_QUALIFIERS
    p_duplicate_leaf: float = 0.2


def _name_pool(kind: str) -> List[str]:
    if kind == 'word':
        return list(WORD_NAMES)
    if kind == 'nonword-inner':
        return list(NONWORD_INNER_NAMES) + ['a', 'b', 'ab', 'foo', 'bar', 'x']
    if kind == 'nonword-trailing':
        return list(NONWORD_TRAILING_NAMES) + ['a', 'b', 'ab', 'foo', 'bar']
    raise ValueError(kind)


def random_graph(rng, spec: GraphSpec = GraphSpec()) -> Graph:
    """A random, *consistent* graph (see solve_optionality), acyclic within
    a cycle, without self-edges, with every offset-only task also given a
    lone line so that it cycles."""
    pool = _name_pool(spec.names)
    n = rng.randint(*spec.n_tasks)
    if spec.names != 'word':
        # make sure the colliding pairs are present
        special = (NONWORD_INNER_NAMES if spec.names == 'nonword-inner'
                   else NONWORD_TRAILING_NAMES)
        first = rng.choice(special)
        rest = [p for p in pool if p != first]
        tasks = [first] + rng.sample(rest, min(n - 1, len(rest)))
    else:
        tasks = rng.sample(pool, min(n, len(pool)))
    rng.shuffle(tasks)
    families: Dict[str, List[str]] = {}
    mpool = [m for m in MEMBER_NAMES if m not in tasks]
    if spec.family_names == 'word':
        fnames = rng.sample(list(FAMILY_WORD_NAMES),
                            min(spec.families, len(FAMILY_WORD_NAMES)))
    else:
        first = rng.choice(FAMILY_NONWORD_NAMES)
        fnames = [first] + (['FAM'] if spec.families > 1 else [])
    for fname in fnames:
        families[fname] = sorted(rng.sample(mpool, rng.randint(1, 3)))
    customs = {
        t: rng.sample(CUSTOM_OUTPUT_NAMES, rng.randint(1, 2))
        for t in tasks if rng.random() < spec.p_custom}
    rank = {t: i for i, t in enumerate(tasks)}

    def left_node(cands):
        name = rng.choice(cands)
        offset = (rng.choice(list(spec.offsets))
                  if rng.random() < spec.p_offset else '')
        if name in families:
            qual = rng.choice(list(spec.family_qualifiers))
            return Node(name, offset, qual)
        kind = pick_weighted(rng, TASK_OUTPUT_KINDS)
        if kind == 'custom':
            if name not in customs:
                kind = 'succeeded'
            else:
                return Node(name, offset, rng.choice(customs[name]))
        return Node(name, offset, spell_output(rng, kind))

    chains: List[Chain] = []
    for _ in range(rng.randint(*spec.n_chains)):
        if rng.random() < spec.p_lone:
            k = rng.randint(1, 3)
            ns = rng.sample(tasks, min(k, len(tasks)))
            chains.append(Chain(B.conj(B.atom(Node(t)) for t in ns), []))
            continue
        nlinks = rng.randint(1, spec.max_links)
        # reserve the top `nlinks` ranks at least for the right-hand side
        cut = rng.randint(1, max(1, len(tasks) - nlinks))
        lows = tasks[:cut] + list(families)
        k = min(rng.randint(1, spec.max_head_leaves),
                rng.randint(1, spec.max_head_leaves))
        leaves = [left_node(lows) for _ in range(k)]
        if len(leaves) >= 2 and rng.random() < spec.p_duplicate_leaf:
            # the same written node twice in one expression
            leaves[rng.randrange(len(leaves))] = rng.choice(leaves)
        head = random_tree(rng, leaves, spec.p_or)
        links: List[List[Node]] = []
        lo = cut
        head_fams = {n.name for n in leaves if n.name in families}
        for li in range(nlinks):
            avail = tasks[lo:]
            if not avail:
                break
            width = min(rng.randint(1, 3), rng.randint(1, 3), len(avail))
            chosen = sorted(rng.sample(avail, width), key=rank.get)
            last = li == nlinks - 1 or max(rank[t] for t in chosen) \
                >= len(tasks) - 1
            link = []
            for t in chosen:
                qual = ''
                if rng.random() < 0.15:
                    kind = pick_weighted(rng, TASK_OUTPUT_KINDS)
                    if kind == 'custom':
                        qual = (rng.choice(customs[t]) if t in customs
                                else '')
                    elif kind != 'finished' or not last:
                        qual = spell_output(rng, kind)
                link.append(Node(t, '', qual))
            fam_cands = [f for f in families if f not in head_fams]
            if fam_cands and rng.random() < 0.2 and not links:
                f = rng.choice(fam_cands)
                if last:
                    link.append(Node(f, '', rng.choice(
                        ['', '', 'succeed-all', 'finish-all', 'fail-any'])))
                else:
                    link.append(Node(f, '', rng.choice(
                        list(spec.family_qualifiers))))
            if last and rng.random() < spec.p_suicide:
                i = rng.randrange(len(link))
                link[i] = replace(link[i], suicide=True, qual='')
            links.append(link)
            lo = max(rank[t] for t in chosen) + 1
            if last:
                break
        chains.append(Chain(head, links))
    graph = Graph(chains, families, {'customs': customs, 'tasks': tasks,
                                     'names': spec.names})
    _add_cycling_lines(graph, rng)
    apply_optionality(graph, rng)
    return graph


def _iter_nodes(graph: Graph):
    for ch in graph.chains:
        for n in B.leaves(ch.head):
            yield n
        for link in ch.links:
            yield from link


def _add_cycling_lines(graph: Graph, rng) -> None:
    """Give every task/family that only appears with an offset (or only as a
    suicide target, or not at all as a family member) a lone line."""
    plain = set()
    for ch in graph.chains:
        for n in B.leaves(ch.head):
            if not n.offset:
                plain.add(n.name)
        for link in ch.links:
            for n in link:
                if not n.suicide:
                    plain.add(n.name)
    missing = sorted({n.name for n in _iter_nodes(graph)} - plain)
    if missing:
        nodes = []
        for name in missing:
            if name in graph.families:
                # same qualifier as the family's first written occurrence
                quals = [n.qual for n in _iter_nodes(graph)
                         if n.name == name and n.qual and not n.suicide]
                nodes.append(Node(name, '', quals[0] if quals
                                  else 'succeed-all'))
            else:
                nodes.append(Node(name))
        graph.chains.append(Chain(B.conj(B.atom(n) for n in nodes), []))


def _node_output(node: Node, families) -> Optional[str]:
    """Standard output (incl. 'finished') a node refers to, None for a plain
    family name."""
    if node.name in families:
        for stem in FAMILY_STEMS:
            for mode in ('all', 'any'):
                if node.qual == f'{stem}-{mode}':
                    long = [k for k, v in ALIASES.items() if v == stem][0]
                    return long
        return None
    if not node.qual:
        return 'succeeded'
    for long, short in ALIASES.items():
        if node.qual in (long, short):
            return long
    return node.qual


def apply_optionality(graph: Graph, rng, p_optional: float = 0.4,
                      p_drop_end_mark: float = 0.25) -> None:
    """Write '?' marks consistently over the whole graph (in place)."""
    fam = graph.families
    refs = []
    for n in _iter_nodes(graph):
        if n.suicide:
            continue
        out = _node_output(n, fam)
        if out is not None:
            refs.append((n.name, out))
    flags = solve_optionality(rng, refs, fam, p_optional)

    def mark(n: Node, droppable: bool) -> Node:
        if n.suicide:
            return n
        out = _node_output(n, fam)
        if out is None:
            return n
        opt = flags[(n.name, out)]
        if opt and droppable and not n.qual and \
                rng.random() < p_drop_end_mark:
            opt = False     # plain name at the end of a chain: no mark needed
        return replace(n, opt=opt)

    for ch in graph.chains:
        ch.head = B.substitute(
            ch.head, lambda n: B.atom(mark(n, False)))
        for li, link in enumerate(ch.links):
            end = li == len(ch.links) - 1
            ch.links[li] = [
                mark(n, end and n.name not in fam) for n in link]
    graph.meta['task_flags'] = flags.pop('__task_flags__')


def map_graph(graph: Graph, fn) -> Graph:
    """Copy with every node replaced by fn(node)."""
    chains = [
        Chain(B.substitute(ch.head, lambda n: B.atom(fn(n))),
              [[fn(n) for n in link] for link in ch.links])
        for ch in graph.chains]
    return Graph(chains, dict(graph.families), dict(graph.meta))


# -- workflow files ---------------------------------------------------------

def flow_cylc(graph_sections: Sequence[Tuple[str, str]],
              scheduling: Sequence[Tuple[str, str]] = (),
              scheduler: Sequence[Tuple[str, str]] = (),
              runtime: Sequence[Tuple[str, Sequence[str],
                                      Sequence[Tuple[str, str]]]] = (),
              implicit_ok: bool = True) -> str:
    """Text of a flow.cylc.

    graph_sections: (recurrence, graph string) pairs;
    runtime: (namespace heading, [parents], [(output name, message)]).
    Messages are written in double quotes unless they contain one.
    """
    out = ['[scheduler]']
    if implicit_ok:
        out.append('    allow implicit tasks = True')
    for k, v in scheduler:
        out.append(f'    {k} = {v}')
    out.append('[scheduling]')
    for k, v in scheduling:
        out.append(f'    {k} = {v}')
    out.append('    [[graph]]')
    for rec, text in graph_sections:
        out.append(f'        {rec} = """')
        out.append(text)
        out.append('        """')
    out.append('[runtime]')
    for heading, parents, outputs in runtime:
        out.append(f'    [[{heading}]]')
        if parents:
            out.append('        inherit = ' + ', '.join(parents))
        if outputs:
            out.append('        [[[outputs]]]')
            for name, msg in outputs:
                q = "'" if '"' in msg else '"'
                out.append(f'            {name} = {q}{msg}{q}')
    return '\n'.join(out) + '\n'


# -- hostile textual features (for mechanism keys of findings) -------------

def _is_word(ch: str) -> bool:
    return ch.isalnum() or ch == '_'


def _boundary(s: str, i: int) -> bool:
    a = _is_word(s[i - 1]) if 0 < i <= len(s) else False
    b = _is_word(s[i]) if 0 <= i < len(s) else False
    return a != b


def inside_at_word_boundaries(small: str, big: str) -> bool:
    """Does `small` occur inside the different string `big`, delimited on
    both sides by a word/non-word transition (or the string ends)?"""
    if small == big or not small:
        return False
    start = 0
    while True:
        i = big.find(small, start)
        if i < 0:
            return False
        if _boundary(big, i) and _boundary(big, i + len(small)):
            return True
        start = i + 1


REGEX_METACHARS = set('+*?.()[]{}|^$\\')
# Hazard classes that no longer break the code under test (repaired there).
# They are still generated and counted as input classes, but no longer used
# to name a finding: if one of them breaks again the finding is reported
# under its symptom.
RETIRED_HAZARDS = frozenset({
    'alias-qualifier-prefix-of-another-with-offset',
})


def hostile_features(nodes: Iterable[Node],
                     families: Dict[str, Sequence[str]],
                     respelt: bool = False) -> List[str]:
    """Names of the textual hazards present among nodes that are written
    together (one expression / one arrow / one graph).

    These describe the *input*, independently of any implementation; checks
    use them only to give findings stable mechanism keys.  With `respelt`
    every qualifier is considered in both documented spellings.
    """
    nodes = list(nodes)
    if respelt:
        nodes = nodes + [respell(n, None) for n in nodes]
    names = {n.name for n in nodes}
    for n in nodes:
        if n.name in families:
            names.update(families[n.name])
    feats = []
    ordered = sorted(names)
    if any(inside_at_word_boundaries(a, b) for a in ordered for b in ordered):
        feats.append('name-inside-name-at-nonword-char')
    if any(not _is_word(n[-1]) for n in ordered if n):
        feats.append('name-ends-with-nonword-char')
    if any(n.name in families and set(n.name) & REGEX_METACHARS
           for n in nodes):
        feats.append('family-name-regex-metachar')
    fin = set()
    for n in nodes:
        if n.qual in ('finish', 'finished'):
            fin.add((n.name, n.offset))
        elif n.name in families and n.qual in ('finish-all', 'finish-any'):
            fin.update((m, n.offset) for m in families[n.name])
    if any(a != b and b.endswith(a) and oa == ob
           for a, oa in fin for b, ob in fin):
        feats.append('finish-on-name-that-is-suffix-of-another')
    plain = {n.name for n in nodes if not n.qual and not n.offset}
    quals = {n.qual for n in nodes if n.qual}
    if any(p == q or inside_at_word_boundaries(p, q)
           for p in plain for q in quals):
        feats.append('plain-task-name-inside-a-qualifier')
    groups: Dict[Tuple[str, str], set] = {}
    for n in nodes:
        if n.qual or n.offset:
            # a plain name with an offset stands for name[offset]:succeeded
            groups.setdefault((n.name, n.offset), set()).add(
                n.qual or 'succeeded')
    shorts = set(ALIASES.values())
    for (_name, offset), quals in sorted(groups.items()):
        for a in sorted(quals & shorts):
            for b in sorted(quals - {a}):
                if inside_at_word_boundaries(a, b):
                    feats.append('alias-qualifier-inside-hyphenated-'
                                 'qualifier')
                elif offset and b.startswith(a):
                    feats.append('alias-qualifier-prefix-of-another-'
                                 'with-offset')
    return sorted(set(feats) - RETIRED_HAZARDS)


def duplicate_node_classes(nodes: Iterable[Node]) -> List[str]:
    """Input classes about a node written more than once in one expression
    (counted by the checks so that coverage of them is visible)."""
    seen, out = set(), set()
    shorts = set(ALIASES.values())
    for n in nodes:
        if n in seen:
            out.add('duplicate-node')
            if n.offset and n.qual in shorts:
                out.add('duplicate-node-with-offset-and-alias-qualifier')
            elif n.qual in shorts:
                out.add('duplicate-node-with-alias-qualifier')
            elif n.offset:
                out.add('duplicate-node-with-offset')
        seen.add(n)
    return sorted(out)
