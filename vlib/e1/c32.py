"""C32 Clock expiry only expires eligible tasks."""
from __future__ import annotations

from vlib.e1 import runner
from vlib.e1.common import E1_META, E1_NOTE
from vlib.gen import c32gen

PID = 'C32'
META = dict(E1_META, **{
    'technique': 'monitor of every transition to expired, every job '
                 'preparation and every spawn-on-expired in real scheduler '
                 'runs on a virtual clock, against expiry times and expire '
                 'children computed from the generated definition',
    'level_text': (
        'Datetime-cycling workflows (2-5 one-minute cycles around the '
        'virtual start time, 3-6 tasks, 1-3 clock-expire tasks with offsets '
        'from -PT1M to PT5M, chains, same-cycle dependencies, a limit-1 '
        'queue, :expire? children) run in the real scheduler on a virtual '
        'clock that advances 1-5 s per main-loop iteration, with holds, '
        'pauses and manual triggers of waiting tasks scripted in. Monitor: '
        'every transition to expired is of a clock-expire task that was '
        'waiting, not manually triggered, at a virtual time at or after '
        'cycle point + offset (own arithmetic); no expired task later '
        'enters job preparation; between entry and exit of spawning on an '
        'expired output only ground-truth expire children (and the next '
        'parentless instance of the task itself) are added to the pool, '
        'and every pooled expire child has that prerequisite satisfied.'),
    'level_note': E1_NOTE + ' Whether an eligible task does expire is '
                  'recorded (counters) but not judged: the statement is an '
                  '"only if".',
    'design_ref': 'DESIGN.md §5 C32',
})
RULE = ('case = generated datetime workflow with clock-expire offsets x '
        'virtual clock step x hold/pause/trigger script; distinct by event '
        'census; non-trivial when a task expired')
ASSUMPTIONS = ['expiry by `cylc set --out=expired` is not exercised']
MIN = {'c32.expiries': 150, 'c32.expired_after_time': 150,
       'c32.expire_spawn_checks': 100, 'c32.expire_child_checks': 40,
       'c32.preparations': 1000}
NCASES = {'quick': 800, 'thorough': 10000}
MONS = ['c32']


def ncases(tier):
    return NCASES[tier]


def script(rng, gt):
    sc = []
    inst = [f'{p}/{n}' for p in gt['points'] for n in gt['names']]
    for _ in range(rng.randint(0, 3)):
        at = rng.randint(1, 25)
        r = rng.random()
        ids = rng.sample(inst, min(len(inst), rng.choice([1, 2])))
        if r < 0.35:
            sc.append({'at': at, 'cmd': 'hold', 'args': {'tasks': ids}})
            sc.append({'at': at + rng.randint(3, 25), 'cmd': 'release',
                       'args': {'tasks': ids}})
        elif r < 0.55:
            sc.append({'at': at, 'cmd': 'pause', 'args': {}})
            sc.append({'at': at + rng.randint(3, 25), 'cmd': 'resume',
                       'args': {}})
        else:
            sc.append({'at': at, 'cmd': 'force_trigger_tasks',
                       'args': {'tasks': ids, 'flow': ['all']}})
    return sorted(sc, key=lambda a: a['at'])


def run_case(ctx, i, rng):
    gt = c32gen.gen(rng)
    pol = runner.gen_policy(rng, hostile=0.1)
    pol['dt'] = rng.choice([1.0, 2.0, 5.0, 10.0])
    pol['speed'] = rng.choice([0.2, 0.3, 0.6])
    # some jobs fail: a failed clock-expire task whose success is required
    # is retained (finished, incomplete) while its expiry time passes
    plans = {}
    for p in gt['points']:
        for n in gt['names']:
            if rng.random() < 0.2:
                plans[f'{p}/{n}'] = {'tries': [{'result': 'failed'}]}
    case = {'seed': rng.randrange(1 << 30), 'gt': gt, 'messages': {},
            'plans': plans, 'policy': pol, 'plan_class': 'some-fail'}
    sc = script(rng, gt)
    results = runner.run_case(ctx, f'c{i}', case,
                              [{'name': 'run', 'script': sc}], MONS, PID)
    if not results:
        ctx.evaluated(('discard', i), nontrivial=False)
        return
    m = (results[0].get('monitors') or {}).get('c32') or {}
    ctx.evaluated(runner.trace_key(results),
                  nontrivial=bool(m.get('expiries')))
    ctx.maxc('max_expiry_lag_seconds', m.get('max_expiry_lag_seconds', 0))
    ctx.sample({'flow': gt['flow_text'], 'script': sc, 'policy': pol})
