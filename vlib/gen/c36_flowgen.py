"""Generator of hostile-but-valid parsec source files for C36.

Nothing here imports cylc.  A FlowGen produces the text of a flow.cylc plus
its %include / Jinja2 include files, as physical lines, tracking section
nesting so that the result is valid for the parsec file parser:

  * sections nested up to 3 deep, re-opened sections, odd section names
  * keys with spaces and punctuation, parameterised keys, duplicate keys,
    repeated graph strings under [scheduling][[graph]]
  * bare / single / double quoted values, lists, trailing comments, '#' and
    '=' and brackets inside values, empty values, unicode
  * triple-quoted single-line values, multi-line strings of both quote
    kinds containing section-looking, item-looking and comment-looking lines,
    blank lines, trailing whitespace and the other quote kind
  * continuation lines: splits at random positions of item lines and of
    lines inside multi-line strings, list continuation
  * %include at any nesting, inside multi-line strings, nested, repeated,
    quoted three ways, include files without final newline or ending in a
    continuation
  * Jinja2: set, expressions, filters, for, if/else, comments, raw blocks,
    macros, whitespace control, {% include %}, template variables from the
    caller, Jinja2-made continuation lines, Jinja2 inside multi-line strings

`hazard` asks for one instance of an input class that is legal but rare:
  'comment-bs'    a comment whose last characters are a backslash followed
                  by white space
  'continued-bs'  a continued line whose continuation ends in a backslash
                  followed by white space
"""
from __future__ import annotations

WORDS = ['foo', 'bar', 'baz', 'qux', 'alpha', 'beta', 'x1', 'model', 'post',
         'obs', 'run_a', 'T', 'get-data', 'v2.1']
SECTION_NAMES = ['scheduling', 'runtime', 'graph', 'environment', 'foo',
                 'FAM', 'a, b', 'task<m>', 'my section', 'directives',
                 'x-y.z', 'root', 'queues', 'events', 'T<i,j>', 'meta',
                 'remote', 'special tasks']
KEYS = ['script', 'inherit', 'execution time limit', 'a-b', 'x.y', 'P1D',
        'T00,T12', '+P1D/P1D!(T06)', 'R1/^+PT6H', 'R1', 'key<m>', 'URL',
        'install/dir', 'env(var)', 'limit', 'title', 'description', 'FOO',
        'pre-script', 'mail events', 'platform', '-l walltime', 'B:ar',
        'n!x', 'final cycle point', 'initial cycle point', 'R/P1']
BARE_VALUES = ['foo', 'a, b, c', '1', 'PT1H', 'echo hello world',
               'a => b & c', 'x = y', 'list[0] and [x]', '$HOME/bin:$PATH',
               r'C:\dir\file', 'caf\u00e9 \u2192 ok', '20200101T00', 'True',
               '1..5', 'a:fail | b:succeed => c', '  spaced   out  ',
               '100%', "it's", 'say "hi"', '+P1D', '!x', '<m>', 'a,b,',
               '${FOO:-bar}', '~/x', '*.txt', 'a;b', r'tab\there', '0.5']
COMMENTS = ['a comment', 'key = value', '[section]', 'with "quotes"',
            "it's", r'path C:\tmp\x', 'TODO: x => y', '#### banner ####',
            'caf\u00e9', 'not included', '"""', "'''", '']
ML_LINES = ['echo "hello # not a comment"', 'if [[ -n $X ]]; then',
            '    x=1', 'fi', '[fake section]', '[[deeper fake]]',
            'key = value', '# comment inside', '', '   ', 'a => b',
            'b => c & d  # graph comment', '\tindented with tab',
            'trailing space   ', 'x = "quoted"', "y = 'single'",
            'caf\u00e9', 'echo $((1 + 2))', 'R1 = not a key',
            '%included not', 'cat <<EOF', 'EOF', 'foo | bar', 'a \\& b']
JINJA_UNSAFE = ('{', '}')


class FlowGen:
    def __init__(self, rng, jinja=False, hazard=None, size=None):
        self.rng = rng
        self.jinja = jinja
        self.hazard = hazard
        self.files = {}          # relative path -> text
        self.features = set()
        self.markers = []        # tokens that must show up in the config
        self.tvars = {}
        self.n_inc = 0
        self.n_key = 0
        self.size = size or rng.choice([6, 10, 14, 20, 30])
        self.loop_depth = 0

    # ---------------------------------------------------------- helpers --
    def ind(self):
        r = self.rng.random()
        if r < 0.3:
            return ''
        if r < 0.9:
            return ' ' * self.rng.choice([2, 4, 4, 8, 12, 3])
        return '\t'

    def word(self):
        return self.rng.choice(WORDS)

    def key(self, loopvar=None):
        rng = self.rng
        self.n_key += 1
        r = rng.random()
        if r < 0.45:
            k = rng.choice(KEYS)
        elif r < 0.9:
            k = f'{self.word()}{self.n_key}'
        else:
            k = f'{rng.choice([x for x in KEYS if "<" not in x])} {self.n_key}'
        if loopvar and rng.random() < 0.7:
            k = f'k_{self.word()}_{{{{ {loopvar} }}}}'
            self.features.add('jinja-in-key')
        return k

    def comment(self):
        c = self.rng.choice(COMMENTS)
        if self.jinja and any(ch in c for ch in JINJA_UNSAFE):
            c = 'plain'
        return '#' + self.rng.choice(['', ' ', '  ']) + c

    def jexpr(self, loopvar=None):
        """A Jinja2 expression rendering to a short token."""
        rng = self.rng
        opts = ['{{ NUM }}', '{{ NUM + 1 }}', '{{ STR }}', '{{ STR | upper }}',
                '{{ LST | join(", ") }}', '{{ "%03d" % NUM }}',
                '{{ LST[0] }}', '{{ LST | length }}', '{{ TV_INT * 2 }}',
                '{{ TV_STR }}', '{{ TV_LIST | join(" & ") }}',
                '{{ "a#b" }}', '{{ STR ~ "_" ~ NUM }}',
                '{% if NUM > 2 %}big{% else %}small{% endif %}']
        if loopvar:
            opts += ['{{ %s }}' % loopvar] * 6
        self.features.add('jinja-expr')
        return rng.choice(opts)

    # ------------------------------------------------------------ values --
    def value_line(self, loopvar=None):
        """Single-line value text (after the '=')."""
        rng = self.rng
        r = rng.random()
        has_expr = False
        if self.jinja and rng.random() < 0.35:
            v = rng.choice(['', 'pre ', 'x_']) + self.jexpr(loopvar) + \
                rng.choice(['', ' post', '_y'])
            has_expr = True
        else:
            v = rng.choice(BARE_VALUES)
            if self.jinja and any(ch in v for ch in JINJA_UNSAFE):
                v = 'plain value'

        def strip(text, what):
            # never edit the inside of a Jinja2 expression
            return text if has_expr else text.replace(what, '')
        if r < 0.35:
            pass
        elif r < 0.5:
            v = '"' + (v if has_expr else v.replace('"', '\\"')) + '"'
            self.features.add('quoted')
        elif r < 0.62:
            v = "'" + strip(v, "'") + "'"
            self.features.add('quoted')
        elif r < 0.72:
            n = rng.randint(2, 5) if rng.random() < 0.8 else rng.randint(
                8, 20)
            v = ', '.join(rng.choice(['%s', '"%s"', "'%s'"]) % self.word()
                          for _ in range(n))
            self.features.add('list')
            if n >= 8:
                self.features.add('long-line')
        elif r < 0.8:
            q = rng.choice(['"""', "'''"])
            v = q + strip(strip(v, q), q[0] * 2) + q
            self.features.add('triple-single-line')
        elif r < 0.85:
            v = ''
        elif r < 0.93:
            v = '"' + strip(v, '"') + ' # not a comment"'
            self.features.add('hash-in-quotes')
        if rng.random() < 0.25:
            v += rng.choice([' ', '  ', '\t']) + self.comment()
            self.features.add('trailing-comment')
        return v

    def multiline_value(self, cur, inc_depth, loopvar=None):
        """Lines of a multi-line string value (first line follows '=')."""
        rng = self.rng
        q = rng.choice(['"""', '"""', "'''"])
        other = "'''" if q == '"""' else '"""'
        n = rng.randint(1, 7)
        first = q + rng.choice(['', '', 'echo start', 'a => b'])
        body = []
        for _ in range(n):
            r = rng.random()
            if r < 0.08:
                line = f'text with {other} other quotes'
            elif r < 0.16 and self.jinja:
                line = rng.choice(['echo ', 'x=', '']) + self.jexpr(loopvar)
                self.features.add('jinja-in-multiline')
            elif r < 0.22 and inc_depth < 2 and not self.loop_depth:
                # %include inside a multi-line string (graph fragments)
                path = self.new_include(
                    [rng.choice(['', '    ']) + rng.choice(
                        ['a => b', 'c => d  # inc', 'echo included'])
                     for _ in range(rng.randint(1, 3))], marker_text=True)
                line = self.include_line(path)
                self.features.add('include-in-multiline')
            else:
                line = rng.choice(ML_LINES)
                if self.jinja and any(ch in line for ch in JINJA_UNSAFE):
                    line = 'echo plain'
            if rng.random() < 0.5:
                line = self.ind() + line
            body.append(line)
        last = rng.choice(['', '', '    ', 'echo end', '\t']) + q
        if rng.random() < 0.2:
            last += '  ' + self.comment().replace(q, '')
        self.features.add('multiline')
        return [first] + body + [last]

    # ------------------------------------------------------------- items --
    def item(self, cur, inc_depth, loopvar=None):
        rng = self.rng
        k = self.key(loopvar)
        eq = rng.choice([' = ', '=', ' =', '= ', '   =   '])
        if rng.random() < 0.22:
            ml = self.multiline_value(cur, inc_depth, loopvar)
            lines = [self.ind() + k + eq + ml[0]] + ml[1:]
        else:
            lines = [self.ind() + k + eq + self.value_line(loopvar)]
        return lines

    def heading(self, level, loopvar=None):
        rng = self.rng
        name = rng.choice(SECTION_NAMES)
        if loopvar:
            name = f'{self.word()}_{{{{ {loopvar} }}}}'
        elif rng.random() < 0.3:
            name = f'{self.word()}_s{rng.randint(0, 9)}'
        sp = rng.choice(['', '', ' '])
        h = self.ind() + '[' * level + sp + name + sp + ']' * level
        if rng.random() < 0.15:
            h += ' ' + self.comment()
        return h

    # ---------------------------------------------------------- includes --
    def new_include(self, lines, marker_text=False):
        self.n_inc += 1
        n = self.n_inc
        path = self.rng.choice(['inc/', '', 'inc/sub/']) + f'part{n}.cylc'
        marker = f'incmark{n}x'
        if marker_text:
            lines = [f'echo {marker}'] + lines
        else:
            lines = [f'{marker} = {n}'] + lines
        self.markers.append(marker)
        text = '\n'.join(lines)
        if self.rng.random() < 0.8:
            text += '\n'
        self.files[path] = text
        self.features.add('include')
        return path

    def include_line(self, path):
        q = self.rng.choice(['"', "'", ''])
        return (self.ind() + '%include' + self.rng.choice([' ', '  ', '\t'])
                + q + path + q + self.rng.choice(['', ' ', '  ']))

    # ------------------------------------------------------------- jinja --
    def jinja_construct(self, cur, inc_depth, loopvar):
        """Returns (lines, cur)."""
        rng = self.rng
        r = rng.random()
        if r < 0.15:
            self.features.add('jinja-set')
            v = rng.choice(['{% set EXTRA = NUM * 3 %}',
                            '{%- set EXTRA = "e" ~ NUM %}',
                            '{% set EXTRA = LST | length -%}',
                            '{% set EXTRA = [1, 2] %}'])
            return [self.ind() + v], cur
        if r < 0.25:
            self.features.add('jinja-comment')
            if rng.random() < 0.5:
                return ['{# a jinja comment #}'], cur
            return ['{# multi', '   line #}'], cur
        if r < 0.33:
            self.features.add('jinja-raw')
            return [self.ind() + self.key() +
                    ' = {% raw %}{{ literal }} {% not %}{% endraw %}'], cur
        if r < 0.43:
            self.features.add('jinja-made-continuation')
            k = self.key()
            if rng.random() < 0.5:
                # the same inside a multi-line string: still one logical
                # line once the template has been rendered
                self.features.add('jinja-made-continuation-in-multiline')
                self.markers.append('JCONTcJCONTd')
                return [f'{k} = """x JCONTc{{{{ "\\\\" }}}}',
                        'JCONTd y"""'], cur
            self.markers.append('JCONTaJCONTb')
            return [f'{k} = JCONTa{{{{ "\\\\" }}}}', 'JCONTb'], cur
        if r < 0.5:
            self.features.add('jinja-macro')
            return ['{% macro kv(k, v) %}{{ k }} = {{ v }}{% endmacro %}',
                    self.ind() + '{{ kv("mk%d", NUM) }}' % self.n_key,
                    self.ind() + '{{ kv("ml%d", "\'q\'") }}' % self.n_key
                    ], cur
        if r < 0.58 and inc_depth < 2 and not self.loop_depth:
            self.features.add('jinja-include')
            self.n_inc += 1
            path = f'inc/frag{self.n_inc}.j2'
            marker = f'jincmark{self.n_inc}x'
            self.markers.append(marker)
            self.files[path] = (f'{marker} = {{{{ NUM }}}}\n'
                                f'other{self.n_inc} = "x"  # c\n')
            return [f'{{% include "{path}" %}}'], cur
        if r < 0.78:
            # if / else around items only
            self.features.add('jinja-if')
            cond = rng.choice(['NUM > 2', 'NUM < 2', 'STR == "hello"',
                               'TV_INT is defined', 'false', 'LST'])
            lines = ['{% if ' + cond + ' %}']
            for _ in range(rng.randint(1, 2)):
                lines += self.item(cur, inc_depth, loopvar)
            if rng.random() < 0.5:
                lines.append(rng.choice(['{% else %}', '{%- else %}']))
                lines += self.item(cur, inc_depth, loopvar)
            lines.append('{% endif %}')
            return lines, cur
        # for loop
        if self.loop_depth >= 2:
            return [], cur
        self.features.add('jinja-for')
        var = 'i' if not loopvar else 'j'
        it = rng.choice(['range(3)', 'range(1, NUM + 1)', 'LST', 'TV_LIST',
                         'range(2)'])
        lines = [self.ind() + '{% for ' + var + ' in ' + it + ' %}']
        self.loop_depth += 1
        if rng.random() < 0.6:
            level = rng.randint(1, min(cur + 1, 3))
            lines.append(self.heading(level, var))
            cur = level
            for _ in range(rng.randint(1, 3)):
                lines += self.item(cur, inc_depth, var)
            if cur < 3 and rng.random() < 0.3:
                lines.append(self.heading(cur + 1))
                lines += self.item(cur + 1, inc_depth, var)
                cur = cur + 1
        else:
            for _ in range(rng.randint(1, 3)):
                lines += self.item(cur, inc_depth, var)
        self.loop_depth -= 1
        lines.append(self.ind() + '{% endfor %}')
        return lines, cur

    # -------------------------------------------------------------- body --
    def block(self, cur, n, inc_depth=0, loopvar=None):
        rng = self.rng
        lines = []
        for _ in range(n):
            r = rng.random()
            if r < 0.42:
                lines += self.item(cur, inc_depth, loopvar)
            elif r < 0.62:
                level = rng.randint(1, min(cur + 1, 3))
                lines.append(self.heading(level))
                cur = level
            elif r < 0.70:
                lines.append(self.ind() + self.comment())
                self.features.add('comment')
            elif r < 0.75:
                lines.append(rng.choice(['', '   ', '\t']))
            elif r < 0.85 and inc_depth < 2:
                sub, cur = self.block(cur, rng.randint(1, 4), inc_depth + 1)
                if rng.random() < 0.15 and sub and not sub[-1].rstrip(
                        ).endswith(('"""', "'''", ']')):
                    # include file whose last line continues into the parent
                    if not (self.jinja and any(c in sub[-1]
                                               for c in JINJA_UNSAFE)) and \
                            self._splittable(sub[-1]):
                        sub[-1] = sub[-1].rstrip() + ' \\'
                        self.features.add('include-ends-in-continuation')
                path = self.new_include(sub)
                if inc_depth >= 1:
                    self.features.add('nested-include')
                lines.append(self.include_line(path))
                if rng.random() < 0.15:
                    lines.append(self.include_line(path))   # twice
                    self.features.add('include-twice')
            elif self.jinja:
                sub, cur = self.jinja_construct(cur, inc_depth, loopvar)
                lines += sub
            else:
                lines += self.item(cur, inc_depth, loopvar)
        return lines, cur

    def graph_section(self):
        """[scheduling][[graph]] with repeated graph strings."""
        rng = self.rng
        lines = ['[scheduling]', self.ind() + '[[graph]]']
        k = rng.choice(['R1', 'P1D', 'T00,T12'])
        for _ in range(rng.randint(2, 3)):
            if rng.random() < 0.5:
                lines.append(f'{self.ind()}{k} = {self.word()} => '
                             f'{self.word()}')
            else:
                lines += [f'{self.ind()}{k} = """', f'   {self.word()} => x',
                          '   """']
        self.features.add('repeated-graph-key')
        return lines, 2

    # ------------------------------------------------------ continuation --
    @staticmethod
    def _splittable(line):
        s = line.strip()
        return (len(s) >= 4 and not s.startswith('%include')
                and not s.startswith('#!') and '\\' not in line[-1:])

    def add_continuations(self, lines):
        """Split some physical lines with a trailing backslash."""
        rng = self.rng
        out = []
        for line in lines:
            if (rng.random() < 0.12 and self._splittable(line)
                    and not (self.jinja and any(c in line
                                                for c in JINJA_UNSAFE))):
                lo = len(line) - len(line.lstrip()) + 1
                p = rng.randint(lo, len(line) - 1)
                a, b = line[:p], line[p:]
                if a.endswith('\\') or not b:
                    out.append(line)
                    continue
                out.append(a + '\\')
                # leading white space of the next line is kept by the
                # join: only natural after a separator
                pre = rng.choice(['', '    ']) if a[-1] in ' ,\t' else ''
                out.append(pre + b)
                self.features.add('continuation')
            else:
                out.append(line)
        return out

    # --------------------------------------------------------------- top --
    def generate(self):
        rng = self.rng
        lines = []
        cur = 0
        if rng.random() < 0.4:
            # top-level items before any section
            for _ in range(rng.randint(1, 2)):
                lines += self.item(0, 0)
        if rng.random() < 0.35:
            g, cur = self.graph_section()
            lines += g
        body, cur = self.block(cur, self.size)
        lines += body
        # markers proving that continuation joining really happened
        k = self.key()
        lines += [f'{k} = CONTa\\', 'CONTb']
        self.markers.append('CONTaCONTb')
        self.features.add('continuation')
        if self.hazard == 'comment-bs':
            ws = rng.choice([' ', '  ', '\t'])
            pos = rng.randrange(len(lines) + 1)
            kind = rng.random()
            if kind < 0.6:
                new = self.ind() + '# see C:\\data\\' + ws
            else:
                new = (self.ind() + f'hz{self.n_key} = value  '
                       '# continued below \\' + ws)
            # never inside a multi-line string: put it at the very top or
            # right before a heading
            heads = [i for i, ln in enumerate(lines)
                     if ln.lstrip().startswith('[') and self._outside(
                         lines, i)]
            pos = rng.choice(heads) if heads else 0
            lines.insert(pos, new)
            self.features.add('hazard-comment-bs')
        elif self.hazard == 'continued-bs':
            ws = rng.choice([' ', '  ', '\t'])
            heads = [i for i, ln in enumerate(lines)
                     if ln.lstrip().startswith('[') and self._outside(
                         lines, i)]
            pos = rng.choice(heads) if heads else 0
            lines[pos:pos] = [f'hz{self.n_key} = one, \\',
                              '    two \\' + ws]
            self.features.add('hazard-continued-bs')
        lines = self.add_continuations(lines)
        if self.jinja:
            pre = ['#!' + rng.choice(['jinja2', 'Jinja2', 'jinja2 '])]
            pre += ['{% set NUM = ' + str(rng.randint(1, 4)) + ' %}',
                    '{% set STR = "hello" %}',
                    '{% set LST = ["p", "q", "r"] %}',
                    '{% set JM = "jm_" ~ (6 * 7) %}',
                    'jmark = {{ JM }}']
            self.markers.append('jm_42')
            lines = pre + lines
            self.tvars = {'TV_INT': rng.randint(0, 5), 'TV_STR': 'tv str',
                          'TV_LIST': ['u', 'v']}
            self.features.add('jinja')
        elif rng.random() < 0.2:
            lines = ['# plain file, first line a comment'] + lines
        text = '\n'.join(lines)
        if rng.random() < 0.9:
            text += '\n'
        self.files['flow.cylc'] = text
        return self.files

    @staticmethod
    def _outside(lines, idx):
        """True when line idx is not inside a multi-line string (counting
        triple quotes on the preceding lines)."""
        state = None
        for ln in lines[:idx]:
            pos = 0
            while True:
                if state is None:
                    a, b = ln.find('"""', pos), ln.find("'''", pos)
                    cands = [(p, q) for p, q in ((a, '"""'), (b, "'''"))
                             if p != -1]
                    if not cands:
                        break
                    p, q = min(cands)
                    state = q
                    pos = p + 3
                else:
                    p = ln.find(state, pos)
                    if p == -1:
                        break
                    state = None
                    pos = p + 3
        return state is None
