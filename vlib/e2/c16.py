"""C16 Integer recurrences denote the clipped arithmetic progression.

Monitor shape: contract on the real `IntegerSequence` API; the oracle is the
explicit point set of vlib.models.intrec (DESIGN Appendix E.1).
"""
from __future__ import annotations

import itertools

from vlib.models import intrec as M

PID = 'C16'
META = {
    'engine': 'E2 funcmon',
    'level': 'exploration',
    'technique': 'post-condition monitor on IntegerSequence API against an '
                 'explicit arithmetic-progression model (exhaustive box)',
    'level_text': (
        'Every supported recurrence form is built with the real '
        'IntegerSequence over an integer box of start/end/step/repetition/'
        'context values (thorough: the whole box; quick: a seeded sample '
        'of it) and every API answer on every query point of a window is '
        'compared with the explicit clipped point set. Held = no '
        'disagreement on the box explored.'),
    'level_note': 'Reference model vlib/models/intrec.py (Appendix E.1) is '
                  'trusted; values outside the box only sampled at random.',
    'design_ref': 'DESIGN.md §5 C16, Appendix E.1',
    'budget': {'quick': 60, 'thorough': 900},
}
RULE = ('case = (recurrence form, n, start, end, step, context start, '
        'context stop, exclusions); distinct by that tuple; non-trivial when '
        'the model point set is non-empty and the context clips or aligns '
        'it (set differs from the unclipped progression) or exclusions '
        'remove a point or it is a plain multi-point sequence')
ASSUMPTIONS = [
    'unbounded recurrences whose exclusion sequences remove every point '
    'beyond the query window are not judged (discard counted)',
    'bare R/… forms (no repetition count) are not listed in the property '
    'and are not generated',
    'Rn/START/END only generated when END-START divides by n-1',
    'get_next_point_on_sequence only queried on members; is_on_sequence '
    'only compared between the first and last member',
]
MIN = {'seqs_checked': 300, 'queries': 20000, 'clipped_start': 30,
       'clipped_stop': 30, 'with_exclusion': 30}

NCASES = {'quick': 64, 'thorough': 512}
QUICK_FRACTION = 0.35
LO, HI = -5, 22   # query window

_specs = None


def _pt_specs(rel_ok=True):
    pts = [('abs', v) for v in range(-2, 10)]
    if rel_ok:
        pts += [('rel', d) for d in (-3, -2, -1, 0, 1, 2, 3)]
    return pts


def base_specs():
    """The exhaustive box of (spec) dictionaries, contexts added later."""
    out = []
    P = _pt_specs()
    for n in range(1, 6):
        for S in P:
            for E in P:
                out.append({'form': 'Rn/S/E', 'n': n, 'S': S, 'E': E})
    for S in P:
        for k in range(1, 5):
            out.append({'form': 'S/Pk', 'S': S, 'k': k})
    for k in range(1, 5):
        out.append({'form': 'Pk', 'k': k})
        for E in P:
            out.append({'form': 'Pk/E', 'k': k, 'E': E})
    out.append({'form': 'R1'})
    out.append({'form': 'R1/'})
    for S in P:
        out.append({'form': 'R1/S', 'S': S})
        out.append({'form': 'R1//E', 'E': S})
    for n in range(1, 6):
        for k in range(1, 5):
            out.append({'form': 'Rn//Pk', 'n': n, 'k': k})
            out.append({'form': 'Rn/Pk', 'n': n, 'k': k})
            for S in P:
                out.append({'form': 'Rn/S/Pk', 'n': n, 'S': S, 'k': k})
                out.append({'form': 'Rn/Pk/E', 'n': n, 'k': k, 'E': S})
    return out


def contexts():
    out = []
    for I in range(0, 9):
        out.append((I, None))
        for F in range(I, 13):
            out.append((I, F))
    return out


def all_cases():
    global _specs
    if _specs is None:
        _specs = list(itertools.product(range(len(base_specs())),
                                        range(len(contexts()))))
    return _specs


_BASE = None
_CTX = None


def setup_shard(ctx):
    global _BASE, _CTX
    _BASE = base_specs()
    _CTX = contexts()


def ncases(tier):
    return NCASES[tier]


def well_formed(spec, I, F):
    """Is the recurrence one the property quantifies over for this context?"""
    S = M.resolve(spec['S'], I) if spec.get('S') else None
    E = M.resolve(spec['E'], F) if spec.get('E') else None
    if spec.get('E') and E is None:
        return False       # relative end without a final point
    if spec['form'] == 'Rn/Pk' and F is None:
        return False
    if spec['form'] == 'Rn/S/E' and spec['n'] > 1:
        if E <= S or (E - S) % (spec['n'] - 1):
            return False
    return True


def gen_exclusions(rng, S_model):
    """Random exclusion list: points (members and not) and sequences."""
    r = rng.random()
    excl = []
    if r < 0.45:
        return excl
    npts = rng.choice([0, 1, 1, 2])
    pool = S_model[:8] + [S_model[0] + 1, S_model[-1] + 1]
    for _ in range(npts):
        excl.append(('pt', rng.choice(pool)))
    if rng.random() < 0.5 or not excl:
        k = rng.choice([1, 2, 2, 3, 4])
        form = rng.choice(['Pk', 'S/Pk', 'Rn//Pk', 'R1'])
        sub = {'form': form, 'k': k}
        if form == 'S/Pk':
            sub['S'] = ('rel', rng.choice([0, 1, 2]))
        if form == 'Rn//Pk':
            sub['n'] = rng.choice([1, 2, 3])
        excl.append(('seq', sub))
    return excl


def render_full(spec, excl):
    s = M.render(spec)
    if not excl:
        return s
    items = [str(v) if kind == 'pt' else M.render(v) for kind, v in excl]
    if len(items) == 1:
        return f'{s}!{items[0]}'
    return f'{s}!({",".join(items)})'


def _iv(p):
    return None if p is None else int(p)


def check_sequence(ctx, spec, I, F, excl):
    from cylc.flow.cycling.integer import IntegerPoint, IntegerSequence
    text = render_full(spec, excl)
    desc = {'recurrence': text, 'initial': I, 'final': F}
    S = M.point_set(spec, I, F, excl)
    if S is None:
        return
    A = M.progression(spec, I, F)
    base = M.clip(A, I, F)
    if excl and not M.is_bounded(spec, F) and not any(p > HI for p in S):
        # the exclusions swallow the whole infinite tail: no finite search
        # can answer 'next point', and the truncated model cannot either
        ctx.count('discarded_infinite_tail_excluded')
        return
    feat = features(spec, I, F, A, base, S, excl)
    nontrivial = bool(S) and len(S) >= 1
    ctx.evaluated((text, I, F), nontrivial=nontrivial)
    ctx.count('form:' + spec['form'])
    if not S:
        ctx.count('empty_set_cases')
    try:
        seq = IntegerSequence(text, str(I), None if F is None else str(F))
    except Exception as exc:
        if not S:
            ctx.count('empty_set_construct_error')
            return
        ctx.violation(
            f'C16:construct:{spec["form"]}:{type(exc).__name__}',
            f'{text} (initial {I}, final {F}) denotes {S[:6]}… but '
            f'construction raised {type(exc).__name__}: {exc}',
            {**desc, 'model_set': S[:12], 'features': feat})
        return
    if not S:
        # nothing in bounds: only membership is asserted (no point valid)
        try:
            bad = [p for p in range(LO, HI + 1)
                   if seq.is_valid(IntegerPoint(p))]
        except Exception:
            ctx.count('empty_set_query_error')
            return
        if bad:
            ctx.violation(
                f'C16:set:{spec["form"]}:empty-has-members',
                f'{text} (initial {I}, final {F}) has no point in bounds '
                f'but is_valid accepts {bad[:5]}', desc)
        return
    ctx.count('seqs_checked')
    if feat['clipped_start']:
        ctx.count('clipped_start')
    if feat['misaligned_start']:
        ctx.count('misaligned_start')
    if feat['clipped_stop']:
        ctx.count('clipped_stop')
    if excl:
        ctx.count('with_exclusion')
        if len(S) != len(base):
            ctx.count('exclusion_removed_points')
    ctx.sample({**desc, 'model_set': S[:10], 'features': feat})

    bounded = M.is_bounded(spec, F)
    Sset = set(S)
    pts = {p: IntegerPoint(p) for p in range(LO, HI + 1)}

    def fail(method, p, got, want, situation):
        mech = mechanism(feat)
        ctx.violation(
            f'C16:{method}:{mech}:{situation}',
            f'{text} (initial {I}, final {F}) = {S[:8]}'
            f'{"…" if len(S) > 8 else ""}: {method}({p}) gave {got}, '
            f'the set says {want}',
            {**desc, 'model_set': S[:14], 'method': method, 'query': p,
             'got': got, 'want': want, 'features': feat})

    def situation(p):
        if p < S[0]:
            return 'before-first'
        if bounded and p > S[-1]:
            return 'after-last'
        if p in Sset:
            return 'on-member'
        if excl and p in base:
            return 'on-excluded'
        return 'between'

    # membership first: if the set itself is wrong, report that once
    try:
        impl_set = [p for p in range(LO, HI + 1) if seq.is_valid(pts[p])]
    except Exception as exc:
        ctx.violation(
            f'C16:is_valid:{mechanism(feat)}:raised-{type(exc).__name__}',
            f'{text} (initial {I}, final {F}): is_valid raised {exc!r}',
            desc)
        return
    ctx.count('queries', HI - LO + 1)
    want_set = [p for p in range(LO, HI + 1) if p in Sset]
    if impl_set != want_set:
        ctx.violation(
            f'C16:set:{spec["form"]}:{mechanism(feat)}',
            f'{text} (initial {I}, final {F}) should be {want_set[:8]} in '
            f'[{LO},{HI}] but is_valid accepts {impl_set[:8]}',
            {**desc, 'model_set': want_set, 'impl_set': impl_set,
             'features': feat})
        return
    # start / stop
    for method, want in (('get_start_point', S[0]),
                         ('get_stop_point', S[-1] if bounded else None)):
        try:
            got = _iv(getattr(seq, method)())
        except Exception as exc:
            got = f'raised {type(exc).__name__}'
        ctx.count('queries')
        if got != want:
            fail(method, None, got, want, 'n/a')
    for p in range(LO, HI + 1):
        P = pts[p]
        checks = [
            ('get_next_point', M.nxt(S, p)),
            ('get_prev_point', M.prev(S, p)),
            ('get_nearest_prev_point', M.prev(S, p)),
            ('get_first_point', M.first(S, p)),
        ]
        if p in Sset:
            checks.append(('get_next_point_on_sequence', M.nxt(S, p)))
            checks.append(('is_on_sequence', True))
        elif S[0] <= p <= S[-1]:
            checks.append(('is_on_sequence', False))
        for method, want in checks:
            if method == 'get_prev_point' and p not in Sset and not (
                    p in base):
                # documented for on-sequence points ("previous point")
                continue
            try:
                got = getattr(seq, method)(P)
                if method != 'is_on_sequence':
                    got = _iv(got)
            except RecursionError:
                got = 'raised RecursionError'
            except Exception as exc:
                got = f'raised {type(exc).__name__}'
            ctx.count('queries')
            if got != want:
                fail(method, p, got, want, situation(p))


def features(spec, I, F, A, base, S, excl):
    a0 = A[0] if A else None
    k = spec.get('k')
    if spec['form'] == 'Rn/S/E' and spec.get('n', 1) > 1 and len(A) > 1:
        k = A[1] - A[0]
    anchor_low = spec['form'] in ('Rn/S/E', 'S/Pk', 'Pk', 'R1', 'R1/',
                                  'R1/S', 'Rn/S/Pk', 'Rn//Pk')
    clipped_start = bool(A) and A[0] < I
    clipped_stop = bool(A) and F is not None and A[-1] > F
    mis = False
    if clipped_start and k:
        mis = (I - a0) % k != 0
    return {
        'form': spec['form'], 'anchor': 'start' if anchor_low else 'end',
        'clipped_start': clipped_start, 'misaligned_start': mis,
        'clipped_stop': clipped_stop,
        'misaligned_stop': bool(clipped_stop and k and (F - a0) % k != 0),
        'has_exclusion': bool(excl),
        'empty': not S,
        'rel_start': bool(spec.get('S') and spec['S'][0] == 'rel'),
        'rel_end': bool(spec.get('E') and spec['E'][0] == 'rel'),
        'neg_abs': any(spec.get(x) and spec[x][0] == 'abs' and spec[x][1] < 0
                       for x in ('S', 'E')),
    }


def mechanism(feat):
    """Mechanism part of a finding key (no random values)."""
    parts = []
    if feat['clipped_start']:
        parts.append('clipS-mis' if feat['misaligned_start'] else 'clipS')
    if feat['clipped_stop']:
        parts.append('clipE-mis' if feat['misaligned_stop'] else 'clipE')
    if feat['has_exclusion']:
        parts.append('excl')
    if not parts:
        parts.append('plain')
    return feat['anchor'] + '-anchored+' + '+'.join(parts)


def run_case(ctx, i, rng):
    n = ncases(ctx.tier)
    nb, nc = len(_BASE), len(_CTX)
    total = nb * nc
    for idx in range(i, total, n):
        if ctx.tier == 'quick' and rng.random() >= QUICK_FRACTION:
            continue
        spec = _BASE[idx // nc]
        I, F = _CTX[idx % nc]
        if not well_formed(spec, I, F):
            ctx.count('not_well_formed_skipped')
            continue
        check_sequence(ctx, spec, I, F, [])
        S = M.point_set(spec, I, F)
        if S and rng.random() < 0.5:
            excl = gen_exclusions(rng, S)
            if excl:
                check_sequence(ctx, spec, I, F, excl)
    # random larger values (outside the box)
    for _ in range(40 if ctx.tier == 'quick' else 200):
        k = rng.randint(1, 400)
        S0 = rng.randint(-50, 5000)
        nrep = rng.randint(1, 40)
        form = rng.choice(['S/Pk', 'Rn/S/Pk', 'Rn/Pk/E', 'Pk/E', 'Rn/S/E'])
        spec = {'form': form, 'k': k, 'n': nrep, 'S': ('abs', S0),
                'E': ('abs', S0 + k * rng.randint(1, 50) * max(1, nrep - 1))}
        I = rng.randint(0, 5000)
        F = rng.choice([None, I + rng.randint(0, 3000)])
        if well_formed(spec, I, F):
            check_big(ctx, spec, I, F, rng)


def check_big(ctx, spec, I, F, rng):
    """Random large values: explicit set by bounded enumeration."""
    from cylc.flow.cycling.integer import IntegerPoint, IntegerSequence
    f, k, n = spec['form'], spec['k'], spec['n']
    S0, E0 = spec['S'][1], spec['E'][1]
    hi = (F if F is not None else max(I, S0) + 30 * k) + 2 * k
    if f == 'S/Pk':
        A = range(S0, hi + 1, k)
    elif f == 'Rn/S/Pk':
        A = [S0 + j * k for j in range(n)]
    elif f == 'Rn/Pk/E':
        A = sorted(E0 - j * k for j in range(n))
    elif f == 'Pk/E':
        lo = I - 2 * k
        A = sorted(range(E0, lo - 1, -k))
    else:
        if n == 1:
            A = [S0]
        else:
            st = (E0 - S0) // (n - 1)
            A = [S0 + j * st for j in range(n)]
    S = [a for a in A if a >= I and (F is None or a <= F)]
    text = M.render(spec)
    ctx.evaluated(('big', text, I, F), nontrivial=bool(S))
    if not S:
        return
    desc = {'recurrence': text, 'initial': I, 'final': F, 'big': True}
    try:
        seq = IntegerSequence(text, str(I), None if F is None else str(F))
    except Exception as exc:
        ctx.violation(
            f'C16:construct:{f}:{type(exc).__name__}',
            f'{text} (initial {I}, final {F}) raised {exc!r}', desc)
        return
    ctx.count('big_seqs')
    bounded = F is not None or f not in ('S/Pk',)
    clipS = A[0] < I
    mech = ('big+' + ('clipS-mis' if clipS and (I - A[0]) % (
        k if f != 'Rn/S/E' or n == 1 else (E0 - S0) // (n - 1) or 1)
        else 'clipS' if clipS else 'plain'))
    qs = {S[0], S[-1], S[0] - 1, S[-1] + 1, I, rng.choice(S),
          rng.choice(S) + 1}
    Sset = set(S)
    for p in sorted(qs):
        P = IntegerPoint(p)
        in_model_range = bounded or p <= S[-1]
        checks = [('is_valid', p in Sset)] if in_model_range else []
        if bounded or p < S[-1]:
            checks.append(('get_next_point', M.nxt(S, p)))
            checks.append(('get_first_point', M.first(S, p)))
        if p in Sset:
            checks.append(('get_prev_point', M.prev(S, p)))
        for method, want in checks:
            try:
                got = getattr(seq, method)(P)
                if method != 'is_valid':
                    got = _iv(got)
            except Exception as exc:
                got = f'raised {type(exc).__name__}'
            ctx.count('queries')
            if got != want:
                ctx.violation(
                    f'C16:{method}:{mech}',
                    f'{text} (initial {I}, final {F}): {method}({p}) gave '
                    f'{got}, the set says {want}',
                    {**desc, 'set_head': S[:5], 'set_tail': S[-3:],
                     'query': p, 'got': got, 'want': want})
