"""C40 reference matcher and witness classifier.

The oracle (`glob_match`) is written from the property statement: '*' matches
any sequence of characters (including none), every other character matches
only itself, case-sensitively.  Nothing here imports cylc or sqlite.

`relaxed_match` is NOT the oracle: it is used only to *name* a disagreement
(which single relaxation of the statement would explain a spurious row), so
that different root causes get different finding keys.
"""
from __future__ import annotations

from typing import Iterable, Optional, Tuple


def glob_match(pattern: Optional[str], text: str) -> bool:
    """'*' = any string, everything else literal and case-sensitive.

    `None` means "no constraint".  Classic two-pointer star matcher, checked
    against the brute-force definition in `_selftest`.
    """
    if pattern is None:
        return True
    parts = pattern.split('*')
    if len(parts) == 1:
        return pattern == text
    first, last, middle = parts[0], parts[-1], parts[1:-1]
    if not text.startswith(first):
        return False
    pos = len(first)
    end = len(text) - len(last)
    if end < pos or not text.endswith(last):
        return False
    for m in middle:
        j = text.find(m, pos, end)
        if j < 0:
            return False
        pos = j + len(m)
    return True


def _brute(pattern: str, text: str) -> bool:
    """Definition, exponential: used only by the self test."""
    if not pattern:
        return not text
    if pattern[0] == '*':
        return any(_brute(pattern[1:], text[k:])
                   for k in range(len(text) + 1))
    return bool(text) and pattern[0] == text[0] and _brute(
        pattern[1:], text[1:])


def relaxed_match(pattern: str, text: str, underscore: bool = False,
                  percent: bool = False, nocase: bool = False) -> bool:
    """Matcher with the named relaxations switched on (classifier only).

    underscore: '_' in the pattern matches any one character;
    percent:    '%' in the pattern matches any string;
    nocase:     ASCII letters compare case-insensitively.
    """
    def fold(c):
        if nocase and 'A' <= c <= 'Z':
            return chr(ord(c) + 32)
        return c

    n, m = len(pattern), len(text)
    # dp over pattern positions; reach = set of text offsets reachable
    reach = {0}
    for i in range(n):
        c = pattern[i]
        if c == '*' or (percent and c == '%'):
            lo = min(reach) if reach else None
            reach = set(range(lo, m + 1)) if lo is not None else set()
        elif underscore and c == '_':
            reach = {k + 1 for k in reach if k < m}
        else:
            fc = fold(c)
            reach = {k + 1 for k in reach if k < m and fold(text[k]) == fc}
        if not reach:
            return False
    return m in reach


RELAXATIONS: Tuple[Tuple[str, ...], ...] = (
    ('underscore',), ('percent',), ('case',),
    ('underscore', 'percent'), ('underscore', 'case'), ('percent', 'case'),
    ('underscore', 'percent', 'case'),
)


def explain(pattern: str, text: str) -> Optional[Tuple[str, ...]]:
    """Smallest set of relaxations under which `pattern` matches `text`.

    None if even all three together do not explain the match; () if the
    strict matcher already accepts.
    """
    if glob_match(pattern, text):
        return ()
    for rel in RELAXATIONS:
        if relaxed_match(pattern, text, underscore='underscore' in rel,
                         percent='percent' in rel, nocase='case' in rel):
            return rel
    return None


def opportunities(pattern: Optional[str], texts: Iterable[str]) -> set:
    """Which single relaxations would change the answer on these texts."""
    out = set()
    if pattern is None or '*' not in pattern:
        return out
    for t in texts:
        if glob_match(pattern, t):
            continue
        for name in ('underscore', 'percent', 'case'):
            if relaxed_match(pattern, t, underscore=name == 'underscore',
                             percent=name == 'percent',
                             nocase=name == 'case'):
                out.add(name)
    return out


def _selftest() -> None:
    import itertools
    alpha = 'a*_'
    for n in range(0, 4):
        for p in itertools.product(alpha, repeat=n):
            for k in range(0, 4):
                for t in itertools.product('a_b', repeat=k):
                    ps, ts = ''.join(p), ''.join(t)
                    assert glob_match(ps, ts) == _brute(ps, ts), (ps, ts)
                    assert relaxed_match(ps, ts) == _brute(ps, ts), (ps, ts)


if __name__ == '__main__':
    _selftest()
    print('ok')
