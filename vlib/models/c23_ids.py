"""C23 reference model of Cylc universal identifiers.

Written from the documented syntax (``cylc help id``):

    ~user/workflow:sel//cycle:sel/task:sel/job:sel

* the user part is optional; "//" separates the workflow part from the
  task part; a relative ID is the task part alone, written "//cycle/..."
  (or "cycle/..." where the context says it is relative);
* selectors follow a colon; job numbers are written zero-padded to two
  digits, "NN" is the latest job;
* legacy Cylc 7 IDs are "task.cycle[:status]" and "cycle/task[:status]".

Nothing here imports cylc.  `fmt` is the expected output of formatting and
the generator's token dictionaries are the expected output of parsing.
"""
from __future__ import annotations

from typing import Dict, List, Optional

KEYS = ('user', 'workflow', 'workflow_sel', 'cycle', 'cycle_sel',
        'task', 'task_sel', 'job', 'job_sel')
LEVELS = ('user', 'workflow', 'cycle', 'task', 'job')
TASK_KEYS = ('cycle', 'cycle_sel', 'task', 'task_sel', 'job', 'job_sel')
WORKFLOW_KEYS = ('user', 'workflow', 'workflow_sel')

Tok = Dict[str, Optional[str]]


def full(t: Tok) -> Tok:
    """All nine keys, absent ones None."""
    return {k: t.get(k) for k in KEYS}


def canon_job(job: Optional[str]) -> Optional[str]:
    if job is None or job == 'NN':
        return job
    return '%02d' % int(job)


def canon(t: Tok) -> Tok:
    """What re-parsing the formatted ID must give: job zero-padded."""
    out = full(t)
    out['job'] = canon_job(out['job'])
    return out


def _with_sel(t: Tok, key: str, value: str, selectors: bool) -> str:
    sel = t.get(key + '_sel')
    if selectors and sel:
        return f'{value}:{sel}'
    return value


def fmt(t: Tok, selectors: bool = True, relative: bool = False) -> str:
    """Canonical ID string of hierarchical tokens (no gaps)."""
    head = ''
    if t.get('user'):
        head = '~' + t['user']
    if t.get('workflow'):
        w = _with_sel(t, 'workflow', t['workflow'], selectors)
        head = f'{head}/{w}' if head else w
    parts: List[str] = []
    if t.get('cycle'):
        parts.append(_with_sel(t, 'cycle', t['cycle'], selectors))
        if t.get('task'):
            parts.append(_with_sel(t, 'task', t['task'], selectors))
            if t.get('job'):
                parts.append(_with_sel(t, 'job', canon_job(t['job']),
                                       selectors))
    tail = '/'.join(parts)
    if head and tail:
        return f'{head}//{tail}'
    if head:
        return head
    return tail if relative else '//' + tail


def task_part(t: Tok) -> Tok:
    return {k: v for k, v in t.items() if k in TASK_KEYS}


def workflow_part(t: Tok) -> Tok:
    return {k: v for k, v in t.items() if k in WORKFLOW_KEYS}


# ------------------------------------------------------------------ values
ASCII_L = 'abcdefghijklmnopqrstuvwxyz'
UNI = ['é', 'É', 'ß', 'ω', '中', 'ñ', 'Ж']
# separator-adjacent characters each field allows (besides \w):
USER_EDGE = ['.', '-', '_', '+', '@', '0', '9']
WF_EDGE = ['.', '-', '_', '+', '@', '0', '9']
TASK_EDGE = ['-', '_', '+', '%', '@', '0', '9']
SEL_EDGE = ['-', '_', '0', '9']

USERS = ['u', 'user', 'alice', 'a.b', 'x-y', 'svc_cylc', 'bob+test',
         'me@host', 'é', 'u1', '0day', '.hidden', '-dash', '_under']
WF_COMPONENTS = ['w', 'wf', 'workflow', 'foo', 'a', 'b', 'run1', 'run12',
                 'runN', '1', '01', 'my.flow', 'my-flow', 'my_flow', 'a+b',
                 'x@y', 'é', '中文', 'Foo', '.x', '-y', '_z', 'log', 'v1.2.3']
WF_GLOBS = ['*', 'f*', '*/run1', 'foo/*', 'a?c', '[ab]*', '[!a]*', 'fo[o0]',
            '*/*']
WF_SELS = ['running', 'stopped', 'paused', 'held', 'x', 'é']

INT_CYCLES = ['1', '2', '9', '10', '01', '100', '0', '12345', '-1', '+3']
DT_BASIC = ['2020', '20200101', '20200101T00', '20200101T0000',
            '20200101T0000Z', '20200101T00Z', '20200101T0000+0530',
            '20200101T0000-0100', '2020-01-01', '2020-01-01T00Z',
            '2020-01-01T00+05', '2020-W01-1T00Z', '2020001T00Z',
            '+0020200101T00Z', '-00010101T00Z', '10000101T0000Z']
DT_COLON = ['2020-01-01T00:00Z', '2020-01-01T06:30', '2020-01-01T00:00+05:30',
            '2020-01-01T00:00:00Z', '2020-01-01T00:00-01:00',
            '2020-01-01T00:00:00+05:30', '2020-12-31T23:59Z',
            '2020-W01-1T00:00Z', '2021-06-15T12:00+01']
CYCLE_GLOBS = ['*', '2020*', '*T00Z', '[12]*', '20??0101T00Z', '1*', '*0',
               '2020-*', '[!2]*', '?']
CYCLE_SELS = ['failed', 'succeeded', 'waiting', 'running', 'held',
              'submit-failed', 'x', 'é1', 'a_b', 'a-b']

TASKS = ['foo', 'bar', 't', 'task', 'FAM', 'a1', '1a', '0', '_x', 'a-b',
         'a+b', 'a%b', 'a@b', 'foo_m1', 'é', '中', 'x-', 'x+', 'x%', 'x@',
         'get_data-20', 'Ω_ω']
TASK_GLOBS = ['*', 'f*', '*o', '?oo', '[fb]*', '[!f]*', 'FAM*', '*_m?']
TASK_SELS = ['failed', 'succeeded', 'waiting', 'running', 'submitted',
             'submit-failed', 'expired', 'held', 'started', 'out_1',
             'data-ready', 'x', 'é', 'Z9']
JOBS = ['1', '2', '9', '01', '02', '09', '10', '11', '99', '100', '123',
        '007', '0', '00', 'NN', '1000']
JOB_SELS = ['failed', 'succeeded', 'running', 'submitted', 'x', 'a-b']


def _rand_word(rng, edge, inner_extra, lo=1, hi=6, first_extra=()):
    """Random field value whose first/last characters come from `edge`
    (or letters), so every allowed character sits next to a separator."""
    n = rng.randint(lo, hi)
    alpha = list(ASCII_L) + list(ASCII_L.upper()[:6]) + list('0123456789_')
    alpha += UNI + list(inner_extra)
    chars = [rng.choice(alpha) for _ in range(n)]
    if rng.random() < 0.6:
        chars[-1] = rng.choice(edge)
    if rng.random() < 0.4:
        chars[0] = rng.choice(list(edge) + list(first_extra))
    return ''.join(chars)


def gen_user(rng):
    if rng.random() < 0.6:
        return rng.choice(USERS)
    return _rand_word(rng, USER_EDGE, '.-+@')


def gen_workflow(rng, feat):
    r = rng.random()
    if r < 0.08:
        feat.add('wf-glob')
        return rng.choice(WF_GLOBS)
    ncomp = rng.choice([1, 1, 1, 2, 2, 3, 4])
    comps = []
    for i in range(ncomp):
        if rng.random() < 0.6:
            c = rng.choice(WF_COMPONENTS)
        else:
            c = _rand_word(rng, WF_EDGE, '.-+@')
        if c in ('.', '..') or set(c) == {'.'}:
            c = 'dot.' + c + 'x'
        comps.append(c)
    # a workflow name cannot start with '.', '-' or a digit
    if comps[0][0] in '.-' or comps[0][0].isdigit():
        comps[0] = rng.choice(['w', '_', 'é', 'F']) + comps[0]
    if ncomp > 1:
        feat.add('wf-hier')
    return '/'.join(comps)


def gen_cycle(rng, feat):
    r = rng.random()
    if r < 0.25:
        return rng.choice(INT_CYCLES)
    if r < 0.55:
        return rng.choice(DT_BASIC)
    if r < 0.75:
        feat.add('colon-cycle')
        return rng.choice(DT_COLON)
    if r < 0.9:
        feat.add('cycle-glob')
        return rng.choice(CYCLE_GLOBS)
    # random digits/letters with separator-adjacent characters
    # (at most one 'T': date/time separator)
    n = rng.randint(1, 8)
    s = ''.join(rng.choice('0123456789ZW+-*?') for _ in range(n))
    if rng.random() < 0.5:
        s = rng.choice('0123456789') + s
    if rng.random() < 0.5:
        k = rng.randint(0, len(s))
        s = s[:k] + 'T' + s[k:]
    if '*' in s or '?' in s:
        feat.add('cycle-glob')
    return s


def gen_task(rng, feat, allow_dot=False):
    r = rng.random()
    if r < 0.5:
        return rng.choice(TASKS)
    if r < 0.62:
        feat.add('task-glob')
        return rng.choice(TASK_GLOBS)
    s = _rand_word(rng, TASK_EDGE, '-+%@')
    # task names start with a word character
    if not (s[0].isalnum() or s[0] == '_'):
        s = rng.choice(['t', '_', '9', 'é']) + s
    return s


def gen_sel(rng, pool):
    if rng.random() < 0.75:
        return rng.choice(pool)
    s = _rand_word(rng, SEL_EDGE, '-', 1, 5)
    if not (s[0].isalpha() or s[0] == '_'):
        s = rng.choice(['s', '_', 'é']) + s
    return s


SHAPES = [
    # (levels present) weights chosen to favour deep IDs
    (('user',), 2),
    (('workflow',), 4),
    (('user', 'workflow'), 4),
    (('workflow', 'cycle'), 6),
    (('user', 'workflow', 'cycle'), 4),
    (('workflow', 'cycle', 'task'), 10),
    (('user', 'workflow', 'cycle', 'task'), 6),
    (('workflow', 'cycle', 'task', 'job'), 10),
    (('user', 'workflow', 'cycle', 'task', 'job'), 8),
    (('cycle',), 5),
    (('cycle', 'task'), 9),
    (('cycle', 'task', 'job'), 9),
]
_SHAPE_POP = [s for s, w in SHAPES for _ in range(w)]


def gen_tokens(rng):
    """(tokens, features): hierarchical (gap-free) valid tokens."""
    feat = set()
    shape = rng.choice(_SHAPE_POP)
    t: Tok = {}
    sel_p = rng.choice([0.0, 0.3, 0.6, 1.0])
    if 'user' in shape:
        t['user'] = gen_user(rng)
    if 'workflow' in shape:
        t['workflow'] = gen_workflow(rng, feat)
        if rng.random() < sel_p * 0.5:
            t['workflow_sel'] = gen_sel(rng, WF_SELS)
    if 'cycle' in shape:
        t['cycle'] = gen_cycle(rng, feat)
        if rng.random() < sel_p * 0.5:
            t['cycle_sel'] = gen_sel(rng, CYCLE_SELS)
    if 'task' in shape:
        t['task'] = gen_task(rng, feat)
        if rng.random() < sel_p:
            t['task_sel'] = gen_sel(rng, TASK_SELS)
    if 'job' in shape:
        t['job'] = rng.choice(JOBS) if rng.random() < 0.8 else str(
            rng.randint(0, 2000))
        if t['job'] == 'NN':
            feat.add('job-NN')
        elif canon_job(t['job']) != t['job']:
            feat.add('job-needs-padding')
        if rng.random() < sel_p * 0.6:
            t['job_sel'] = gen_sel(rng, JOB_SELS)
    if any(t.get(k + '_sel') for k in ('workflow', 'cycle', 'task', 'job')):
        feat.add('selectors')
    if any(ord(c) > 127 for v in t.values() if v for c in v):
        feat.add('unicode')
    for k in LEVELS:
        v = t.get(k)
        if v and not (v[0].isalnum() and v[-1].isalnum()):
            feat.add('edge-char')
    return t, feat, ''.join(k[0] for k in shape)


# ------------------------------------------------------------------ legacy
LEGACY_INT = ['1', '2', '5', '9', '0', '10', '12', '100', '01', '2020']
LEGACY_DT = ['20200101T00', '20200101T0000Z', '20200101T00Z', '20200101',
             '20200101T0000+0100', '20200101T0000-0100', '2020-01-01T00Z',
             '10000101T0000Z', '2020-W01-1T00Z']
LEGACY_GLOB = ['2020*', '2020010?T00', '1*', '2*T00Z', '20[12]0*']
LEGACY_SELS = ['failed', 'succeeded', 'waiting', 'running', 'held',
               'submit-failed', 'retrying', 'x']


def gen_legacy(rng):
    """(task, cycle, sel|None, features) for one legacy Cylc 7 task ID.

    Domain: cycle points that start with a digit and contain none of
    "~ . : /" (documented limitation of the legacy forms); task names are
    task names or globs, optionally dotted (the doc example a.b.c.234).
    """
    feat = set()
    r = rng.random()
    if r < 0.45:
        cycle = rng.choice(LEGACY_INT)
    elif r < 0.8:
        cycle = rng.choice(LEGACY_DT)
    elif r < 0.9:
        cycle = rng.choice(LEGACY_GLOB)
        feat.add('cycle-glob')
    else:
        cycle = str(rng.randint(0, 99999))
    if len(cycle) == 1:
        feat.add('single-char-cycle')
    task = gen_task(rng, feat)
    if rng.random() < 0.12:
        task = task + '.' + rng.choice(['b', '1', 'x_y', 'c.d', '2b'])
        feat.add('dotted-task')
    sel = rng.choice(LEGACY_SELS) if rng.random() < 0.4 else None
    if sel:
        feat.add('selector')
    return task, cycle, sel, feat
