"""C47 Platform and host selection avoids unreachable hosts.

Monitor shape: a generated ``global.cylc`` (literal, regex and comma-list
platform names, explicit or defaulted hosts, platform groups) is loaded by
the real global-config loader through ``CYLC_CONF_PATH`` (cache reloaded per
case); the real ``platform_from_name`` / ``get_host_from_platform`` /
``get_platform_from_group`` are then called on many names and bad-host sets
and each answer is compared with the small model of DESIGN Appendix E.7,
which works on the generator's own structured description of the file.
"""
from __future__ import annotations

import os
import re

PID = 'C47'
META = {
    'engine': 'E2 funcmon',
    'level': 'exploration',
    'technique': 'post-condition monitor on platform/host/group selection '
                 'against a last-defined-full-match / good-host-set model',
    'level_text': (
        'Random global.cylc files (1-6 platform definitions whose names are '
        'literals, regular expressions or comma lists of both, quoted or '
        'not; 0-3 platform groups) are loaded by the real GlobalConfig; '
        'every candidate name of a systematic name pool is resolved with '
        'the real platform_from_name and compared with "last definition one '
        'of whose alternatives fully matches"; for each resolved platform '
        'and each group, hosts/platforms are selected under generated '
        'bad-host sets and must be good whenever a good one exists, with '
        'NoHostsError/NoPlatformsError exactly when none does. Held = no '
        'disagreement on the configurations explored.'),
    'level_note': 'Python re is trusted for matching one alternative; the '
                  'model never parses the section heading, it knows the '
                  'alternatives from the generator; platform patterns never '
                  'match "localhost" (documented restriction) and group '
                  'patterns never overlap each other or platform patterns.',
    'design_ref': 'DESIGN.md §5 C47, Appendix E.7',
    'budget': {'quick': 90, 'thorough': 900},
}
RULE = ('case = one generated global.cylc plus its lookups; distinct by the '
        'rendered file; non-trivial when at least one looked-up name is '
        'matched by two or more definitions (so definition order decides) '
        'or a selection was made with a bad-host set that excludes some but '
        'not all candidates')
ASSUMPTIONS = [
    'alternatives of one definition are unique across the file, so "last '
    'defined" is unambiguous after comma lists are expanded',
    'patterns start with a literal stem that is not a prefix of "localhost" '
    '(regular expressions matching localhost are documented as unsupported)',
    'platforms with more than one host are given job runner = slurm (the '
    'loader rejects multi-host background platforms)',
    'group members are names that the model resolves to a definition; '
    'nested groups are not generated',
    'which good host/platform is chosen is not judged, only that it is good',
]
MIN = {
    'configs': 300, 'lookups': 8000, 'lookups_matched': 3000,
    'lookups_unmatched': 1500, 'order_decides': 300,
    'prefix_only_candidates': 300, 'comma_list_lookups': 500,
    'quoted_header_lookups': 200, 'regex_lookups': 1500,
    'default_hosts_lookups': 500, 'host_selections': 3000,
    'host_some_bad': 600, 'host_all_bad': 300, 'group_selections': 600,
    'group_some_member_bad': 150, 'group_all_bad': 80,
    'group_via_platform_from_name': 300,
}
NCASES = {'quick': 2400, 'thorough': 24000}

STEMS = ['hpc', 'desk', 'vm', 'ax', 'bq', 'node', 'xc', 'cray', 'k']
GSTEMS = ['grp', 'team', 'pool', 'farm']
SUFFIXES = ['', '1', '2', '7', '0', '12', '42', '123', 'a', 'b', 'x', 'ab',
            '_x1', '_y2', '-02', '1a', 'A', '1 ']
HOSTPOOL = ['h1', 'h2', 'h3', 'h4', 'h5', 'h6', 'login-a', 'login-b']
QC_RE = re.compile(r'\{\d*,\d*\}')

_S = {}


def ncases(tier):
    return NCASES[tier]


def setup_shard(ctx):
    import logging
    from cylc.flow import LOG
    LOG.setLevel(logging.CRITICAL + 10)
    base = os.path.join(ctx.workdir, 'c47')
    os.makedirs(base, exist_ok=True)
    _S['dir'] = base
    os.environ['CYLC_CONF_PATH'] = base
    for v in ('CYLC_SITE_CONF_PATH',):
        os.environ.pop(v, None)


# --------------------------------------------------------------- generation
def gen_alt(rng, stem):
    """One alternative (a regular expression) built on a literal stem."""
    r = rng.random()
    if r < 0.30:
        return stem + rng.choice(['1', '2', '7', '12', 'a', '_x1', '-02', ''])
    tail = rng.choice([
        r'\d', r'[0-9]', r'[12]', r'\d+', r'\d*', r'.*', r'.', r'[0-9]{2}',
        r'\d{1,2}', r'\d{2,}', r'(a|b)', r'_(x|y)\d', r'\w+', r'[ab]?',
        r'\d{1,3}', r'(1|12)', r'[0-9a-f]+', r'-0\d',
    ])
    return stem + tail


def gen_config(rng):
    nstem = rng.choice([1, 2, 2, 3])
    stems = rng.sample(STEMS, nstem)
    ndef = rng.choice([1, 2, 3, 3, 4, 5, 6])
    allow_unquoted_qc = rng.random() < 0.10
    seen = set()
    defs = []
    for di in range(ndef):
        nalt = rng.choice([1, 1, 1, 2, 2, 3])
        alts = []
        for _ in range(nalt):
            for _try in range(20):
                a = gen_alt(rng, rng.choice(stems))
                if a not in seen:
                    break
            else:
                continue
            seen.add(a)
            alts.append(a)
        if not alts:
            continue
        if rng.random() < 0.08 and 'localhost' not in seen:
            alts.insert(rng.randint(0, len(alts)), 'localhost')
            seen.add('localhost')
        has_qc = any(QC_RE.search(a) for a in alts)
        # heading spelling
        if has_qc and not allow_unquoted_qc:
            style = rng.choice(['quote-all', 'quote-each'])
        else:
            style = rng.choice(['plain', 'plain', 'plain', 'quote-all',
                                'quote-each'])
        if style == 'plain' and alts[-1].endswith(']'):
            # "[[hpc[0-9]]]" is a 'bracket mismatch' for the file parser
            # (config grammar, not platform selection): spell it quoted
            style = 'quote-all'
        sep = rng.choice([', ', ',', ' , ', ',  '])
        if style == 'plain':
            header = sep.join(alts)
        elif style == 'quote-all':
            header = '"' + sep.join(alts) + '"'
        else:
            header = sep.join(
                '"%s"' % a if (QC_RE.search(a) or a.endswith(']')
                               or rng.random() < 0.5) else a
                for a in alts)
        unq_qc = [a for a in alts if QC_RE.search(a) and (
            style == 'plain' or (style == 'quote-each' and
                                 '"%s"' % a not in header))]
        nh = rng.choice([0, 0, 0, 1, 1, 2, 3, 4])
        hosts = rng.sample(HOSTPOOL, nh)
        if rng.random() < 0.1 and nh:
            hosts.append(hosts[0])      # duplicate entry
        method = rng.choice([None, None, 'random', 'definition order'])
        defs.append({
            'vid': f'd{di}', 'alts': alts, 'header': header, 'style': style,
            'hosts': hosts, 'method': method, 'unquoted_qc': unq_qc,
        })
    return stems, defs


def render(defs, groups):
    out = ['[platforms]']
    for d in defs:
        out.append(f'    [[{d["header"]}]]')
        if d['hosts']:
            out.append('        hosts = ' + ', '.join(d['hosts']))
            if len(d['hosts']) > 1:
                out.append('        job runner = slurm')
        out.append('        [[[meta]]]')
        out.append(f'            vid = {d["vid"]}')
        if d['method']:
            out.append('        [[[selection]]]')
            out.append(f'            method = {d["method"]}')
    if groups:
        out.append('[platform groups]')
        for g in groups:
            out.append(f'    [[{g["pattern"]}]]')
            out.append('        platforms = ' + ', '.join(g['members']))
            if g['method']:
                out.append('        [[[selection]]]')
                out.append(f'            method = {g["method"]}')
    return '\n'.join(out) + '\n'


# -------------------------------------------------------------------- model
def matching_defs(defs, name):
    """Definitions (in file order) one of whose alternatives fully matches."""
    return [d for d in defs
            if any(re.fullmatch(a, name) for a in d['alts'])]


def resolve(defs, name):
    """Appendix E.7: last definition with a fully matching alternative."""
    m = matching_defs(defs, name)
    return m[-1] if m else None


def model_hosts(d, name):
    return list(d['hosts']) if d['hosts'] else [name]


def qc_affected(defs, name):
    """Does an unquoted {m,n} alternative take part in matching `name`?"""
    return any(re.fullmatch(a, name) for d in defs for a in d['unquoted_qc'])


def prefix_only(defs, name):
    """Some alternative matches a proper prefix of name but no def matches
    fully (discriminates full match from prefix match)."""
    if matching_defs(defs, name):
        return False
    return any(re.match(a, name) for d in defs for a in d['alts'])


# --------------------------------------------------------------------- case
def run_case(ctx, i, rng):
    from cylc.flow.cfgspec.glbl_cfg import glbl_cfg
    from cylc.flow.exceptions import (
        NoHostsError, NoPlatformsError, PlatformLookupError)
    from cylc.flow import platforms as P

    stems, defs = gen_config(rng)
    if not defs:
        ctx.count('discard_empty_config')
        return
    extra_stem = rng.choice([s for s in STEMS if s not in stems] or STEMS)
    cands = []
    for s in stems + [extra_stem]:
        for suf in SUFFIXES:
            cands.append(s + suf)
        cands.append('x' + s + '1')
        cands.append(s.upper() + '1')
    cands += ['localhost']
    # ---- groups: members are names the model can resolve (and that are
    # not touched by the unquoted-quantifier spelling)
    resolvable = [c for c in cands if resolve(defs, c) is not None
                  and not qc_affected(defs, c) and ' ' not in c]
    groups = []
    if resolvable and rng.random() < 0.75:
        gstems = rng.sample(GSTEMS, rng.choice([1, 1, 2, 3]))
        for gs in gstems:
            kind = rng.choice(['lit', 'lit', 're'])
            pattern = gs + 'A' if kind == 'lit' else gs + rng.choice(
                [r'[A-C]+', r'\d', r'(A|B)'])
            gname = gs + 'A' if kind == 'lit' else gs + rng.choice(
                {'[A-C]+': 'ABC', r'\d': '123', '(A|B)': 'AB'}[
                    pattern[len(gs):]])
            members = []
            for _ in range(rng.choice([1, 2, 2, 3, 4])):
                m = rng.choice(resolvable)
                if m not in members:
                    members.append(m)
            groups.append({'pattern': pattern, 'lookup': gname,
                           'members': members,
                           'method': rng.choice(
                               [None, 'random', 'definition order'])})
    text = render(defs, groups)
    with open(os.path.join(_S['dir'], 'global.cylc'), 'w') as f:
        f.write(text)
    try:
        cfg = glbl_cfg(reload=True)
    except Exception as exc:
        ctx.count('discard_config_rejected')
        ctx.count('discard_config_rejected:' + type(exc).__name__)
        ctx.sample({'rejected_config': text, 'error': repr(exc)})
        return
    ctx.count('configs')
    desc = {'global.cylc': text}
    order_decides = False
    partial_sel = False

    # ---------------- name resolution
    resolved = []
    for name in cands:
        m = matching_defs(defs, name)
        want = m[-1] if m else None
        if name == 'localhost' and want is None:
            want_vid, want_hosts = None, ['localhost']
        elif want is None:
            want_vid = want_hosts = None
        else:
            want_vid, want_hosts = want['vid'], model_hosts(want, name)
        ctx.count('lookups')
        if len({d['vid'] for d in m}) > 1:
            ctx.count('order_decides')
            order_decides = True
        if prefix_only(defs, name):
            ctx.count('prefix_only_candidates')
        try:
            got = P.platform_from_name(name)
            got_vid = dict(got['meta']).get('vid') if 'meta' in got else None
            got_desc = {'vid': got_vid, 'hosts': list(got['hosts']),
                        'name': got['name']}
            err = None
        except PlatformLookupError as exc:
            got = None
            got_desc = None
            err = exc
        except Exception as exc:
            ctx.violation(
                f'C47:resolve:raised-{type(exc).__name__}',
                f'platform_from_name({name!r}) raised {exc!r}',
                {**desc, 'name': name})
            continue
        expect_found = want is not None or name == 'localhost'
        if expect_found:
            ctx.count('lookups_matched')
            if want is not None:
                if len(want['alts']) > 1:
                    ctx.count('comma_list_lookups')
                if want['style'] != 'plain':
                    ctx.count('quoted_header_lookups')
                if any(re.fullmatch(a, name) and a != name
                       for a in want['alts']):
                    ctx.count('regex_lookups')
                if not want['hosts']:
                    ctx.count('default_hosts_lookups')
                if any(QC_RE.search(a) and re.fullmatch(a, name)
                       for a in want['alts']):
                    ctx.count('quantifier_comma_lookups')
        else:
            ctx.count('lookups_unmatched')
        ok = True
        if expect_found and got is None:
            ok = False
            mech = 'error-although-a-definition-matches'
        elif not expect_found and got is not None:
            ok = False
            mech = ('prefix-match-accepted' if prefix_only(defs, name)
                    else 'unexpected-match')
        elif got is not None:
            if got_desc['vid'] != want_vid:
                ok = False
                first = m[0]['vid'] if m else None
                mech = ('first-defined-wins' if got_desc['vid'] == first
                        and len(m) > 1 else 'wrong-definition')
            elif got_desc['name'] != name:
                ok = False
                mech = 'name-field'
            elif got_desc['hosts'] != want_hosts:
                ok = False
                mech = ('default-hosts' if want is None or not want['hosts']
                        else 'hosts')
        if not ok:
            if qc_affected(defs, name):
                key = 'C47:resolve:unquoted-quantifier-comma-split-at-load'
            else:
                key = 'C47:resolve:' + mech
            ctx.violation(
                key,
                f'platform {name!r} should resolve to '
                f'{want_vid or ("localhost default" if expect_found else "no platform")}'
                f' (hosts {want_hosts}) but gave '
                f'{got_desc if got is not None else "PlatformLookupError: " + str(err)}',
                {**desc, 'name': name, 'matching_definitions':
                    [d['vid'] for d in m], 'got': got_desc,
                 'error': repr(err) if err else None})
            continue
        if got is not None:
            resolved.append((name, got, want_hosts))

    # ---------------- host selection on resolved platforms
    rng.shuffle(resolved)
    for name, plat, hosts in resolved[:12]:
        uniq = sorted(set(hosts))
        bads = [None, set(), set(uniq), set(uniq) | {'other9'},
                {'other9'}]
        if len(uniq) > 1:
            bads.append(set(rng.sample(uniq, rng.randint(1, len(uniq) - 1))))
            bads.append(set(uniq[1:]))
            bads.append(set(uniq[:-1]))
        for bad in bads:
            good = [h for h in hosts if not bad or h not in bad]
            ctx.count('host_selections')
            if bad and good and len(good) < len(hosts):
                ctx.count('host_some_bad')
                partial_sel = True
            if not good:
                ctx.count('host_all_bad')
            try:
                h = P.get_host_from_platform(
                    plat, None if bad is None else set(bad))
                err = None
            except NoHostsError as exc:
                h, err = None, exc
            except Exception as exc:
                ctx.violation(
                    f'C47:host:raised-{type(exc).__name__}',
                    f'get_host_from_platform raised {exc!r}',
                    {**desc, 'platform': name, 'bad_hosts': bad})
                continue
            w = {**desc, 'platform': name, 'hosts': hosts,
                 'bad_hosts': sorted(bad) if bad else bad, 'returned': h}
            if err is not None and good:
                ctx.violation(
                    'C47:host:no-hosts-error-with-good-host-left',
                    f'NoHostsError for platform {name!r} hosts {hosts} with '
                    f'bad hosts {w["bad_hosts"]}', w)
            elif err is None and not good:
                ctx.violation(
                    'C47:host:bad-host-returned-when-all-bad',
                    f'host {h!r} returned for platform {name!r} although '
                    f'every host {hosts} is bad', w)
            elif err is None and bad and h in bad:
                ctx.violation(
                    'C47:host:bad-host-returned',
                    f'bad host {h!r} returned for platform {name!r} hosts '
                    f'{hosts}, bad {w["bad_hosts"]}', w)
            elif err is None and h not in hosts:
                ctx.violation(
                    'C47:host:foreign-host-returned',
                    f'host {h!r} is not one of {hosts}', w)

    # ---------------- group selection
    for g in groups:
        mh = {}
        for mname in g['members']:
            d = resolve(defs, mname)
            mh[mname] = (model_hosts(d, mname) if d is not None
                         else ['localhost'])
        allh = sorted({h for hs in mh.values() for h in hs})
        bads = [None, set(), set(allh), set(allh) | {'other9'}]
        for mname in g['members']:
            bads.append(set(mh[mname]))
            rest = set(allh) - set(mh[mname])
            bads.append(rest)
        if len(allh) > 1:
            bads.append(set(rng.sample(allh, rng.randint(1, len(allh) - 1))))
            bads.append(set(allh[:-1]))
        try:
            gcfg = cfg.get(['platform groups'])[g['pattern']]
        except Exception as exc:
            ctx.violation(
                'C47:group:not-in-loaded-config',
                f'group {g["pattern"]!r} missing from loaded config: '
                f'{exc!r}', desc)
            continue
        for bad in bads:
            good = [m for m in g['members']
                    if not bad or not set(mh[m]) <= bad]
            ctx.count('group_selections')
            if bad and good and len(good) < len(g['members']):
                ctx.count('group_some_member_bad')
                partial_sel = True
            if not good:
                ctx.count('group_all_bad')
            for api in ('get_platform_from_group', 'platform_from_name'):
                try:
                    b = None if bad is None else set(bad)
                    if api == 'get_platform_from_group':
                        chosen = P.get_platform_from_group(
                            gcfg, g['lookup'], b)
                    else:
                        ctx.count('group_via_platform_from_name')
                        chosen = P.platform_from_name(
                            g['lookup'], bad_hosts=b)['name']
                    err = None
                except NoPlatformsError as exc:
                    chosen, err = None, exc
                except Exception as exc:
                    ctx.violation(
                        f'C47:group:raised-{type(exc).__name__}',
                        f'{api} on group {g["lookup"]!r} raised {exc!r}',
                        {**desc, 'group': g, 'bad_hosts': bad})
                    continue
                w = {**desc, 'group': g['pattern'], 'lookup': g['lookup'],
                     'members': g['members'], 'member_hosts': mh,
                     'bad_hosts': sorted(bad) if bad else bad,
                     'returned': chosen, 'api': api}
                if err is not None and good:
                    ctx.violation(
                        'C47:group:no-platforms-error-with-good-member-left',
                        f'{api}: NoPlatformsError for group {g["lookup"]!r} '
                        f'although {good} have a good host', w)
                elif err is None and not good:
                    ctx.violation(
                        'C47:group:platform-returned-when-all-hosts-bad',
                        f'{api}: {chosen!r} returned for group '
                        f'{g["lookup"]!r} although no member has a good '
                        f'host', w)
                elif err is None and chosen not in g['members']:
                    ctx.violation(
                        'C47:group:non-member-returned',
                        f'{api}: {chosen!r} is not a member of group '
                        f'{g["lookup"]!r}', w)
                elif err is None and chosen not in good:
                    ctx.violation(
                        'C47:group:member-with-only-bad-hosts-returned',
                        f'{api}: member {chosen!r} (hosts {mh[chosen]}) '
                        f'returned for group {g["lookup"]!r} with bad hosts '
                        f'{w["bad_hosts"]} while {good} have a good host', w)
    ctx.evaluated(text, nontrivial=order_decides or partial_sel)
    if order_decides and groups:
        ctx.sample({'global.cylc': text, 'resolved': {
            n: dict(p['meta']).get('vid') for n, p, _ in resolved[:8]}})
