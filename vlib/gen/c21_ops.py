"""C21: generated batches of DB operations, as replayable descriptors.

A batch is a list of plain-data descriptors; `apply_ops(mgr, ops)` replays
it through the real `WorkflowDatabaseManager.put_*` methods with small stand-
in task / pool / scheduler objects (only the attributes those methods read).
The same descriptor list can therefore be queued again and again from the
same starting files, once per fault position.
"""
from __future__ import annotations

import json
from collections import namedtuple
from types import SimpleNamespace

TASKS = ['a', 'b', 'c', 'long_task_name']
CYCLES = ['1', '2', '3', '20200101T0000Z']
FLOWS = [[1], [1, 2], [2], []]
STATUSES = ['waiting', 'preparing', 'submitted', 'running', 'succeeded',
            'failed', 'submit-failed', 'expired']
TEXTS = ['plain', "it's", 'say "hi"', 'semi;colon -- comment', 'né λ 日本',
         '', 'line1\nline2', '%s ? ?1 :x', 'NULL', '0', "x' OR '1'='1"]

HandlerCtx = namedtuple('HandlerCtx', ['key', 'cmd'])


class GenState:
    """What the generator remembers about rows it created earlier."""

    def __init__(self):
        self.jobs = {}        # (task, cycle) -> last submit number
        self.old_jobs = []    # (task, cycle, submit) inserted in earlier batch
        self.new_jobs = []
        self.states = []      # (task, cycle, flow list)
        self.outputs = []     # (task, cycle, flow list), earlier batches
        self.new_outputs = []
        self.nflow = 0
        self.nxtrig = 0
        self.ntvar = 0
        self.nevent = 0
        self.bcast = []       # (point, namespace, key-path list)

    def end_batch(self):
        self.old_jobs.extend(self.new_jobs)
        self.new_jobs = []
        self.outputs.extend(self.new_outputs)
        self.new_outputs = []


def _task(rng, **extra):
    d = {
        'name': rng.choice(TASKS), 'cycle': rng.choice(CYCLES),
        'flow': rng.choice(FLOWS), 'submit_num': rng.randint(0, 3),
        'status': rng.choice(STATUSES), 'is_held': rng.random() < 0.2,
        'time_updated': rng.choice(
            [None, '2020-01-01T00:00:0%dZ' % rng.randint(0, 9)]),
        'flow_wait': rng.random() < 0.2,
        'is_manual_submit': rng.random() < 0.2,
        'try_num': rng.randint(1, 3),
        'timeout': rng.choice([None, 12.5, 1e9]),
        'is_late': True,
        'outputs': rng.choice([{}, {'submitted': 'submitted'},
                               {'succeeded': 'succeeded', 'x': "it's x"}]),
        'prereqs': [[rng.choice(CYCLES), rng.choice(TASKS),
                     rng.choice(['succeeded', 'failed', 'custom out']),
                     rng.choice([False, 'satisfied naturally',
                                 'force satisfied'])]
                    for _ in range(rng.choice([0, 0, 1, 2]))],
        'xtriggers': rng.choice([{}, {'clock_1': True}, {'x1': False}]),
        'poll_timer': rng.choice([None, None, [[1.0, 2.5], 1, 1.0, 99.5]]),
        'try_timers': rng.choice([{}, {}, {'execution-retry':
                                           [[60.0], 0, None, None]}]),
    }
    d.update(extra)
    return d


# --------------------------------------------------------------------------
# generators: conservative families never create cross-batch ordering
# hazards (fresh keys only; updates only of rows inserted in earlier
# batches, one statement template per table)
# --------------------------------------------------------------------------
def g_task_events(rng, st):
    st.nevent += 1
    return {'op': 'insert_task_events', 'task': _task(rng), 'args': {
        'time': '2020-01-01T00:00:00Z', 'event': rng.choice(
            ['submitted', 'started', 'succeeded', 'message warning']),
        'message': f'{rng.choice(TEXTS)} #{st.nevent}'}}


def g_insert_job(rng, st):
    t = _task(rng)
    k = (t['name'], t['cycle'])
    st.jobs[k] = st.jobs.get(k, 0) + 1
    t['submit_num'] = st.jobs[k]
    st.new_jobs.append((t['name'], t['cycle'], st.jobs[k]))
    return {'op': 'insert_task_jobs', 'task': t, 'args': {
        'flow_nums': json.dumps(t['flow']), 'is_manual_submit': 0,
        'try_num': 1, 'time_submit': '2020-01-01T00:00:00Z',
        'platform_name': rng.choice(['localhost', 'hpc']),
        'job_runner_name': 'background', 'job_id': str(rng.randint(1, 9999))}}


def g_update_job(rng, st):
    if not st.old_jobs:
        return g_insert_job(rng, st)
    name, cycle, sub = rng.choice(st.old_jobs)
    t = _task(rng, name=name, cycle=cycle, submit_num=sub)
    return {'op': 'update_task_jobs', 'task': t, 'args': {
        'run_status': rng.choice([0, 1]),
        'time_run_exit': '2020-01-01T00:0%d:00Z' % rng.randint(0, 9)}}


def g_insert_state_fresh(rng, st):
    for _ in range(20):
        t = _task(rng)
        k = (t['name'], t['cycle'], t['flow'])
        if k not in st.states:
            st.states.append(k)
            return {'op': 'insert_task_states', 'task': t}
    return g_task_events(rng, st)


def g_insert_outputs_fresh(rng, st):
    for _ in range(20):
        t = _task(rng)
        k = (t['name'], t['cycle'], t['flow'])
        if k not in st.outputs and k not in st.new_outputs:
            st.new_outputs.append(k)
            return {'op': 'insert_task_outputs', 'task': t}
    return g_task_events(rng, st)


def g_update_outputs(rng, st):
    if not st.outputs:
        return g_insert_outputs_fresh(rng, st)
    name, cycle, flow = rng.choice(st.outputs)
    return {'op': 'update_task_outputs',
            'task': _task(rng, name=name, cycle=cycle, flow=flow)}


def g_xtriggers(rng, st):
    out = {}
    for _ in range(rng.randint(1, 3)):
        st.nxtrig += 1
        out[f'xt{st.nxtrig}(a={rng.choice(TEXTS)!r})'] = {
            'n': st.nxtrig, 's': rng.choice(TEXTS)}
    if rng.random() < 0.3:
        out['wall_clock(trigger_time=1)'] = {}
    return {'op': 'xtriggers', 'sat': out}


def g_abs_output(rng, st):
    return {'op': 'abs_output', 'cycle': rng.choice(CYCLES),
            'name': rng.choice(TASKS), 'output': rng.choice(TEXTS)}


def g_flow(rng, st):
    st.nflow += 1
    return {'op': 'workflow_flows', 'num': st.nflow,
            'meta': {'start_time': '2020-01-01T00:00:00Z',
                     'description': rng.choice(TEXTS)}}


def g_tvars(rng, st):
    st.ntvar += 1
    return {'op': 'template_vars', 'vars': {
        f'V{st.ntvar}': rng.choice([1, 2.5, 'x', [1, 'a'], {'k': None}])}}


def g_param1(rng, st):
    kind = rng.choice(['param_1', 'paused', 'hold_point', 'stop_clock_time',
                       'stop_cycle_point', 'stop_task'])
    val = {'param_1': rng.choice(TEXTS + [None]),
           'paused': rng.random() < 0.5,
           'hold_point': rng.choice([None, '5']),
           'stop_clock_time': rng.choice([None, '2030-01-01T00:00:00Z']),
           'stop_cycle_point': rng.choice([None, '9']),
           'stop_task': rng.choice([None, '3/a'])}[kind]
    return {'op': kind, 'key': rng.choice(['n_restart', 'custom_key']),
            'value': val}


def g_late(rng, st):
    return {'op': 'insert_late_flags', 'task': _task(rng)}


def g_inheritance(rng, st):
    names = rng.sample(TASKS + ['FAM', 'root'], rng.randint(1, 4))
    return {'op': 'inheritance', 'lin': {n: [n, 'root'] for n in names}}


CONSERVATIVE = [
    (g_task_events, 5), (g_insert_job, 4), (g_update_job, 3),
    (g_insert_state_fresh, 3), (g_insert_outputs_fresh, 2),
    (g_update_outputs, 2), (g_xtriggers, 2), (g_abs_output, 1),
    (g_flow, 1), (g_tvars, 1), (g_param1, 2), (g_late, 1),
    (g_inheritance, 1),
]


# ---- families with deletes / re-inserts / several update templates -------
def g_task_pool(rng, st):
    return {'op': 'task_pool',
            'tasks': [_task(rng) for _ in range(rng.randint(0, 4))]}


def g_tasks_to_hold(rng, st):
    return {'op': 'tasks_to_hold', 'tasks': [
        [rng.choice(TASKS), rng.choice(CYCLES)]
        for _ in range(rng.randint(0, 3))]}


def g_event_timers(rng, st):
    timers = []
    for _ in range(rng.randint(0, 3)):
        timers.append({
            'handler': rng.choice(['event-mail', 'event-handler-00',
                                   'job-logs-retrieve']),
            'event': rng.choice(['failed', 'succeeded']),
            'task': rng.choice(TASKS), 'cycle': rng.choice(CYCLES),
            'job': rng.randint(1, 3),
            'ctx': rng.choice([None, ['k', 'echo hi']]),
            'timer': [[1.0, 5.0], rng.randint(0, 2),
                      rng.choice([None, 1.0]), rng.choice([None, 1e9])]})
    return {'op': 'event_timers', 'timers': timers}


def g_workflow_params(rng, st):
    return {'op': 'workflow_params', 'schd': {
        'uuid': 'uuid-%d' % rng.randint(1, 3),
        'paused': rng.random() < 0.5,
        'stop_clock_time': rng.choice([None, 1.5e9]),
        'stop_task': rng.choice([None, '2/b']),
        'icp': rng.choice(['1', '20200101T0000Z']),
        'fcp': rng.choice([None, '9', 'reload']),
        'startcp': rng.choice([None, '2']),
        'stopcp': rng.choice([None, '5']),
        'tz': rng.choice([None, 'Z', '+0100'])}}


def g_state_any(rng, st):
    t = _task(rng)
    k = (t['name'], t['cycle'], t['flow'])
    if k not in st.states:
        st.states.append(k)
    return {'op': 'insert_task_states', 'task': t}


def g_update_state(rng, st):
    if st.states and rng.random() < 0.8:
        name, cycle, flow = rng.choice(st.states)
        t = _task(rng, name=name, cycle=cycle, flow=flow)
    else:
        t = _task(rng)
    t['transient'] = rng.random() < 0.2
    return {'op': rng.choice(['update_task_state', 'update_flow_wait']),
            'task': t}


def g_outputs_any(rng, st):
    t = _task(rng)
    k = (t['name'], t['cycle'], t['flow'])
    if k not in st.outputs and k not in st.new_outputs:
        st.new_outputs.append(k)
    return {'op': rng.choice(['insert_task_outputs', 'update_task_outputs']),
            'task': t}


def g_job_any(rng, st):
    t = _task(rng, submit_num=rng.randint(1, 2))
    if rng.random() < 0.5:
        return {'op': 'insert_task_jobs', 'task': t, 'args': {
            'flow_nums': json.dumps(t['flow']), 'try_num': 1,
            'platform_name': 'localhost', 'job_id': str(rng.randint(1, 99))}}
    args = rng.choice([
        {'run_status': 0, 'time_run_exit': 'T1'},
        {'time_run': 'T0'},
        {'submit_status': rng.choice([0, 1]), 'time_submit_exit': 'T2'},
        {'run_signal': 'SIGTERM', 'run_status': 1},
        {'job_id': None, 'job_runner_name': 'slurm'},
    ])
    return {'op': 'update_task_jobs', 'task': t, 'args': dict(args)}


def g_broadcast(rng, st):
    cancel = bool(st.bcast) and rng.random() < 0.45
    if cancel:
        items = rng.sample(st.bcast, rng.randint(1, min(2, len(st.bcast))))
        for it in items:
            st.bcast.remove(it)
        mods = []
        for p, ns, path in items:
            s = 'x'
            for k in reversed(path):
                s = {k: s}
            mods.append([p, ns, s])
        return {'op': 'broadcast', 'cancel': True, 'mods': mods}
    mods = []
    for _ in range(rng.randint(1, 2)):
        p = rng.choice(['*', '1', '2'])
        ns = rng.choice(['root', 'a', 'b'])
        path = rng.choice([['script'], ['environment', 'A'],
                           ['environment', 'B'], ['meta', 'title']])
        s = rng.choice(TEXTS)
        for k in reversed(path):
            s = {k: s}
        mods.append([p, ns, s])
        if (p, ns, path) not in st.bcast:
            st.bcast.append((p, ns, path))
    return {'op': 'broadcast', 'cancel': False, 'mods': mods}


def g_remove_flows(rng, st):
    if st.states and rng.random() < 0.8:
        name, cycle, flow = rng.choice(st.states)
    else:
        name, cycle = rng.choice(TASKS), rng.choice(CYCLES)
    return {'op': 'remove_from_flows', 'point': cycle, 'name': name,
            'flows': rng.choice([[], [1], [2], [1, 2]])}


FULL = CONSERVATIVE + [
    (g_task_pool, 6), (g_tasks_to_hold, 2), (g_event_timers, 2),
    (g_workflow_params, 2), (g_state_any, 3), (g_update_state, 4),
    (g_outputs_any, 2), (g_job_any, 4), (g_broadcast, 6),
    (g_remove_flows, 2),
]


def gen_batch(rng, st, conservative, nmin=1, nmax=6):
    fams = CONSERVATIVE if conservative else FULL
    gens = [g for g, _ in fams]
    weights = [w for _, w in fams]
    n = rng.randint(nmin, nmax)
    ops = [rng.choices(gens, weights)[0](rng, st) for _ in range(n)]
    st.end_batch()
    return ops


# --------------------------------------------------------------------------
# replay through the real put_* methods
# --------------------------------------------------------------------------
class _Prereq:
    def __init__(self, rows):
        self.rows = rows

    def items(self):
        return [((c, n, o), s) for c, n, o, s in self.rows]


def _timer(spec):
    from cylc.flow.task_action_timer import TaskActionTimer
    if spec is None:
        return None
    delays, num, delay, timeout = spec
    return TaskActionTimer(ctx=None, delays=list(delays), num=num,
                           delay=delay, timeout=timeout)


def make_itask(d):
    outputs = dict(d['outputs'])
    return SimpleNamespace(
        tdef=SimpleNamespace(name=d['name']),
        point=d['cycle'], submit_num=d['submit_num'],
        flow_nums=set(d['flow']),
        identity=f"{d['cycle']}/{d['name']}",
        state=SimpleNamespace(
            status=d['status'], is_held=d['is_held'],
            time_updated=d['time_updated'],
            prerequisites=[_Prereq(d['prereqs'])] if d['prereqs'] else [],
            xtriggers=dict(d['xtriggers']),
            outputs=SimpleNamespace(
                get_completed_outputs=lambda: outputs)),
        flow_wait=d['flow_wait'], is_manual_submit=d['is_manual_submit'],
        transient=d.get('transient', False), timeout=d['timeout'],
        is_late=d['is_late'], poll_timer=_timer(d['poll_timer']),
        try_timers={k: _timer(v) for k, v in d['try_timers'].items()},
        get_try_num=lambda: d['try_num'],
    )


def apply_op(mgr, op):
    from cylc.flow.id import Tokens
    from cylc.flow.run_modes import RunMode
    from cylc.flow.task_events_mgr import EventKey
    k = op['op']
    if k == 'insert_task_events':
        mgr.put_insert_task_events(make_itask(op['task']), dict(op['args']))
    elif k == 'insert_task_jobs':
        mgr.put_insert_task_jobs(make_itask(op['task']), dict(op['args']))
    elif k == 'update_task_jobs':
        mgr.put_update_task_jobs(make_itask(op['task']), dict(op['args']))
    elif k == 'insert_task_states':
        mgr.put_insert_task_states(make_itask(op['task']))
    elif k == 'insert_task_outputs':
        mgr.put_insert_task_outputs(make_itask(op['task']))
    elif k == 'update_task_outputs':
        mgr.put_update_task_outputs(make_itask(op['task']))
    elif k == 'update_task_state':
        mgr.put_update_task_state(make_itask(op['task']))
    elif k == 'update_flow_wait':
        mgr.put_update_task_flow_wait(make_itask(op['task']))
    elif k == 'insert_late_flags':
        mgr.put_insert_task_late_flags(make_itask(op['task']))
    elif k == 'xtriggers':
        mgr.put_xtriggers(dict(op['sat']))
    elif k == 'abs_output':
        mgr.put_insert_abs_output(op['cycle'], op['name'], op['output'])
    elif k == 'workflow_flows':
        mgr.put_insert_workflow_flows(op['num'], dict(op['meta']))
    elif k == 'template_vars':
        mgr.put_workflow_template_vars(dict(op['vars']))
    elif k == 'param_1':
        mgr.put_workflow_params_1(op['key'], op['value'])
    elif k == 'paused':
        mgr.put_workflow_paused(op['value'])
    elif k == 'hold_point':
        mgr.put_workflow_hold_cycle_point(op['value'])
    elif k == 'stop_clock_time':
        mgr.put_workflow_stop_clock_time(op['value'])
    elif k == 'stop_cycle_point':
        mgr.put_workflow_stop_cycle_point(op['value'])
    elif k == 'stop_task':
        mgr.put_workflow_stop_task(op['value'])
    elif k == 'inheritance':
        mgr.put_runtime_inheritance(SimpleNamespace(
            cfg={'runtime': {n: {} for n in op['lin']}},
            runtime={'linearized ancestors': op['lin']}))
    elif k == 'task_pool':
        tasks = [make_itask(t) for t in op['tasks']]
        mgr.put_task_pool(SimpleNamespace(get_tasks=lambda: tasks))
    elif k == 'tasks_to_hold':
        mgr.put_tasks_to_hold({(n, c) for n, c in op['tasks']})
    elif k == 'event_timers':
        timers = {}
        for t in op['timers']:
            key = EventKey(
                t['handler'], t['event'], 'msg',
                Tokens(cycle=t['cycle'], task=t['task'],
                       job=str(t['job'])))
            tm = _timer(t['timer'])
            if t['ctx'] is not None:
                tm.ctx = HandlerCtx(*t['ctx'])
            timers[key] = tm
        mgr.put_task_event_timers(SimpleNamespace(
            event_timers_updated=True, _event_timers=timers))
    elif k == 'workflow_params':
        s = op['schd']
        mgr.put_workflow_params(SimpleNamespace(
            uuid_str=s['uuid'], is_paused=s['paused'],
            stop_clock_time=s['stop_clock_time'], stop_task=s['stop_task'],
            pool=SimpleNamespace(stop_task_id=s['stop_task'],
                                 hold_point=None),
            config=SimpleNamespace(
                cycle_point_dump_format='CCYYMMDDThhmmZ',
                initial_point=s['icp']),
            options=SimpleNamespace(
                fcp=s['fcp'], startcp=s['startcp'], stopcp=s['stopcp'],
                cycle_point_tz=s['tz']),
            get_run_mode=lambda: RunMode.LIVE))
    elif k == 'broadcast':
        mgr.put_broadcast(
            [(p, ns, s) for p, ns, s in op['mods']], is_cancel=op['cancel'])
    elif k == 'remove_from_flows':
        mgr.remove_task_from_flows(op['point'], op['name'], set(op['flows']))
    else:
        raise ValueError(k)


def apply_ops(mgr, ops):
    for op in ops:
        apply_op(mgr, op)
