"""Phase execution (DESIGN §2.4).

A scheduler incarnation that is to be killed runs in a forked child of the
warmed shard process, so the kill is a real process death (os._exit). All
other incarnations run inside the shard process itself: in this sandbox the
copy-on-write page faults of forked children serialise across processes
(16 shards forking ran ~13x slower per case than one), while a scheduler
that stops by itself leaves nothing behind that the next one could see
(fresh Scheduler object, fresh event loop, per-case HOME; the hooks, the
virtual clock and the DB shim are re-pointed per incarnation).
VERIF_E1_FORK=1 forces the fork for every phase."""
from __future__ import annotations

import asyncio
import json
import os
import shutil
import signal
import sys
import time
import traceback
from typing import List, Optional

from vlib.e1 import hooks
from vlib.e1 import world as W
from vlib.e1.driver import Driver, WF_NAME, warm_imports

_warmed = False


def warm():
    global _warmed
    if not _warmed:
        warm_imports()
        _warmed = True


def case_home(workdir: str, tag: str) -> str:
    home = os.path.join(workdir, f'h-{tag}')
    os.makedirs(home, exist_ok=True)
    return home


def write_workflow(home: str, gt: dict, flow_text: Optional[str] = None):
    rund = os.path.join(home, 'cylc-run', WF_NAME)
    os.makedirs(rund, exist_ok=True)
    with open(os.path.join(rund, 'flow.cylc'), 'w') as f:
        f.write(flow_text or gt['flow_text'])
    if gt.get('xtrig_module'):
        d = os.path.join(rund, 'lib', 'python')
        os.makedirs(d, exist_ok=True)
        with open(os.path.join(d, 'vx.py'), 'w') as f:
            f.write(gt['xtrig_module'])
    return rund


def run_phase(case: dict, phase: dict, home: str, monitor_factory,
              timeout: float = 60.0) -> dict:
    """Fork a child that runs one scheduler incarnation.

    phase: {'name', 'restart': bool, 'options': {...}, 'script': [...],
            'kill_at_iter', 'kill_at_stmt', 'keep_events'}
    Returns the child's result dict (+ 'exit': status), or
    {'crashed': ...} if the child died without a result.
    """
    warm()
    n = phase['index']
    phase['world_path'] = os.path.join(home, 'world.json')
    phase['result_path'] = os.path.join(home, f'result-{n}.json')
    if os.path.exists(phase['result_path']):
        os.unlink(phase['result_path'])
    sys.stdout.flush()
    sys.stderr.flush()
    needs_fork = bool(phase.get('kill_at_stmt') or phase.get('kill_at_iter')
                      or os.environ.get('VERIF_E1_FORK'))
    if not needs_fork:
        return _run_inproc(case, phase, home, monitor_factory)
    import gc
    gc.freeze()     # fewer copy-on-write faults in the child
    pid = os.fork()
    if pid == 0:
        code = 70
        try:
            gc.disable()
            os.setsid()
            signal.alarm(0)
            signal.signal(signal.SIGALRM, signal.SIG_DFL)
            _child(case, phase, home, monitor_factory)
            code = 0
        except SystemExit as exc:
            code = int(exc.code or 0)
        except BaseException:
            try:
                with open(os.path.join(home, f'crash-{n}.txt'), 'w') as f:
                    f.write(traceback.format_exc())
            except Exception:
                pass
        finally:
            sys.stdout.flush()
            sys.stderr.flush()
            os._exit(code)
    # parent
    t_end = time.time() + timeout
    status = None
    while time.time() < t_end:
        wpid, st = os.waitpid(pid, os.WNOHANG)
        if wpid:
            status = st
            break
        time.sleep(0.002)
    if status is None:
        try:
            os.killpg(pid, signal.SIGKILL)
        except OSError:
            pass
        try:
            os.kill(pid, signal.SIGKILL)
        except OSError:
            pass
        os.waitpid(pid, 0)
        return {'watchdog': True, 'phase': phase.get('name')}
    res = {}
    if os.path.exists(phase['result_path']):
        with open(phase['result_path']) as f:
            res = json.load(f)
    else:
        crash = os.path.join(home, f'crash-{n}.txt')
        res = {'crashed': open(crash).read()[-3000:]
               if os.path.exists(crash) else f'no result, status {status}'}
    res['exit'] = (os.WEXITSTATUS(status) if os.WIFEXITED(status)
                   else -os.WTERMSIG(status))
    return res


def _run_inproc(case, phase, home, monitor_factory) -> dict:
    """Run one incarnation inside this process (no kill requested)."""
    n = phase['index']
    cwd = os.getcwd()
    env_home = os.environ.get('HOME')
    import logging
    from cylc.flow import LOG
    hooks.install()
    handlers = list(LOG.handlers)
    crashed = None
    try:
        _child(case, phase, home, monitor_factory)
    except SystemExit as exc:
        crashed = f'SystemExit {exc.code}'
    except Exception:
        crashed = traceback.format_exc()[-3000:]
    finally:
        os.chdir(cwd)
        if env_home is not None:
            os.environ['HOME'] = env_home
        for h in list(LOG.handlers):
            if h not in handlers:
                LOG.removeHandler(h)
                if isinstance(h, logging.FileHandler):
                    h.close()
    if os.path.exists(phase['result_path']):
        with open(phase['result_path']) as f:
            res = json.load(f)
    else:
        res = {'crashed': crashed or 'no result'}
    res['exit'] = 0
    res['inproc'] = True
    return res


_PRISTINE = {}


def _child(case, phase, home, monitor_factory):
    os.environ['HOME'] = home
    os.environ['CYLC_RUN_DIR'] = ''
    os.environ.pop('CYLC_RUN_DIR', None)
    os.chdir(home)
    import cylc.flow.pathutil  # noqa: F401
    import cylc.flow.scheduler as S
    from cylc.flow.cfgspec import globalcfg
    from cylc.flow.scheduler_cli import RunOptions
    from cylc.flow.subprocpool import SubProcPool
    import cylc.flow.subprocpool as spp

    # the user's home moved: drop caches that remember paths
    globalcfg.GlobalConfig._DEFAULT = None

    import logging
    from cylc.flow import LOG
    LOG.setLevel(logging.INFO)   # the production default (log observers)
    if os.environ.get('VERIF_E1_LOG'):
        h = logging.FileHandler(os.path.join(
            home, f'sched-{phase["index"]}.log'))
        h.setFormatter(logging.Formatter('%(levelname)s %(message)s'))
        LOG.addHandler(h)
        LOG.setLevel(logging.DEBUG if os.environ['VERIF_E1_LOG'] == '2'
                     else logging.INFO)

    world_path = phase['world_path']
    if os.path.exists(world_path):
        world = W.JobWorld.load(case, world_path)
    else:
        world = W.JobWorld(case)
    world.incarnation = phase['index']

    monitors = monitor_factory(case, phase)
    drv = Driver(case, home, world, phase, monitors)
    drv.ledger = monitors[0]
    hooks.install()
    hooks.DRV = drv
    drv.vclock.install()
    for m in monitors:
        if hasattr(m, 'install'):
            m.install(drv)
        if hasattr(m, 'on_event'):
            drv.bus.listeners.append(m.on_event)

    from vlib.e1 import dbshim
    counter = dbshim.install()
    counter.n = 0
    counter.kill_at = phase.get('kill_at_stmt')
    counter.on_kill = lambda kind: drv.hard_kill(f'db:{kind}')
    drv.db_counter = counter

    FakePool = W.make_fake_pool_class(SubProcPool)
    FakePool.driver = drv
    S.SubProcPool = FakePool
    # killing fake processes: nothing to signal
    spp._killpg = lambda proc, sig: setattr(proc, 'killed', True) or True

    if phase.get('restart') and phase.get('remove_contact', True):
        contact = os.path.join(home, 'cylc-run', WF_NAME, '.service',
                               'contact')
        if os.path.exists(contact):
            os.unlink(contact)

    opts = {'run_mode': case.get('run_mode', 'live'), 'paused_start': False,
            'no_detach': True}
    opts.update(case.get('options', {}))
    opts.update(phase.get('options', {}))
    options = RunOptions(**opts)

    async def main():
        schd = S.Scheduler(WF_NAME, options)
        drv.schd = schd
        if hasattr(drv, 'on_scheduler_created'):
            pass
        for m in monitors:
            if hasattr(m, 'on_scheduler_created'):
                m.on_scheduler_created(drv, schd)
        await schd.install()
        await schd.start()
        for m in monitors:
            if hasattr(m, 'after_start'):
                drv._safe(m.after_start, drv, schd)
        # run_scheduler handles its own shutdown; a SchedulerError is
        # re-raised by handle_exception
        try:
            await schd.run_scheduler()
        except BaseException as exc:  # noqa
            drv.stop_exc = f'{type(exc).__name__}: {exc}'
        return schd

    # record the shutdown reason
    orig_shutdown = _PRISTINE.setdefault('_shutdown', S.Scheduler._shutdown)

    async def _shutdown(self, reason):
        drv.stop_reason = f'{type(reason).__name__}: {reason}'
        drv.bus.emit('STOP', reason=drv.stop_reason,
                     pool=getattr(drv, 'last_pool', None))
        for m in monitors:
            if hasattr(m, 'on_shutdown'):
                drv._safe(m.on_shutdown, drv, self, reason)
        return await orig_shutdown(self, reason)
    S.Scheduler._shutdown = _shutdown

    try:
        asyncio.run(main())
    except BaseException as exc:  # noqa
        drv.stop_exc = f'{type(exc).__name__}: {exc}'
        drv.extra['run_traceback'] = traceback.format_exc()[-2000:]
    for m in monitors:
        if hasattr(m, 'on_phase_end'):
            drv._safe(m.on_phase_end, drv)
    drv.extra['stop_exc'] = drv.stop_exc
    drv.finish()


def advance_world_offline(case, home, ticks, speed=0.6):
    """Jobs keep running while the scheduler is down."""
    p = os.path.join(home, 'world.json')
    if not os.path.exists(p):
        return
    w = W.JobWorld.load(case, p)
    for _ in range(ticks):
        w.advance(speed, offline=True)
        w.vtime += 2.0
    w.save(p)
