"""Reference model for integer recurrences (DESIGN Appendix E.1).

Written from the documented meaning of each form; never calls cylc.
A recurrence spec is a dict:
  {'form': str, 'n': int|None, 'S': spec|None, 'E': spec|None, 'k': int|None}
where a point spec is ('abs', v) or ('rel', d) (d signed).
"""
from __future__ import annotations

from typing import List, Optional

HORIZON = 80  # model enumerates unbounded progressions up to this value


def render_point(ps) -> str:
    kind, v = ps
    if kind == 'abs':
        return str(v)
    return ('+P' if v >= 0 else '-P') + str(abs(v))


def resolve(ps, ctx) -> Optional[int]:
    """Value of a point spec relative to context point ctx."""
    kind, v = ps
    if kind == 'abs':
        return v
    if ctx is None:
        return None
    return ctx + v


def render(spec) -> str:
    f = spec['form']
    n, S, E, k = spec.get('n'), spec.get('S'), spec.get('E'), spec.get('k')
    s = render_point(S) if S else None
    e = render_point(E) if E else None
    return {
        'Rn/S/E': lambda: f'R{n}/{s}/{e}',
        'S/Pk': lambda: f'{s}/P{k}',
        'Pk': lambda: f'P{k}',
        'Pk/E': lambda: f'P{k}/{e}',
        'R1': lambda: 'R1',
        'R1/': lambda: 'R1/',
        'R1/S': lambda: f'R1/{s}',
        'R1//E': lambda: f'R1//{e}',
        'Rn/S/Pk': lambda: f'R{n}/{s}/P{k}',
        'Rn//Pk': lambda: f'R{n}//P{k}',
        'Rn/Pk/E': lambda: f'R{n}/P{k}/{e}',
        'Rn/Pk': lambda: f'R{n}/P{k}',
    }[f]()


def progression(spec, I: int, F: Optional[int]) -> Optional[List[int]]:
    """Unclipped progression A (ascending list, truncated at HORIZON /
    -HORIZON). None when the form needs a context point that is absent."""
    f = spec['form']
    n, k = spec.get('n'), spec.get('k')
    S = resolve(spec['S'], I) if spec.get('S') else None
    E = resolve(spec['E'], F) if spec.get('E') else None
    if spec.get('E') and E is None:
        return None
    up = lambda a: list(range(a, HORIZON + 1, k))            # noqa: E731
    down = lambda e: sorted(range(e, -HORIZON - 1, -k))      # noqa: E731
    if f == 'Rn/S/E':
        if n == 1:
            return [S]
        step, rem = divmod(E - S, n - 1)
        assert rem == 0 and step > 0
        return [S + i * step for i in range(n)]
    if f == 'S/Pk':
        return up(S)
    if f == 'Pk':
        return up(I)
    if f == 'Pk/E':
        return down(E)
    if f in ('R1', 'R1/'):
        return [I]
    if f == 'R1/S':
        return [S]
    if f == 'R1//E':
        return [E]
    if f == 'Rn/S/Pk':
        return [S + i * k for i in range(n)]
    if f == 'Rn//Pk':
        return [I + i * k for i in range(n)]
    if f == 'Rn/Pk/E':
        return sorted(E - i * k for i in range(n))
    if f == 'Rn/Pk':
        if F is None:
            return None
        return sorted(F - i * k for i in range(n))
    raise ValueError(f)


def clip(A: List[int], I: int, F: Optional[int]) -> List[int]:
    return [a for a in A if a >= I and (F is None or a <= F)]


def point_set(spec, I, F, excl=()) -> Optional[List[int]]:
    """The clipped set minus exclusions.

    excl: list of ('pt', v) or ('seq', subspec); an exclusion recurrence is
    evaluated with the main sequence's first and last points as context.
    """
    A = progression(spec, I, F)
    if A is None:
        return None
    S = clip(A, I, F)
    if not S or not excl:
        return S
    first = S[0]
    last = S[-1] if _bounded(spec, F) else None
    out = set()
    for kind, v in excl:
        if kind == 'pt':
            out.add(v)
        else:
            sub = point_set(v, first, last)
            if sub is None:
                return None
            out.update(sub)
    return [s for s in S if s not in out]


def _bounded(spec, F) -> bool:
    if F is not None:
        return True
    return spec['form'] not in ('S/Pk', 'Pk')


def is_bounded(spec, F) -> bool:
    return _bounded(spec, F)


# -- queries over the explicit set ---------------------------------------

def nxt(S, p):
    for s in S:
        if s > p:
            return s
    return None


def prev(S, p):
    r = None
    for s in S:
        if s < p:
            r = s
        else:
            break
    return r


def first(S, p):
    for s in S:
        if s >= p:
            return s
    return None
