"""Monotone boolean expression trees and brute-force truth tables.

Independent of cylc: nothing here imports or imitates cylc-flow code.  Used as
the reference evaluator (the "GT evaluator" of DESIGN §4) wherever a check
has to say what an AND/OR trigger expression *means*.

Tree representation (plain tuples, hashable, JSON-friendly)::

    ('atom', key)            key: any hashable value
    ('and', (t1, t2, ...))   n >= 1 children
    ('or',  (t1, t2, ...))   n >= 1 children
    ('const', True|False)

Everything is decided by explicit enumeration of assignments, never by
algebraic rewriting: two trees are equivalent iff their truth tables over the
union of their atoms are equal.  The table size is 2**n, callers keep n small
(`MAX_TABLE_ATOMS`).
"""
from __future__ import annotations

from typing import (
    Any, Callable, Hashable, Iterable, List, Optional, Sequence, Tuple,
)

Tree = tuple

ATOM, AND, OR, CONST = 'atom', 'and', 'or', 'const'
TRUE: Tree = (CONST, True)
FALSE: Tree = (CONST, False)
MAX_TABLE_ATOMS = 16


class ExprSyntaxError(ValueError):
    """Raised by the parsers of this module for ill-formed expressions."""


# -- constructors -----------------------------------------------------------

def atom(key: Hashable) -> Tree:
    return (ATOM, key)


def and_(*children: Tree) -> Tree:
    if not children:
        return TRUE
    return (AND, tuple(children))


def or_(*children: Tree) -> Tree:
    if not children:
        return FALSE
    return (OR, tuple(children))


def conj(trees: Iterable[Tree]) -> Tree:
    """AND of any number of trees (empty => TRUE, one => itself)."""
    trees = tuple(trees)
    if not trees:
        return TRUE
    if len(trees) == 1:
        return trees[0]
    return (AND, trees)


def disj(trees: Iterable[Tree]) -> Tree:
    trees = tuple(trees)
    if not trees:
        return FALSE
    if len(trees) == 1:
        return trees[0]
    return (OR, trees)


# -- inspection -------------------------------------------------------------

def atoms(tree: Tree) -> List[Hashable]:
    """Distinct atom keys in first-occurrence (left to right) order."""
    out: List[Hashable] = []
    seen = set()

    def walk(t):
        if t[0] == ATOM:
            if t[1] not in seen:
                seen.add(t[1])
                out.append(t[1])
        elif t[0] in (AND, OR):
            for c in t[1]:
                walk(c)
    walk(tree)
    return out


def leaves(tree: Tree) -> List[Hashable]:
    """All atom keys, with repetition, left to right."""
    if tree[0] == ATOM:
        return [tree[1]]
    if tree[0] in (AND, OR):
        out: List[Hashable] = []
        for c in tree[1]:
            out.extend(leaves(c))
        return out
    return []


def has_or(tree: Tree) -> bool:
    if tree[0] == OR and len(tree[1]) > 1:
        return True
    if tree[0] in (AND, OR):
        return any(has_or(c) for c in tree[1])
    return False


def depth(tree: Tree) -> int:
    if tree[0] in (AND, OR):
        return 1 + max(depth(c) for c in tree[1])
    return 0


def shape(tree: Tree) -> str:
    """Structure without atom identities, e.g. '&(.,|(.,.))'."""
    if tree[0] == ATOM:
        return '.'
    if tree[0] == CONST:
        return 'T' if tree[1] else 'F'
    return ('&' if tree[0] == AND else '|') + '(' + ','.join(
        shape(c) for c in tree[1]) + ')'


# -- evaluation -------------------------------------------------------------

def evaluate(tree: Tree, truth: Any) -> bool:
    """Evaluate under `truth`: a callable key->bool, a dict, or a set of the
    true keys."""
    if callable(truth):
        look = truth
    elif isinstance(truth, dict):
        def look(k):
            return bool(truth[k])
    else:
        def look(k):
            return k in truth

    def ev(t):
        kind = t[0]
        if kind == ATOM:
            return bool(look(t[1]))
        if kind == CONST:
            return bool(t[1])
        if kind == AND:
            for c in t[1]:
                if not ev(c):
                    return False
            return True
        if kind == OR:
            for c in t[1]:
                if ev(c):
                    return True
            return False
        raise ValueError(f'not a tree: {t!r}')
    return ev(tree)


def assignment(order: Sequence[Hashable], row: int) -> frozenset:
    """The set of true atoms in truth-table row `row` (bit i <-> order[i])."""
    return frozenset(k for i, k in enumerate(order) if row >> i & 1)


def table(tree: Tree, order: Optional[Sequence[Hashable]] = None
          ) -> Tuple[bool, ...]:
    """Truth table over `order` (default: the tree's own atoms)."""
    if order is None:
        order = atoms(tree)
    n = len(order)
    if n > MAX_TABLE_ATOMS:
        raise ValueError(f'{n} atoms: truth table too large')
    return tuple(evaluate(tree, assignment(order, r)) for r in range(1 << n))


def first_difference(t1: Tree, t2: Tree) -> Optional[dict]:
    """None if equivalent, else a witness assignment.

    Atoms are compared by key; an atom present in only one tree matters iff
    that tree really depends on it.
    """
    order = atoms(t1)
    for k in atoms(t2):
        if k not in order:
            order.append(k)
    if len(order) > MAX_TABLE_ATOMS:
        raise ValueError('too many atoms to compare')
    for r in range(1 << len(order)):
        a = assignment(order, r)
        v1, v2 = evaluate(t1, a), evaluate(t2, a)
        if v1 != v2:
            return {'true_atoms': sorted(a, key=repr), 'first': v1,
                    'second': v2}
    return None


def equivalent(t1: Tree, t2: Tree) -> bool:
    return first_difference(t1, t2) is None


def depends_on(tree: Tree, key: Hashable) -> bool:
    """Does flipping `key` ever change the value?"""
    order = [k for k in atoms(tree) if k != key]
    if key not in atoms(tree):
        return False
    for r in range(1 << len(order)):
        a = assignment(order, r)
        if evaluate(tree, a) != evaluate(tree, a | {key}):
            return True
    return False


# -- transformation ---------------------------------------------------------

def substitute(tree: Tree, fn: Callable[[Hashable], Optional[Tree]]) -> Tree:
    """Replace every atom by fn(key) (None keeps the atom)."""
    if tree[0] == ATOM:
        r = fn(tree[1])
        return tree if r is None else r
    if tree[0] in (AND, OR):
        return (tree[0], tuple(substitute(c, fn) for c in tree[1]))
    return tree


def rekey(tree: Tree, fn: Callable[[Hashable], Hashable]) -> Tree:
    return substitute(tree, lambda k: (ATOM, fn(k)))


# -- text -------------------------------------------------------------------

def render(tree: Tree, atom_text: Callable[[Hashable], str] = str,
           and_op: str = ' & ', or_op: str = ' | ') -> str:
    """Minimally parenthesised infix text (AND binds tighter than OR)."""
    def r(t, parent):
        if t[0] == ATOM:
            return atom_text(t[1])
        if t[0] == CONST:
            return 'TRUE' if t[1] else 'FALSE'
        if len(t[1]) == 1:
            return r(t[1][0], parent)
        op = and_op if t[0] == AND else or_op
        s = op.join(r(c, t[0]) for c in t[1])
        # only an OR directly under an AND needs parentheses
        return '(' + s + ')' if (parent == AND and t[0] == OR) else s
    return r(tree, None)


def parse_infix(text: str, and_op: str = '&', or_op: str = '|',
                atom_key: Callable[[str], Hashable] = lambda s: s,
                strip: bool = True) -> Tree:
    """Recursive-descent parser for `x & (y | z)` style text.

    Grammar (AND binds tighter than OR, both left-associative and n-ary)::

        expr   := term (OR term)*
        term   := factor (AND factor)*
        factor := '(' expr ')' | ATOMTEXT

    ATOMTEXT is any maximal run of characters that contains none of
    ``( ) and_op or_op``; it is passed through `atom_key`.  Empty operands,
    missing operators and unbalanced parentheses raise ExprSyntaxError.
    """
    if len(and_op) != 1 or len(or_op) != 1:
        raise ValueError('single-character operators only')
    special = '()' + and_op + or_op
    toks: List[str] = []
    buf = ''
    for ch in text + '\0':
        if ch in special or ch == '\0':
            word = buf.strip() if strip else buf
            if word:
                toks.append(word)
            buf = ''
            if ch != '\0':
                toks.append(ch)
        else:
            buf += ch
    pos = 0

    def peek():
        return toks[pos] if pos < len(toks) else None

    def factor():
        nonlocal pos
        t = peek()
        if t is None:
            raise ExprSyntaxError(f'operand expected at end of {text!r}')
        if t == '(':
            pos += 1
            e = expr()
            if peek() != ')':
                raise ExprSyntaxError(f'")" expected in {text!r}')
            pos += 1
            return e
        if t in special:
            raise ExprSyntaxError(f'operand expected before {t!r} in {text!r}')
        pos += 1
        return (ATOM, atom_key(t))

    def term():
        nonlocal pos
        parts = [factor()]
        while peek() == and_op:
            pos += 1
            parts.append(factor())
        return parts[0] if len(parts) == 1 else (AND, tuple(parts))

    def expr():
        nonlocal pos
        parts = [term()]
        while peek() == or_op:
            pos += 1
            parts.append(term())
        return parts[0] if len(parts) == 1 else (OR, tuple(parts))

    tree = expr()
    if pos != len(toks):
        raise ExprSyntaxError(
            f'unexpected {toks[pos]!r} in {text!r}')
    return tree


def from_alternating(items: Sequence[Any],
                     leaf: Callable[[Any], Hashable],
                     and_op: str = '&', or_op: str = '|') -> Tree:
    """Tree of a nested "operand, operator, operand, ..." list.

    `items` is e.g. ``[x, '&', [y, '|', z]]``: operands are non-string
    objects (mapped through `leaf` to atom keys) or nested lists; operators
    are the strings `and_op` / `or_op`.  AND binds tighter than OR.  Anything
    else (two operands in a row, a dangling operator, a string operand)
    raises ExprSyntaxError.
    """
    def operand(x):
        if isinstance(x, (list, tuple)):
            return seq(x)
        if isinstance(x, str):
            raise ExprSyntaxError(f'string {x!r} where an operand is expected')
        return (ATOM, leaf(x))

    def seq(lst):
        if not lst:
            raise ExprSyntaxError('empty operand list')
        if len(lst) % 2 == 0:
            raise ExprSyntaxError(f'operand/operator mismatch in {lst!r}')
        ors: List[Tree] = []
        ands: List[Tree] = [operand(lst[0])]
        for i in range(1, len(lst), 2):
            op, nxt = lst[i], lst[i + 1]
            if op == and_op:
                ands.append(operand(nxt))
            elif op == or_op:
                ors.append(conj(ands))
                ands = [operand(nxt)]
            else:
                raise ExprSyntaxError(f'operator expected, got {op!r}')
        ors.append(conj(ands))
        return disj(ors)
    return seq(list(items))


def to_jsonable(tree: Tree, atom_text: Callable[[Hashable], Any] = repr):
    if tree[0] == ATOM:
        return atom_text(tree[1])
    if tree[0] == CONST:
        return bool(tree[1])
    return {tree[0]: [to_jsonable(c, atom_text) for c in tree[1]]}
