"""C07 Task instances stay within cycle bounds and on their sequences."""
from vlib.e1.common import E1_META, E1_NOTE, simple_case
from vlib.gen import wfgen

PID = 'C07'
META = dict(E1_META, **{
    'technique': 'online monitor on every task-pool addition and job-submit '
                 'command against GT recurrence point sets',
    'level_text': (
        'Every proxy added to the pool of a real scheduler run must lie in '
        '[initial, final] and on a ground-truth recurrence of its task '
        '(point sets computed by own arithmetic); once a stop point is '
        'configured no non-manual submission beyond it.'),
    'level_note': E1_NOTE,
    'design_ref': 'DESIGN.md §5 C07',
})
RULE = ('case = generated workflow with several recurrences, offsets incl. '
        'future triggers, stop-after point; distinct by event census')
ASSUMPTIONS = ['stop point = [scheduling]stop after cycle point']
MIN = {'c07.adds': 1500, 'c07.submits': 1000}
NCASES = {'quick': 1000, 'thorough': 12000}


def ncases(tier):
    return NCASES[tier]


def run_case(ctx, i, rng):
    feat = wfgen.Features(
        future_offsets=rng.random() < 0.5, stop_after=rng.random() < 0.5,
        recs=['P1', 'P2', 'P3', 'R1', 'R1/$', '2/P2', '+P1/P2', 'R2/P2',
              'R1/2', 'R2//P2', '0/P3', '-1/P3', '-P1/P3'],
        max_sections=3)
    simple_case(ctx, i, rng, PID, feat, plan_class='all-complete',
                hostile=0.3)
