"""E1 half of C11: retention in running schedulers (the E2 half in
vlib/e2/c11.py decides the completion expression itself)."""
from __future__ import annotations

from vlib.e1 import runner, scripts
from vlib.gen import wfgen

MONS = ['c11', 'c26']


def script(rng, case):
    gt = case['gt']
    sc = scripts.random_script(rng, case, kinds=[
        'hold', 'release', 'trigger', 'pause', 'poll', 'reload'],
        max_cmds=3, horizon=20)
    # triggers / sets that ask to wait for the flow to catch up (--wait):
    # the task finishes alone and must still be removed when complete
    for _ in range(rng.randint(0, 2)):
        ids = scripts.some_ids(rng, gt, k=rng.choice([1, 1, 2]), globs=False)
        sc.append({'at': rng.randint(1, 18), 'cmd': 'force_trigger_tasks',
                   'args': {'tasks': ids, 'flow': rng.choice(
                       [['all'], ['new'], ['1']]), 'flow_wait': True}})
    return sorted(sc, key=lambda a: a['at'])


def run_case(ctx, i, rng, pid):
    feat = wfgen.Features(max_tasks=5, retries=rng.random() < 0.3,
                          submit_fail=rng.random() < 0.3,
                          runahead=['P1', 'P2', 'P4', None])
    gt = wfgen.gen_workflow(rng, feat)
    case = runner.build_case(rng, gt, rng.choice(['mixed', 'with-failures',
                                                  'all-complete']),
                             hostile=0.4)
    sc = script(rng, case)
    results = runner.run_case(ctx, f'e{i}', case,
                              [{'name': 'run', 'script': sc}], MONS, pid)
    if not results:
        ctx.evaluated(('e1-discard', i), nontrivial=False)
        return
    m = (results[0].get('monitors') or {}).get('c11') or {}
    ctx.evaluated(('e1', runner.trace_key(results)),
                  nontrivial=bool(m.get('removals_checked')))
    ctx.count('e1_runs')
