"""Random command scripts (DESIGN §3.4). Commands go through the real
mutation entry point at the start of the chosen main-loop iteration."""
from __future__ import annotations

import random
from typing import List

from vlib.gen import wfgen


def some_ids(rng, gt, k=None, globs=True, off_sequence=False) -> List[str]:
    inst = [(n, p) for n in gt['names'] for p in wfgen.task_points(gt, n)]
    k = k or rng.choice([1, 1, 2, 3])
    ids = []
    for _ in range(k):
        r = rng.random()
        n, p = rng.choice(inst)
        if globs and r < 0.15:
            ids.append(f'*/{n}')
        elif globs and r < 0.3:
            ids.append(f'{p}/*')
        elif off_sequence and r < 0.4:
            ids.append(f'{rng.randint(0, gt["final"] + 2)}/{n}')
        else:
            ids.append(f'{p}/{n}')
    return sorted(set(ids))


def random_script(rng: random.Random, case: dict, kinds=None,
                  max_cmds=6, horizon=30) -> List[dict]:
    gt = case['gt']
    kinds = kinds or ['hold', 'release', 'trigger', 'set', 'remove',
                      'pause', 'poll', 'kill', 'hold_point', 'reload']
    script = []
    n = rng.randint(1, max_cmds)
    paused_at = None
    for _ in range(n):
        at = rng.randint(1, horizon)
        k = rng.choice(kinds)
        if k == 'hold':
            script.append({'at': at, 'cmd': 'hold',
                           'args': {'tasks': some_ids(rng, gt)}})
            if rng.random() < 0.7:
                script.append({'at': at + rng.randint(1, 8), 'cmd': 'release',
                               'args': {'tasks': some_ids(rng, gt)}})
        elif k == 'release':
            script.append({'at': at, 'cmd': 'release',
                           'args': {'tasks': some_ids(rng, gt)}})
        elif k == 'trigger':
            flow = rng.choice([['all'], ['all'], ['new'], ['none'], ['1'],
                               ['2']])
            script.append({'at': at, 'cmd': 'force_trigger_tasks',
                           'args': {'tasks': some_ids(rng, gt, globs=False),
                                    'flow': flow}})
            if 'reload' in kinds and rng.random() < 0.2:
                # a reload requested while the triggered task is on its way
                # to job submission
                # (also queued ahead of the trigger: the trigger is then
                # executed from inside the reload's wait loop)
                rl = {'at': at + rng.choice([0, 0, 1]),
                      'cmd': 'reload_workflow', 'args': {}}
                if rl['at'] == at and rng.random() < 0.5:
                    script.insert(len(script) - 1, rl)
                else:
                    script.append(rl)
        elif k == 'set':
            args = {'tasks': some_ids(rng, gt, globs=False),
                    'flow': rng.choice([['all'], ['all'], ['new'], ['1']])}
            r = rng.random()
            if r < 0.4:
                args['outputs'] = rng.choice(
                    [['succeeded'], ['started'], ['failed'], ['x'],
                     ['submitted'], ['succeeded', 'x']])
            elif r < 0.6:
                args['prerequisites'] = ['all']
            script.append({'at': at, 'cmd': 'set', 'args': args})
        elif k == 'remove':
            script.append({'at': at, 'cmd': 'remove_tasks',
                           'args': {'tasks': some_ids(rng, gt, globs=False),
                                    'flow': rng.choice([[], [], ['1']])}})
        elif k == 'pause':
            script.append({'at': at, 'cmd': 'pause', 'args': {}})
            script.append({'at': at + rng.randint(1, 6), 'cmd': 'resume',
                           'args': {}})
        elif k == 'poll':
            script.append({'at': at, 'cmd': 'poll_tasks',
                           'args': {'tasks': ['*/*']}})
        elif k == 'kill':
            script.append({'at': at, 'cmd': 'kill_tasks',
                           'args': {'tasks': some_ids(rng, gt)}})
        elif k == 'hold_point':
            script.append({'at': at, 'cmd': 'set_hold_point',
                           'args': {'point': str(rng.randint(
                               1, gt['final']))}})
            if rng.random() < 0.7:
                script.append({'at': at + rng.randint(2, 10),
                               'cmd': 'release_hold_point', 'args': {}})
        elif k == 'reload':
            script.append({'at': at, 'cmd': 'reload_workflow', 'args': {}})
        elif k == 'stop_flow':
            # usually after a new flow was started
            script.append({'at': max(1, at - rng.randint(1, 6)),
                           'cmd': 'force_trigger_tasks',
                           'args': {'tasks': some_ids(rng, gt, globs=False),
                                    'flow': ['new']}})
            script.append({'at': at, 'cmd': 'stop',
                           'args': {'flow_num': rng.choice([1, 2, 2, 3])}})
    script.sort(key=lambda a: a['at'])
    return script
