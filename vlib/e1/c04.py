"""C04 Runahead limit is respected and never deadlocks a completable run."""
from vlib.e1 import runner
from vlib.e1.common import ALL_MON, E1_META, E1_NOTE, simple_case
from vlib.gen import wfgen
from vlib.models import gtmodel

PID = 'C04'
META = dict(E1_META, **{
    'technique': 'online monitor on every runahead release against a limit '
                 'recomputed from the pool snapshot and GT recurrences; '
                 'bounded-progress check of all-complete runs',
    'level_text': (
        'At every release from the runahead pool in real scheduler runs the '
        'released waiting tasks must lie at or below the limit recomputed by '
        'own arithmetic from the pool snapshot: (n+1)-th earliest point of '
        'the union of ground-truth recurrences at or after the earliest '
        'pooled point, plus the largest future-trigger offset of pooled '
        'tasks, capped at the stop point. Bounded-progress restatement of '
        '"never deadlocks": every all-complete run with nothing stuck in '
        'the closure model reaches automatic shutdown within the iteration '
        'cap and runs the closure set, for limits P0-P4.'),
    'level_note': E1_NOTE + ' Duration limits are not generated (integer '
                  'cycling only).',
    'design_ref': 'DESIGN.md §5 C04',
})
RULE = ('case = generated workflow with 1-3 recurrences of different steps, '
        'runahead limit P0-P4, future offsets, stop point; all-complete '
        'plan with out-of-order finishing; distinct by event census')
ASSUMPTIONS = ['integer cycling, count limits Pn only',
               'manually triggered tasks are exempt (none in this workload)']
MIN = {'c04.release_checks': 1000, 'c04.base_point_changes': 100,
       'c04.released_at_limit': 100, 'completable_runs_finished': 30}
NCASES = {'quick': 1000, 'thorough': 12000}


def ncases(tier):
    return NCASES[tier]


def run_case(ctx, i, rng):
    feat = wfgen.Features(
        future_offsets=rng.random() < 0.4, stop_after=rng.random() < 0.3,
        runahead=['P0', 'P0', 'P1', 'P2', 'P3', 'P4'],
        recs=['P1', 'P2', 'P3', 'R1', 'R1/$', '2/P2', '+P1/P2'],
        max_final=6, min_final=3)
    case, results = simple_case(ctx, i, rng, PID, feat,
                                plan_class='all-complete', hostile=0.3)
    if not results:
        return
    res = results[0]
    model = gtmodel.closure(case)
    if model['stuck'] or model['incomplete'] or res.get('capped'):
        if res.get('capped') and not (model['stuck'] or model['incomplete']):
            ctx.violation('C04:completable-run-did-not-finish',
                          'all-complete run with nothing stuck hit the '
                          'iteration cap', {'flow': case['gt']['flow_text']})
        return
    auto = (res.get('stop_reason') or '').endswith('AUTOMATIC')
    end = (res.get('monitors') or {}).get('end') or {}
    if auto:
        ctx.count('completable_runs_finished')
    else:
        # may be the known C01 parentless-chain finding: judged by C01
        sub = {tuple(s.split('/', 1)) for s in end.get('submitted', [])}
        missing = {(str(p), n) for n, p in model['run']} - sub
        from vlib.e1.c43 import known_c01
        if missing and known_c01(case, {f'{p}/{n}' for p, n in missing},
                                 [res]):
            ctx.count('not_finished_due_to_C01_known_finding')
            return
        # mechanism: a released task waits (through two or more future
        # triggers) on a task that is itself held back by the limit - the
        # limit is only extended by the largest single future offset
        fut = any(isinstance(a[2], int) and a[2] > 0
                  for sec in case['gt']['sections'] for ar in sec['arrows']
                  for a in wfgen.atoms(ar['lhs']))
        blocked = [t['id'] for t in (res.get('final_pool') or [])
                   if t['status'] == 'waiting' and t['runahead']
                   and t['prereqs_sat']]
        mech = (':future-trigger-chain-beyond-limit'
                if fut and blocked and res.get('ended_by_harness') ==
                'stalled' else '')
        ctx.violation(
            'C04:completable-run-did-not-finish' + mech,
            f'every task completes and nothing is stuck in the model, but '
            f'the run ended {res.get("stop_reason")} '
            f'({res.get("ended_by_harness")}) with runahead limit '
            f'{case["gt"].get("runahead")}',
            {'flow': case['gt']['flow_text'], 'plans': case['plans'],
             'submitted': end.get('submitted'),
             'final_pool': [(t['id'], t['status'], t['runahead'])
                            for t in (res.get('final_pool') or [])]})
